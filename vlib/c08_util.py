"""C08 helpers: the reusable *stack monitor*, the fault controller with its probe objects, and
the abstract-template builder used by checks/c08.py.

StackMonitor
    Installed from the harness only (no repository hooks).  It wraps

    * ``TemplateDict._push`` / ``TemplateDict._pop``            (event log: who pushed what),
    * ``_DocumentTemplate.render_blocks_``                      (rebound in every module that
      imported it by name),
    * ``render`` / ``renderwb`` / ``renderwob`` / ``__call__`` (and ``render_try_*``) of every tag
      class reachable from ``String.commands`` (Var, Comment, ReturnTag, InClass, With, Let, Try,
      Raise, Tree, ...), ``TreeTag.tpRender`` / ``tpRenderTABLE``,
    * ``String.__call__``.

    Every wrapper snapshots ``(list(md._data), md.level)`` of the namespace *it was given* on
    entry and compares identity-and-order of the entries and the level on EVERY exit path
    (return, exception, DTReturn) in a ``try/finally``.  ``install()`` must run before any
    template is cooked (``InClass.renderwb`` is bound into the block list at cook time).

    An imbalanced frame with no imbalanced monitored frame nested inside it (same namespace
    object) is an *origin*; imbalanced frames that enclose an origin are *cascades* (they popped
    their own entries from a stack that was already wrong) and are only counted.
"""
import os
import sys

MISSING = '<missing>'


def _short(v, n=60):
    try:
        r = repr(v)
    except BaseException:
        r = '<%s: repr failed>' % type(v).__name__
    return r if len(r) <= n else r[:n] + '...'


class _Rec:
    __slots__ = ('label', 'kind', 'md', 'tainted', 'how', 'msg', 'top', 'serial')

    def __init__(self, label, kind, md, serial):
        self.label = label
        self.kind = kind
        self.md = md
        self.tainted = False
        self.how = None
        self.msg = None
        self.top = False
        self.serial = serial


class StackMonitor:
    MAX_PROBLEMS = 40

    def __init__(self):
        self.stack = []          # active monitored frames (innermost last)
        self.problems = []       # origin imbalances of the current execution
        self.cascades = 0        # imbalanced frames enclosing an origin (current execution)
        self.pushes = []         # (entry, pusher, frame record) of the current execution
        self.pops = 0
        self.exceptional = 0     # exits by exception / DTReturn in the current execution
        self.evaluations = 0     # frame exits compared (cumulative)
        self.exits = {}          # (frame kind, exit kind) -> n (cumulative)
        self.wrapped = []        # labels of everything wrapped
        self.serial = 0
        self.installed = False
        self.TemplateDict = None
        self.DTReturn = None

    # ------------------------------------------------------------ per execution
    def reset(self):
        del self.stack[:]
        del self.problems[:]
        del self.pushes[:]
        self.cascades = 0
        self.pops = 0
        self.exceptional = 0

    # ------------------------------------------------------------ comparison
    def _describe(self, entry):
        d = {'type': type(entry).__name__, 'pusher': None, 'pusher_frame': None,
             'pusher_exit': None, 'pusher_msg': None}
        inst = getattr(entry, 'inst', None)
        if inst is not None and type(entry).__name__ == 'InstanceDict':
            d['of'] = getattr(inst, 'vlabel', None) or type(inst).__name__
        elif isinstance(entry, dict):
            d['keys'] = sorted(str(k) for k in list(entry)[:6])
        for e, pusher, rec in reversed(self.pushes):
            if e is entry:
                d['pusher'] = pusher
                if rec is not None:
                    d['pusher_frame'] = rec.kind
                    d['pusher_exit'] = rec.how
                    d['pusher_msg'] = rec.msg
                break
        return d

    def compare(self, rec, md, snap, lvl, how, msg=None):
        """Called on every exit of a monitored frame."""
        self.evaluations += 1
        k = (rec.kind, how)
        self.exits[k] = self.exits.get(k, 0) + 1
        rec.how = how
        rec.msg = msg
        if how != 'return':
            self.exceptional += 1
        cur = md._data
        n = len(snap)
        same = len(cur) == n
        if same:
            for i in range(n):
                if cur[i] is not snap[i]:
                    same = False
                    break
        level_now = md.level
        if same and level_now == lvl:
            return
        # imbalance: taint the enclosing frames that render into the same namespace
        for r in self.stack:
            if r.md is md:
                r.tainted = True
        if rec.tainted:
            self.cascades += 1
            return
        p = 0
        m = min(len(cur), n)
        while p < m and cur[p] is snap[p]:
            p += 1
        prob = {'frame': rec.label, 'kind': rec.kind, 'exit': how, 'msg': msg,
                'entry_depth': n, 'exit_depth': len(cur),
                'extra': [self._describe(e) for e in cur[p:]][:8],
                'missing': [self._describe(e) for e in snap[p:]][:8],
                'level_entry': lvl, 'level_exit': level_now,
                'enclosing': [r.kind for r in self.stack][-6:]}
        if len(self.problems) < self.MAX_PROBLEMS:
            self.problems.append(prob)

    # ------------------------------------------------------------ wrappers
    def _exit_kind(self, e):
        if isinstance(e, self.DTReturn):
            return 'DTReturn', None
        try:
            msg = str(e)[:80]
        except BaseException:
            msg = '<str failed>'
        return 'exc:' + type(e).__name__, msg

    def wrap_tag_method(self, cls, attr, label):
        """render(self, md)-shaped methods of tag classes."""
        real = cls.__dict__[attr]
        if getattr(real, '_c08_wrapped', False):
            return
        mon = self
        kind = label

        def wrapper(self, md):
            mon.serial += 1
            rec = _Rec(label, kind, md, mon.serial)
            snap = list(md._data)
            lvl = md.level
            mon.stack.append(rec)
            how = 'return'
            msg = None
            try:
                return real(self, md)
            except BaseException as e:
                how, msg = mon._exit_kind(e)
                raise
            finally:
                mon.stack.pop()
                mon.compare(rec, md, snap, lvl, how, msg)
        wrapper.__name__ = getattr(real, '__name__', attr)
        wrapper.__wrapped__ = real
        wrapper._c08_wrapped = True
        setattr(cls, attr, wrapper)
        self.wrapped.append(label)

    def wrap_function(self, module, name, label, md_index, md_name='md'):
        """Module-level functions taking the namespace as positional argument md_index."""
        real = getattr(module, name)
        if getattr(real, '_c08_wrapped', False):
            return real
        mon = self

        def wrapper(*a, **kw):
            md = a[md_index] if len(a) > md_index else kw[md_name]
            mon.serial += 1
            rec = _Rec(label, label, md, mon.serial)
            if mon.stack:
                top = mon.stack[-1]
                if top.top and top.md is None:
                    top.md = md          # the namespace a top-level call created for itself
            snap = list(md._data)
            lvl = md.level
            mon.stack.append(rec)
            how = 'return'
            msg = None
            try:
                return real(*a, **kw)
            except BaseException as e:
                how, msg = mon._exit_kind(e)
                raise
            finally:
                mon.stack.pop()
                mon.compare(rec, md, snap, lvl, how, msg)
        wrapper.__name__ = name
        wrapper.__wrapped__ = real
        wrapper._c08_wrapped = True
        setattr(module, name, wrapper)
        self.wrapped.append(label)
        return wrapper

    def wrap_string_call(self, String):
        real = String.__dict__['__call__']
        if getattr(real, '_c08_wrapped', False):
            return
        mon = self
        TemplateDict = self.TemplateDict

        def __call__(self, client=None, mapping={}, **kw):
            sub = isinstance(mapping, TemplateDict)
            mon.serial += 1
            if sub:
                md = mapping
                rec = _Rec('String.__call__(sub-template)', 'String.__call__(sub-template)', md,
                           mon.serial)
                snap = list(md._data)
                lvl = md.level
            else:
                rec = _Rec('String.__call__(top-level)', 'String.__call__(top-level)', None,
                           mon.serial)
                rec.top = True
                snap = lvl = None
            mon.stack.append(rec)
            how = 'return'
            msg = None
            try:
                return real(self, client, mapping, **kw)
            except BaseException as e:
                how, msg = mon._exit_kind(e)
                raise
            finally:
                mon.stack.pop()
                if sub:
                    mon.compare(rec, md, snap, lvl, how, msg)
                else:
                    mon.top_exit(rec, how, msg)
        __call__.__wrapped__ = real
        __call__._c08_wrapped = True
        String.__call__ = __call__
        self.wrapped.append('String.__call__')

    def top_exit(self, rec, how, msg):
        """A top-level call renders into a namespace it created itself: only the level counter
        (entry value of a fresh namespace: 0) is demanded at its exit."""
        self.evaluations += 1
        k = (rec.kind, how)
        self.exits[k] = self.exits.get(k, 0) + 1
        rec.how = how
        rec.msg = msg
        md = rec.md
        if md is None:
            return
        if md.level != 0 and not rec.tainted:
            if len(self.problems) < self.MAX_PROBLEMS:
                self.problems.append({'frame': rec.label, 'kind': rec.kind, 'exit': how, 'msg': msg,
                                      'entry_depth': None, 'exit_depth': len(md._data),
                                      'extra': [], 'missing': [], 'level_entry': 0,
                                      'level_exit': md.level, 'enclosing': []})

    def install(self):
        if self.installed:
            return self
        import DocumentTemplate
        from DocumentTemplate import _DocumentTemplate as core
        from DocumentTemplate import DT_String
        from DocumentTemplate.DT_Return import DTReturn
        import TreeDisplay  # noqa: F401  registers the tree tag
        from TreeDisplay import TreeTag
        self.DTReturn = DTReturn
        TemplateDict = self.TemplateDict = core.TemplateDict
        mon = self
        real_push = TemplateDict.__dict__['_push']
        real_pop = TemplateDict.__dict__['_pop']
        getframe = sys._getframe
        base = os.path.basename

        def _push(self, src):
            f = getframe(1)
            code = f.f_code
            mon.pushes.append((src, '%s:%s' % (base(code.co_filename), code.co_name),
                               mon.stack[-1] if mon.stack else None))
            return real_push(self, src)

        def _pop(self, i=1):
            mon.pops += 1
            return real_pop(self, i)
        _push.__wrapped__ = real_push
        _pop.__wrapped__ = real_pop
        TemplateDict._push = _push
        TemplateDict._pop = _pop
        self.wrapped += ['TemplateDict._push', 'TemplateDict._pop']

        # render_blocks_: module global of _DocumentTemplate; rebind every importer by name
        w = self.wrap_function(core, 'render_blocks_', 'render_blocks_', 2)
        real_rb = w.__wrapped__
        for name, mod in list(sys.modules.items()):
            if mod is None or not (name.startswith('DocumentTemplate') or name.startswith('TreeDisplay')):
                continue
            if mod is not core and getattr(mod, 'render_blocks_', None) is real_rb:
                setattr(mod, 'render_blocks_', w)
                self.wrapped.append('render_blocks_ rebound in ' + name)

        # tag classes: everything reachable from String.commands plus the known modules
        classes = []
        String = DT_String.String
        for cname, cmd in list(String.commands.items()):
            if isinstance(cmd, tuple):
                modname, clsname = cmd[1], cmd[2]
                m = __import__('DocumentTemplate.' + modname, fromlist=[clsname])
                cmd = getattr(m, clsname)
            classes.append(cmd)
        from DocumentTemplate import DT_In
        classes.append(DT_In.InClass)
        seen = set()
        for c in classes:
            cls = c if isinstance(c, type) else type(c)
            if cls in seen or cls.__name__ in ('InFactory',):
                continue
            seen.add(cls)
            orig = dict((a, cls.__dict__.get(a)) for a in
                        ('render', 'renderwb', 'renderwob', 'render_try_except',
                         'render_try_finally', '__call__'))
            for attr, f in orig.items():
                if f is None or not hasattr(f, '__code__'):
                    continue
                if attr == '__call__' and f is orig.get('render'):
                    label = '%s.render' % cls.__name__      # alias of render: same frame kind
                else:
                    label = '%s.%s' % (cls.__name__, attr)
                self.wrap_tag_method(cls, attr, label)
        self.wrap_function(TreeTag, 'tpRender', 'tpRender', 1)
        self.wrap_function(TreeTag, 'tpRenderTABLE', 'tpRenderTABLE', 10)
        self.wrap_string_call(String)
        self.installed = True
        return self

    def report(self, ctx):
        ctx.count('monitor:frame exits compared', self.evaluations)
        for (kind, how), n in sorted(self.exits.items()):
            h = how if not how.startswith('exc:') else 'exception'
            ctx.table('frame exits by kind', '%s | %s' % (kind, h), n)
            ctx.count('monitor:exits ' + h, n)


# ====================================================================== fault controller
class Boom(Exception):
    """The custom exception injected at invocation points."""


class Abort(BaseException):
    """Injected non-Exception (passes every `except Exception`)."""


FAULT_KINDS = ('exc', 'key', 'keyother', 'ret', 'base', 'unauth', 'attr', 'index')


class Ctl:
    """Global counter of fault points of one execution; plan = {k: fault kind}."""

    def __init__(self, plan=None):
        self.plan = dict(plan or {})
        self.n = 0
        self.log = []       # (site, name) per point
        self.fired = []     # (k, kind, site)

    def hit(self, site, name=None):
        self.n += 1
        self.log.append(site)
        kind = self.plan.get(self.n)
        if kind is not None:
            self.fired.append((self.n, kind, site))
            raise self.make(kind, name, self.n)

    @staticmethod
    def make(kind, name, k):
        from DocumentTemplate.DT_Return import DTReturn
        if kind == 'exc':
            return Boom('boom@%d' % k)
        if kind == 'key':
            return KeyError(name or 'k@%d' % k)
        if kind == 'keyother':
            return KeyError('zz-other@%d' % k)
        if kind == 'ret':
            return DTReturn('RET@%d' % k)
        if kind == 'base':
            return Abort('abort@%d' % k)
        if kind == 'unauth':
            from zExceptions import Unauthorized
            return Unauthorized('denied@%d' % k)
        if kind == 'attr':
            return AttributeError(name or 'a@%d' % k)
        if kind == 'index':
            return IndexError('idx@%d' % k)
        raise ValueError(kind)


class Probe:
    """Namespace callable: an invocation point."""

    def __init__(self, env, site, name, result):
        self.env = env
        self.site = site
        self.name = name
        self.result = result

    def __call__(self, *a, **kw):
        self.env.ctl.hit(self.site, self.name)
        return self.result


class Obj:
    """Object pushed as a scope (client / item / with / tree node).  Its method `meth`,
    its `__getattr__` for unknown names and its `__str__` are fault points."""

    def __init__(self, env, where, label, **attrs):
        d = self.__dict__
        d['env'] = env
        d['where'] = where
        d['vlabel'] = label
        d.update(attrs)

    def meth(self):
        self.env.ctl.hit('objmeth@' + self.where, 'meth')
        return 'm@' + self.vlabel

    def __getattr__(self, name):
        if name[:1] == '_' or name in ('aq_base', 'isDocTemp', 'taintWrapper', 'get', 'keys'):
            raise AttributeError(name)
        self.env.ctl.hit('getattr@' + self.where, name)
        raise AttributeError(name)

    def __str__(self):
        self.env.ctl.hit('str@' + self.where, '__str__')
        return 'S@' + self.vlabel


class OnlyObj(Obj):
    """Object for `with only`: also carries the base bindings the body needs."""


class Node(Obj):
    """Tree node: tpId / tpURL / children accessors are fault points."""

    def tpId(self):
        self.env.ctl.hit('tree-id@' + self.where, 'tpId')
        return self.nid

    def tpURL(self):
        self.env.ctl.hit('tree-url@' + self.where, 'tpURL')
        return self.nid

    def tpValues(self):
        self.env.ctl.hit('tree-branches@' + self.where, 'tpValues')
        return self.children

    def kids(self):
        self.env.ctl.hit('tree-branches@' + self.where, 'kids')
        return self.children


class LazySeq:
    """Subscriptable sequence whose element access is a fault point (m-th pull)."""

    def __init__(self, env, where, items):
        self.env = env
        self.where = where
        self.items = items

    def __getitem__(self, i):
        self.env.ctl.hit('seq-getitem@' + self.where, 'getitem')
        return self.items[i]

    def __len__(self):
        return len(self.items)


class IterSeq:
    """Plain iterator (no subscription): the engine wraps it; every pull is a fault point."""

    def __init__(self, env, where, items):
        self.env = env
        self.where = where
        self.items = list(items)
        self.i = 0

    def __iter__(self):
        return self

    def __next__(self):
        self.env.ctl.hit('iter-pull@' + self.where, 'next')
        if self.i >= len(self.items):
            raise StopIteration
        v = self.items[self.i]
        self.i += 1
        return v


class Response:
    def setCookie(self, *a, **kw):
        pass


class Env:
    """Everything of one execution: controller, namespace, value registry, head/tail records."""

    def __init__(self, plan=None):
        self.ctl = Ctl(plan)
        self.ns = {}
        self.reg = {}
        self.keep = []
        self.heads = {}
        self.tail_events = []     # (site, head record or None, tail record)
        self.vocab = ()
        self.mix_seen = {}        # in-block name -> element codes its body was rendered for

    def label(self, obj, label):
        self.reg[id(obj)] = label
        self.keep.append(obj)
        return obj

    def token(self, v):
        lab = self.reg.get(id(v))
        if lab is not None:
            return lab
        s = getattr(v, '__self__', None)
        if s is not None and id(s) in self.reg:
            return 'method of ' + self.reg[id(s)]
        if v is None or isinstance(v, (str, int, float, bool)):
            return _short(v, 40)
        if isinstance(v, (tuple, list)) and len(v) < 6:
            return [self.token(x) for x in v]
        return '<%s>' % type(v).__name__

    def bindings(self, md):
        """Value bound to every vocabulary name, without calling anything."""
        out = {}
        plan, self.ctl.plan = self.ctl.plan, {}      # observing must not fire faults
        n, log = self.ctl.n, len(self.ctl.log)
        try:
            for name in self.vocab:
                try:
                    v = md.getitem(name, 0)
                except KeyError:
                    continue
                except BaseException as e:
                    out[name] = '<lookup raised %s>' % type(e).__name__
                    continue
                out[name] = self.token(v)
        finally:
            self.ctl.plan = plan
            self.ctl.n = n
            del self.ctl.log[log:]
        return out


class HeadProbe:
    def __init__(self, env, site):
        self.env = env
        self.site = site

    def __call__(self, md):
        self.env.heads[self.site] = self.env.bindings(md)
        return ''


class TailProbe:
    def __init__(self, env, site):
        self.env = env
        self.site = site

    def __call__(self, md):
        self.env.tail_events.append((self.site, self.env.heads.get(self.site), self.env.bindings(md)))
        return ''


class MixRecorder:
    """Body probe of a mixed-element dtml-in: records, from the harness side, which element the
    body is being rendered for (the value bound to sequence-item).  Not a fault point."""

    def __init__(self, env, name, elems):
        self.env = env
        self.name = name
        self.elems = elems       # [(code, value bound to sequence-item for that element)]

    def __call__(self, md):
        env = self.env
        plan, env.ctl.plan = env.ctl.plan, {}
        n, log = env.ctl.n, len(env.ctl.log)
        try:
            try:
                v = md.getitem('sequence-item', 0)
            except BaseException as e:
                env.mix_seen.setdefault(self.name, []).append('?' + type(e).__name__)
                return ''
        finally:
            env.ctl.plan = plan
            env.ctl.n = n
            del env.ctl.log[log:]
        code = '?'
        for c, ev in self.elems:
            if ev is v or (type(ev) in (str, bytes, int, float) and type(ev) is type(v) and ev == v):
                code = c
                break
        env.mix_seen.setdefault(self.name, []).append(code)
        return ''


class MapObj:
    """Mapping that is not a dict (for `mapping` loops / `with mapping`): item access is a fault
    point."""

    def __init__(self, env, where, label, data):
        self.env = env
        self.where = where
        self.vlabel = label
        self.data = data

    def __getitem__(self, key):
        self.env.ctl.hit('map-getitem@' + self.where, key)
        return self.data[key]


# element kinds of a mixed sequence: code -> coarse class used in the coverage tables
MIX_CLASS = {'o': 'obj', 'm': 'map', 'M': 'map', 't': 'pair', 'u': 'pair', 'v': 'pair', 's': 'str',
             'b': 'str', 'i': 'num', 'f': 'num', 'n': 'other', 'l': 'other'}
MIX_PLAIN = ('o', 'm', 't', 'u', 's', 'b', 'i', 'f', 'n', 'l')
MIX_MAPPING = ('m', 'v', 'M', 's', 'i', 'o')


def mixed_element(env, code, where, label, attrs, i=0):
    """(element as it sits in the sequence, value the engine binds to sequence-item)."""
    if code == 'o':
        v = env.label(Obj(env, where, label, **attrs), label)
        return v, v
    if code == 'm':
        v = env.label(dict(attrs), label)
        return v, v
    if code == 'M':
        v = env.label(MapObj(env, where, label, dict(attrs)), label)
        return v, v
    if code == 't':
        v = env.label(Obj(env, where, label, **attrs), label)
        return ('k@' + label, v), v
    if code == 'u':
        v = 'pv@' + label
        return ('k@' + label, v), v
    if code == 'v':
        v = env.label(dict(attrs), label)
        return ('k@' + label, v), v
    if code == 's':
        v = 'e@' + label
        return v, v
    if code == 'b':
        v = ('e@' + label).encode()
        return v, v
    if code == 'i':
        v = 1000 + i
        return v, v
    if code == 'f':
        v = 0.25 + i
        return v, v
    if code == 'n':
        return None, None
    if code == 'l':
        v = env.label([label, 1, 2], label)
        return v, v
    raise ValueError(code)


# ====================================================================== builder
BLOCK_KINDS = ('top', 'if', 'elif', 'else', 'unless', 'in', 'in-batch', 'in-else', 'with',
               'with-only', 'with-mapping', 'let', 'try-body', 'except', 'try-else',
               'tryfin-body', 'finally', 'raise-body', 'sub', 'tree-body', 'tree-doc')

EXC_NAMES = ('', 'Boom', 'KeyError', 'Exception', 'LookupError', 'ZeroDivisionError',
             'Unauthorized', 'SystemError', 'ValueError', 'AttributeError')


class Built:
    pass


class Builder:
    """Abstract tree (JSON lists) -> DTML source + per-run namespace makers.

    Node forms (see gen_* in checks/c08.py):
      ['text', s] ['var', form] ['call', form] ['return', form] ['engine', kind]
      ['if', [[condform, truth, body], ...], else|None] ['unless', condform, truth, body]
      ['in', opts, body, else|None] ['with', kind, body] ['let', [forms], body]
      ['try', body, [[names, body], ...], else|None] ['tryfin', body, fin]
      ['raise', form, body] ['comment', body] ['sub', opts, body] ['rec', opts]
      ['tree', opts, body]
    """

    def __init__(self, tree, guarded=False):
        from DocumentTemplate.DT_HTML import HTML
        self.tree = tree
        self.guarded = guarded
        self.n = 0
        self.makers = []        # fn(env)
        self.late = []          # fn(env) run after all makers
        self.vocab = ['x', 'meth', 'sequence-item', 'sequence-index', 'error_type',
                      'tree-level', 'tree-item-expanded', 'standard_html_header', 'kx', 'mk_base',
                      'mk_extra', 'mk_top', 'mk_client', 'mk_client0', 'mk_kw']
        self.kinds = set()      # block kinds present
        self.features = set()
        self.cls = make_guarded_class(HTML) if guarded else HTML
        self.subs = {}
        self.mixed_info = {}    # in-block name -> {'batched': bool, 'flags': str} of mixed loops
        self.src = self.body(tree, ['top'])
        self.full = ('<dtml-var "th0(_)"><dtml-try>' + self.src +
                     '<dtml-except>[caught <dtml-var error_type>]</dtml-try><dtml-var "tt0(_)">')
        self.makers.append(lambda env: env.ns.update(th0=HeadProbe(env, 0), tt0=TailProbe(env, 0)))

    # ---------------------------------------------------------- helpers
    def nid(self):
        self.n += 1
        return self.n

    def probe(self, pointkind, path, result=None):
        n = self.nid()
        name = 'p%d' % n
        site = '%s@%s' % (pointkind, path[-1])
        res = ('r%d' % n) if result is None else result

        def mk(env, name=name, site=site, res=res):
            env.ns[name] = Probe(env, site, name, res)
        self.makers.append(mk)
        return name

    def body(self, nodes, path):
        self.kinds.add(path[-1])
        return ''.join(self.node(nd, path) for nd in nodes)

    def obj_attrs(self, label, n):
        mk = 'mk_%s' % label
        if mk not in self.vocab:
            self.vocab.append(mk)
        return {'x': 'x@' + label, mk: 'M@' + label}

    # ---------------------------------------------------------- nodes
    def node(self, nd, path):
        return getattr(self, 'n_' + nd[0])(nd, path)

    def n_text(self, nd, path):
        return nd[1]

    def n_var(self, nd, path):
        form = nd[1]
        if form in ('str', 'strfmt'):
            n = self.nid()
            name = 'so%d' % n
            where = path[-1]

            def mk(env, name=name, where=where):
                env.ns[name] = env.label(Obj(env, where, name), name)
            self.makers.append(mk)
            return '<dtml-var %s%s>' % (name, ' upper' if form == 'strfmt' else '')
        if form == 'meth':
            return '<dtml-var meth>'
        if form == 'x':
            return '<dtml-var x>'
        if form == 'item':       # str() of the current element (Obj.__str__ is a fault point)
            return '<dtml-var sequence-item>'
        if form == 'objmeth':
            n = self.nid()
            name = 'o%d' % n
            where = path[-1]

            def mk(env, name=name, where=where):
                env.ns[name] = env.label(Obj(env, where, name), name)
            self.makers.append(mk)
            return '<dtml-var "%s.meth()">' % name
        p = self.probe('var-' + form, path)
        return {'name': '<dtml-var %s>', 'hq': '<dtml-var %s html_quote>',
                'fmt': '<dtml-var %s upper>', 'expr': '<dtml-var "%s()">',
                'exprfmt': '<dtml-var expr="%s()" lower>', 'entity': '&dtml-%s;',
                'null': '<dtml-var %s null="N" missing="M">'}[form] % p

    def n_call(self, nd, path):
        p = self.probe('call-' + nd[1], path)
        return ('<dtml-call %s>' if nd[1] == 'name' else '<dtml-call "%s()">') % p

    def n_return(self, nd, path):
        form = nd[1]
        if form == 'const':
            return '<dtml-return x>'
        p = self.probe('return-' + form, path)
        return ('<dtml-return %s>' if form == 'name' else '<dtml-return "%s()">') % p

    def n_engine(self, nd, path):
        """Exceptions raised by the engine itself."""
        kind = nd[1]
        self.features.add('engine:' + kind)
        n = self.nid()
        return {'missing': '<dtml-var nosuch%d>' % n,
                'zerodiv': '<dtml-var "1/0">',
                'nameerr': '<dtml-var "nosuchfn%d()">' % n,
                'raise': '<dtml-raise ValueError>v%d</dtml-raise>' % n,
                'badfmt': '<dtml-var x fmt="%d">',
                'badsize': '<dtml-in "[1,2,3]" size=nosuchsize><dtml-var sequence-item></dtml-in>',
                'strseq': '<dtml-in "\'abc\'"><dtml-var sequence-item></dtml-in>',
                }[kind]

    def cond(self, form, truth, path, pk):
        p = self.probe(pk + '-' + form, path, result=('yes' if truth else ''))
        return p if form == 'name' else '"%s()"' % p

    def n_if(self, nd, path):
        out = []
        for i, (form, truth, body) in enumerate(nd[1]):
            tag = 'if' if i == 0 else 'elif'
            out.append('<dtml-%s %s>' % (tag, self.cond(form, truth, path, tag + '-cond')))
            out.append(self.body(body, path + [tag]))
        if nd[2] is not None:
            out.append('<dtml-else>' + self.body(nd[2], path + ['else']))
        out.append('</dtml-if>')
        return ''.join(out)

    def n_unless(self, nd, path):
        return '<dtml-unless %s>%s</dtml-unless>' % (
            self.cond(nd[1], nd[2], path, 'unless-cond'), self.body(nd[3], path + ['unless']))

    def n_in(self, nd, path):
        opts, body, els = nd[1], nd[2], nd[3]
        n = self.nid()
        name = 's%d' % n
        kind = opts.get('kind', 'objs')
        count = opts.get('n', 2)
        mix = list(opts.get('mix') or ())
        cont = opts.get('cont', 'list')
        if kind == 'mixed':
            count = len(mix)
            self.features.add('in:mixed:' + cont)
            if opts.get('mapping'):
                self.features.add('in:mixed:mapping')
        batch = bool(opts.get('batch'))
        bk = 'in-batch' if batch else 'in'
        where = bk
        site = 'in-seq@' + path[-1]
        deny = opts.get('deny')
        attrs = [self.obj_attrs('%s_%d' % (name, i), n) for i in range(count)]
        self.features.add('in:' + kind)

        def mk(env, name=name, kind=kind, count=count, where=where, site=site, attrs=attrs,
               deny=deny, mix=mix, cont=cont, n=n):
            if kind == 'mixed':
                elems = []
                seq = []
                for i, code in enumerate(mix):
                    el, val = mixed_element(env, code, where, '%s_%d' % (name, i), attrs[i], i)
                    if deny is not None and i == deny % len(mix) and isinstance(el, Obj):
                        el.__dict__['deny_item'] = True
                    seq.append(el)
                    elems.append((code, val))
                if cont == 'tuple':
                    seq = tuple(seq)
                elif cont == 'lazy':
                    seq = LazySeq(env, where, seq)
                elif cont == 'iter':
                    seq = IterSeq(env, where, seq)
                env.ns['mx%d' % n] = MixRecorder(env, name, elems)
            elif kind == 'ints':
                seq = list(range(1, count + 1))
            elif kind == 'strs':
                seq = ['i%d' % i for i in range(count)]
            elif kind == 'str':
                seq = 'abc'
            elif kind == 'empty':
                seq = []
            elif kind == 'maps':
                seq = [env.label(dict(a), '%s_%d' % (name, i)) for i, a in enumerate(attrs)]
            else:
                objs = [env.label(Obj(env, where, '%s_%d' % (name, i), **a), '%s_%d' % (name, i))
                        for i, a in enumerate(attrs)]
                if deny is not None and objs:
                    objs[deny % len(objs)].__dict__['deny_item'] = True
                if kind == 'tuples':
                    seq = [('k%d' % i, o) for i, o in enumerate(objs)]
                elif kind == 'lazy':
                    seq = LazySeq(env, where, objs)
                elif kind == 'iter':
                    seq = IterSeq(env, where, objs)
                else:
                    seq = objs
            env.ns[name] = Probe(env, site, name, seq)
        self.makers.append(mk)
        a = [name if not opts.get('expr') else '"%s()"' % name]
        if kind == 'maps' or (kind == 'mixed' and opts.get('mapping')):
            a.append('mapping')
        if batch:
            if not opts.get('nosize') or not (opts.get('start') or opts.get('end')):
                # any one of size / start / end makes the tag a batched one
                a.append('size=%d' % opts.get('size', 2))
            if opts.get('start'):
                a.append('start=%d' % opts['start'])
            if opts.get('end'):
                a.append('end=%d' % opts['end'])
            if opts.get('orphan') is not None:
                a.append('orphan=%d' % opts['orphan'])
            if opts.get('overlap') is not None:
                a.append('overlap=%d' % opts['overlap'])
            if opts.get('prevnext'):
                a.append(opts['prevnext'])
            self.features.add('in:batch:' + '+'.join(k for k in ('size', 'start', 'end')
                                                     if ('%s=' % k) in ' '.join(a)))
        if opts.get('sortx'):               # sort key computed at render time (a fault point)
            a.append('sort_expr="%s()"' % self.probe('in-sort-expr', path, result='x'))
        elif opts.get('sort') and kind in ('objs', 'maps', 'tuples', 'lazy', 'mixed'):
            a.append('sort=x')
        if opts.get('revx'):
            a.append('reverse_expr="%s()"' % self.probe('in-reverse-expr', path, result=1))
        elif opts.get('reverse'):
            a.append('reverse')
        if opts.get('prefix'):
            a.append('prefix=pf%d' % n)
            for v in ('pf%d_item' % n, 'pf%d_index' % n):
                self.vocab.append(v)
        if opts.get('nopush'):
            a.append('no_push_item')
        if opts.get('skip'):
            a.append('skip_unauthorized')
        rec = ''
        if kind == 'mixed':
            rec = '<dtml-var "mx%d(_)">' % n
            self.mixed_info[name] = {
                'batched': batch,
                'flags': '+'.join(x.split('=')[0] for x in a[1:]
                                  if not x.startswith(('size', 'start', 'end', 'orphan', 'overlap')))}
        out = '<dtml-in %s>%s%s' % (' '.join(a), rec, self.body(body, path + [bk]))
        if els is not None:
            out += '<dtml-else>' + self.body(els, path + ['in-else'])
        return out + '</dtml-in>'

    def n_with(self, nd, path):
        kind, body = nd[1], nd[2]
        n = self.nid()
        bk = {'only': 'with-only', 'map': 'with-mapping', 'mapobj': 'with-mapping',
              'onlymap': 'with-only'}.get(kind, 'with')
        self.features.add('with:' + kind)
        label = 'w%d' % n
        attrs = self.obj_attrs(label, n)
        if kind == 'expr':
            p = self.probe('with-arg-expr', path)
            self.vocab.append('wv%d' % n)
            return '<dtml-with "_.namespace(wv%d=%s(), x=\'x@w%d\')">%s</dtml-with>' % (
                n, p, n, self.body(body, path + [bk]))
        if kind == 'call':
            name = 'wp%d' % n
            site = 'with-arg-name@' + path[-1]

            def mk(env, name=name, site=site, label=label, attrs=attrs, bk=bk):
                env.ns[name] = Probe(env, site, name, env.label(Obj(env, bk, label, **attrs), label))
            self.makers.append(mk)
            return '<dtml-with %s>%s</dtml-with>' % (name, self.body(body, path + [bk]))
        name = label

        def mk(env, name=name, kind=kind, attrs=attrs, bk=bk):
            if kind == 'map':
                env.ns[name] = env.label(dict(attrs), name)
            elif kind == 'only':
                o = env.label(OnlyObj(env, bk, name, **attrs), name)
                env.ns[name] = o
                env.onlys = getattr(env, 'onlys', []) + [o]
            elif kind == 'tuple':
                env.ns[name] = (env.label(Obj(env, bk, name, **attrs), name),)
            elif kind == 'tuple2':      # only 1-tuples are unwrapped
                env.ns[name] = (env.label(Obj(env, bk, name, **attrs), name),
                                env.label(Obj(env, bk, name + 'b', **attrs), name + 'b'))
            elif kind == 'str':
                env.ns[name] = 'plain@' + name
            elif kind == 'num':
                env.ns[name] = 7
            elif kind == 'none':
                env.ns[name] = None
            elif kind == 'mapobj':
                env.ns[name] = env.label(MapObj(env, bk, name, dict(attrs)), name)
            elif kind == 'onlymap':
                o = env.label(dict(attrs), name)
                env.ns[name] = o
                env.onlys = getattr(env, 'onlys', []) + [o]
            else:
                env.ns[name] = env.label(Obj(env, bk, name, **attrs), name)
        self.makers.append(mk)
        extra = {'map': ' mapping', 'only': ' only', 'mapobj': ' mapping',
                 'onlymap': ' only mapping'}.get(kind, '')
        return '<dtml-with %s%s>%s</dtml-with>' % (name, extra, self.body(body, path + [bk]))

    def n_let(self, nd, path):
        args = []
        for form in nd[1]:
            n = self.nid()
            if form == 'name':
                args.append('lv%d=%s' % (n, self.probe('let-arg-name', path)))
            elif form == 'expr':
                args.append('lv%d="%s()"' % (n, self.probe('let-arg-expr', path)))
            else:
                args.append('lv%d=x' % n)
            self.vocab.append('lv%d' % n)
        return '<dtml-let %s>%s</dtml-let>' % (' '.join(args), self.body(nd[2], path + ['let']))

    def headtail(self, inner):
        n = self.nid()

        def mk(env, n=n):
            env.ns['th%d' % n] = HeadProbe(env, n)
            env.ns['tt%d' % n] = TailProbe(env, n)
        self.makers.append(mk)
        return '<dtml-var "th%d(_)">%s<dtml-var "tt%d(_)">' % (n, inner, n)

    def n_try(self, nd, path):
        out = ['<dtml-try>', self.body(nd[1], path + ['try-body'])]
        for names, body in nd[2]:
            out.append('<dtml-except %s>' % names if names else '<dtml-except>')
            out.append(self.body(body, path + ['except']))
        if nd[3] is not None:
            out.append('<dtml-else>' + self.body(nd[3], path + ['try-else']))
        out.append('</dtml-try>')
        return self.headtail(''.join(out))

    def n_tryfin(self, nd, path):
        return self.headtail('<dtml-try>%s<dtml-finally>%s</dtml-try>' % (
            self.body(nd[1], path + ['tryfin-body']), self.body(nd[2], path + ['finally'])))

    def n_raise(self, nd, path):
        form = nd[1]
        if form == 'expr':
            p = self.probe('raise-type-expr', path, result=ValueError)
            head = '<dtml-raise expr="%s()">' % p
        else:
            head = '<dtml-raise %s>' % form
        return head + self.body(nd[2], path + ['raise-body']) + '</dtml-raise>'

    def n_comment(self, nd, path):
        return '<dtml-comment>%s</dtml-comment>' % self.body(nd[1], ['comment'])

    def n_sub(self, nd, path):
        opts, body = nd[1], nd[2]
        n = self.nid()
        name = 'sub%d' % n
        src = self.body(body, path + ['sub'])
        defaults = {}
        if opts.get('defaults', True):
            defaults = self.obj_attrs(name, n)
        t = self.cls(src, **defaults)
        if opts.get('vars'):
            t.var(**{'vz%d' % n: 'VZ'})
            self.vocab.append('vz%d' % n)
        self.subs[name] = t
        self.features.add('sub:' + opts.get('how', 'name'))
        self.makers.append(lambda env, name=name, t=t: env.ns.__setitem__(name, t))
        how = opts.get('how', 'name')
        if how == 'name':
            return '<dtml-var %s>' % name
        if how == 'kw':
            return '<dtml-var "%s(_.None, _, kx=1)">' % name
        if how == 'render':
            return '<dtml-var "_.render(%s)">' % name
        if how == 'client':
            on = 'o%d' % n
            attrs = self.obj_attrs(on, n)

            def mk(env, on=on, attrs=attrs):
                env.ns[on] = env.label(Obj(env, 'sub', on, **attrs), on)
            self.makers.append(mk)
            return '<dtml-var "%s(%s, _)">' % (name, on)
        if how in ('clientkw', 'tuple', 'tuplekw'):
            # a single client plus keywords / a "path" of 0..3 clients (with or without keywords)
            nc = 1 if how == 'clientkw' else opts.get('nclients', 2)
            ons = ['o%d%s' % (n, 'abc'[i]) for i in range(nc)]
            cattrs = [self.obj_attrs(on, n) for on in ons]

            def mk(env, ons=ons, cattrs=cattrs):
                for on, at in zip(ons, cattrs):
                    env.ns[on] = env.label(Obj(env, 'sub', on, **at), on)
            self.makers.append(mk)
            self.features.add('sub:clients=%d' % nc)
            carg = ons[0] if how == 'clientkw' else '(%s)' % ''.join(on + ', ' for on in ons)
            return '<dtml-var "%s(%s, _%s)">' % (name, carg, '' if how == 'tuple' else ', kx=1')
        raise ValueError(how)

    def n_rec(self, nd, path):
        """Self- or mutually-recursive sub-template(s): the engine's recursion limit."""
        opts = nd[1]
        n = self.nid()
        a, b = 'rec%d' % n, 'recb%d' % n
        self.features.add('rec:' + ('defaults' if opts.get('defaults') else 'nodefaults') +
                          (':mutual' if opts.get('mutual') else ''))
        da = self.obj_attrs(a, n) if opts.get('defaults') else {}
        pre = opts.get('pre', '')
        if opts.get('mutual'):
            db = self.obj_attrs(b, n) if opts.get('defaults') else {}
            ta = self.cls(pre + '<dtml-var %s>' % b, **da)
            tb = self.cls('<dtml-var %s>' % a, **db)
            self.subs[a], self.subs[b] = ta, tb
            self.makers.append(lambda env: env.ns.update({a: ta, b: tb}))
        else:
            ta = self.cls(pre + '<dtml-var %s>' % a, **da)
            self.subs[a] = ta
            self.makers.append(lambda env: env.ns.__setitem__(a, ta))
        return '<dtml-var %s>' % a

    def n_tree(self, nd, path):
        opts, body = nd[1], nd[2]
        n = self.nid()
        name = 'tr%d' % n
        br = opts.get('branches', 'default')
        self.features.add('tree:branches=' + br)
        for f in ('expand_all', 'collapse_all'):
            if opts.get(f):
                self.features.add('tree:' + f)
        shape = opts.get('shape', 'abc')
        labels = {'r': 'n%d_r' % n, 'a': 'n%d_a' % n, 'b': 'n%d_b' % n, 'a1': 'n%d_a1' % n,
                  'b1': 'n%d_b1' % n}
        attrs = dict((k, self.obj_attrs(v, n)) for k, v in labels.items())
        flags = dict((f, 1) for f in ('expand_all', 'collapse_all') if opts.get(f))
        deny = opts.get('deny')

        def mk(env, name=name, labels=labels, attrs=attrs, flags=flags, shape=shape, deny=deny):
            def node(k, children):
                o = Node(env, 'tree-body', labels[k], nid=labels[k], children=children, **attrs[k])
                return env.label(o, labels[k])
            a1 = node('a1', [])
            b1 = node('b1', [])
            a = node('a', [a1])
            b = node('b', [b1] if shape == 'abc' else [])
            if deny:
                b.__dict__['deny_item'] = True
            env.ns[name] = node('r', [a, b])
            env.ns.update(flags)
        self.makers.append(mk)
        a = [name]
        if br == 'named':
            a.append('branches=kids')
        elif br == 'expr':
            a.append('branches_expr="kids()"')
        for o in ('sort', 'reverse', 'skip_unauthorized', 'assume_children', 'single', 'nowrap'):
            if opts.get(o):
                a.append('sort=nid' if o == 'sort' else o)
        if opts.get('prefix'):
            a.append('prefix=tp%d' % n)
        for docattr in ('header', 'footer', 'leaves', 'expand'):
            if opts.get(docattr):
                dn = '%s%d' % (docattr[:3], n)
                dsrc = '[%s:' % docattr[:1] + self.body(opts[docattr], path + ['tree-doc']) + ']'
                dt = self.cls(dsrc, **self.obj_attrs(dn, n))
                self.subs[dn] = dt
                self.makers.append(lambda env, dn=dn, dt=dt: env.ns.__setitem__(dn, dt))
                a.append('%s=%s' % (docattr, dn))
        return '<dtml-tree %s>%s</dtml-tree>' % (' '.join(a), self.body(body, path + ['tree-body']))

    # ---------------------------------------------------------- per run
    def make_env(self, plan=None):
        env = Env(plan)
        env.vocab = tuple(dict.fromkeys(self.vocab))
        ns = env.ns
        ns['x'] = 'x@base'
        ns['mk_base'] = 'M@base'
        ns['meth'] = Probe(env, 'basemeth@top', 'meth', 'm@base')
        ns['URL'] = '/site/doc'
        ns['RESPONSE'] = Response()
        ns['Boom'] = Boom
        for mk in self.makers:
            mk(env)
        for o in getattr(env, 'onlys', ()):
            if isinstance(o, dict):
                for k, v in ns.items():
                    o.setdefault(k, v)
                continue
            for k, v in ns.items():
                if k not in o.__dict__ and not hasattr(type(o), k):
                    o.__dict__[k] = v
        return env


# ====================================================================== guard
CURRENT = {'env': None}


_GUARDED = {}


def make_guarded_class(HTML):
    from zExceptions import Unauthorized
    if HTML in _GUARDED:
        return _GUARDED[HTML]

    class GuardedHTML(HTML):
        """Template class with recording guards: each guard call is a fault point; items
        flagged `deny_item` and names starting with `secret` are refused."""

        def guarded_getattr(self, ob, name):
            env = CURRENT['env']
            if env is not None:
                env.ctl.hit('guard-attr@guard', name)
            if name.startswith('secret'):
                raise Unauthorized(name)
            return getattr(ob, name)

        def guarded_getitem(self, ob, index):
            env = CURRENT['env']
            if env is not None:
                env.ctl.hit('guard-item@guard', 'item')
            v = ob[index]
            if getattr(v, '__dict__', {}).get('deny_item'):
                raise Unauthorized('item %r' % (index,))
            return v
    _GUARDED[HTML] = GuardedHTML
    return GuardedHTML
