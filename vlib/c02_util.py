"""C02 vocabulary: value specs, a tiny template AST, its DTML printer, the objects that
realise a spec inside the real engine, and the reference model.

The model is written from the documentation only:
  * String.__call__ docstring + the property statement: the ordered list of sources;
  * DT_With / DT_Let / DT_If / DT_Try / DT_In module docstrings: what a block binds;
  * _DocumentTemplate module docstring + TemplateDict.getitem docstring: a callable found
    by name is called, a document template is rendered with the current namespace,
    expressions get the object itself.
It is an interpreter over an ordered list of scopes (plain dicts name -> spec); it never
looks at engine data structures.
"""
import re


class Missing(Exception):
    pass


class ModelRaise(Exception):
    def __init__(self, etype, msg):
        Exception.__init__(self, etype, msg)
        self.etype = etype
        self.msg = msg


class ModelReturn(Exception):
    """<dtml-return>: the activation ends, its result is the value."""

    def __init__(self, value):
        Exception.__init__(self, value)
        self.value = value


class ModelError(Exception):
    """The generator produced something the model has no rule for (harness bug)."""


WILD = object()          # a probe result the statement does not fix


class Segs:
    """Rendered text of a sub-template kept as segments (may contain WILD)."""

    def __init__(self, parts):
        self.parts = list(parts)


class FalsyText:
    """A value that is false but still prints an identifying token (result of a
    call-numbered callable whose value must be false)."""

    def __init__(self, token):
        self.token = token

    def __bool__(self):
        return False

    def __str__(self):
        return self.token

    def __repr__(self):
        return 'falsy(%s)' % self.token


# ------------------------------------------------------------------ value specs
class Plain:
    def __init__(self, value):
        self.value = value


class Call:
    """Callable namespace value; the k-th call returns '<base>#k'."""

    def __init__(self, name, base=None, falsy=False, ret='text'):
        self.name = name
        self.base = base or name
        self.falsy = falsy        # the callable object itself is false
        self.ret = ret            # 'text' | 'falsy': the returned value is false


class Raiser:
    def __init__(self, name, etype, msg):
        self.name = name
        self.etype = etype
        self.msg = msg


class Tmpl:
    def __init__(self, name, ast, defaults=None, tvars=None):
        self.name = name
        self.ast = ast
        self.defaults = defaults or {}
        self.tvars = tvars or {}      # variables set on the (sub-)template with .var()


class Obj:
    """An object with attributes.  truth: None | 'len0' (defines __len__, currently 0: an empty
    folder-like container) | 'false' (__bool__ says False) -- it is an object with attributes all
    the same.  result: None, or the spec calling the object returns (the object is callable: a
    lookup by name calls it, an expression gets the object itself)."""

    def __init__(self, name, attrs, truth=None, result=None):
        self.name = name
        self.attrs = attrs
        self.truth = truth
        self.result = result


class Map:
    def __init__(self, name, items):
        self.name = name
        self.items = items


class Seq:
    """A sequence.  result: None, or the spec calling the sequence object returns (see Obj)."""

    def __init__(self, name, items, result=None):
        self.name = name
        self.items = items
        self.result = result


class Helper:
    def __init__(self, name):
        self.name = name


# ------------------------------------------------------------------ AST
class Text:
    def __init__(self, s):
        self.s = s


class Probe:
    """form: name | entity | miss | expr | call | xvar | xcall.  paren: (..) instead of [..].
    xvar / xcall: <dtml-var X> / <dtml-call X> with X an Ex (name holds the Ex)."""

    def __init__(self, form, name, paren=False):
        self.form = form
        self.name = name
        self.paren = paren


EX_STYLES = ['q', 'e', 'p', 'ws', 'g', 'g0']


class Ex:
    """An EXPRESSION that is nothing but a reference to one name, where a tag takes a name or an
    expression (var, call, if, elif, unless, with, in, return; the value of a let binding).  The
    expression gets the object bound to the name as it is -- uncalled, unrendered -- and the tag
    works on that.  style: how the expression is spelled:
      q  "n"  (the documented shorthand of expr=)      e  expr="n"        p  "(n)"
      ws " n " / expr=" n "                            g  "_.getitem('n')"  g0 expr="_.getitem('n', 0)"
    (TemplateDict.getitem docstring: without a true second argument the object is returned
    without any attempt to call it)."""

    def __init__(self, name, style='q'):
        if style not in EX_STYLES:
            raise ModelError('unknown expression style %r' % (style,))
        self.name = name
        self.style = style


class Ns:
    """An expression that builds a namespace object with the `_` helper, the subject of a with
    block: style 'namespace': _.namespace(k=src, ...) ("a single instance whose attributes are
    provided as keyword arguments", DT_Util.namespace); 'under': _(k=src, ...) (the call
    _.namespace forwards to); 'pos': _(m, k=src, ...) with a mapping m in front.  kws: [(attribute,
    source name)]: the sources are read by the expression, so the attributes are the objects
    themselves, uncalled."""

    def __init__(self, style, kws, pos=None):
        if style not in ('namespace', 'under', 'pos') or (style == 'pos') != (pos is not None):
            raise ModelError('bad namespace expression %r' % ((style, pos),))
        self.style = style
        self.kws = list(kws)
        self.pos = pos


class Return:
    """<dtml-return n> / <dtml-return "n">: the template's result is that value."""

    def __init__(self, target):
        self.target = target


class SubCall:
    """A probe [<dtml-var "t(o, _, k=src)">]: the template bound to t called from an expression
    with the client object bound to `client` (None: no client), the current namespace as the
    mapping and keyword arguments (values read by the expression: uncalled)."""

    def __init__(self, tmpl, client=None, kws=(), paren=False):
        self.tmpl = tmpl
        self.client = client
        self.kws = list(kws)
        self.paren = paren


class In:
    def __init__(self, name, mapping, body, prefix=None):
        self.name = name
        self.mapping = mapping
        self.body = body
        self.prefix = prefix      # prefix=P: P_item / P_index / P_number (canonical 'P~item' ...)


class With:
    def __init__(self, name, mode, body):     # mode: inst | only | mapping
        self.name = name
        self.mode = mode
        self.body = body


class Let:
    def __init__(self, bindings, body):       # bindings: [(name, 'name'|'expr', source name)]
        self.bindings = bindings
        self.body = body


class Lit:
    """A condition that is an expression (a literal): nothing to look up, nothing bound."""

    def __init__(self, value):
        self.value = value


class If:
    def __init__(self, name, body, orelse, elifs=()):
        self.name = name              # a name, or Lit: the condition is an expression
        self.body = body
        self.orelse = orelse
        self.elifs = list(elifs)      # [(name | Lit, body)]


class Unless:
    def __init__(self, name, body):
        self.name = name
        self.body = body


class Try:
    def __init__(self, body, handler):
        self.body = body
        self.handler = handler


# ------------------------------------------------------------------ spelling of names
STYLES = ['lower', 'capital', 'upper', 'mixed', 'lowds', 'long', 'twins']
# <dtml-x n>...</dtml-x> | <!--#x n-->...<!--#/x--> | <dtml-x name=n> / <dtml-x name="n"> (the
# attribute the bare name is the documented shorthand of), alternating
SYNTAXES = ['html', 'old', 'named']
_LONG_TAIL = '_LongTailOfA_Name_0123456789_abcdefghijklmnopqrstuvwxyz_ABCDEFGHIJKLMNOPQRSTUVWXYZ'
_TWIN_WORD = 'identifier'
_LEGAL_NAME = re.compile(r'[A-Za-z][A-Za-z0-9_]*\Z')


class Spelling:
    """How the canonical (lower-case) names of the generator are spelled in front of the
    engine: in the template source, as keyword arguments, mapping keys, client attributes,
    construction defaults and template variables.  The model keeps working on the canonical
    names; a spelling is an injective map, so the namespace relations are unchanged -- names
    are just names (the statement gives them no structure), whatever their case, length,
    digits or underscores.  Style `twins` spells ALL names of a case as case variants of one
    word, so every two names differ only in case.  Names the engine itself defines
    (sequence-*, error_*) and the probe helper keep their spelling; 'P~item' is the alias
    P_item that <dtml-in prefix=P> defines."""

    def __init__(self, style='lower'):
        if isinstance(style, int):
            style = STYLES[style]
        if style not in STYLES:
            raise ModelError('unknown spelling style %r' % (style,))
        self.style = style
        self.memo = {}
        self.used = {}
        self.twins = 0

    def __call__(self, name):
        hit = self.memo.get(name)
        if hit is not None:
            return hit
        if '~' in name:
            base, suffix = name.split('~', 1)
            out = self(base) + '_' + suffix
        elif name == 'seen' or name.startswith('sequence-') or name.startswith('error_'):
            out = name
        else:
            out = self._spell(name)
            if not _LEGAL_NAME.match(out):
                raise ModelError('illegal spelling %r of %r' % (out, name))
        if self.used.setdefault(out, name) != name:
            raise ModelError('spelling %r of %r is taken by %r' % (out, name, self.used[out]))
        self.memo[name] = out
        return out

    def _spell(self, name):
        st = self.style
        if st == 'lower':
            return name
        if st == 'capital':
            return name[:1].upper() + name[1:]
        if st == 'upper':
            return name.upper()
        if st == 'mixed':       # mixed case with a digit and underscores inside
            body = ''.join(c.upper() if i % 2 else c.lower() for i, c in enumerate(name))
            return '%s_%dx%s' % (body, len(name), name[:1].upper())
        if st == 'lowds':       # no upper-case letter: digits and underscores only
            return '%s_0_v%d' % (name.lower(), len(name))
        if st == 'long':
            return name + _LONG_TAIL
        # twins: the k-th name of the case is the k-th case pattern of one word
        k = self.twins
        self.twins += 1
        if k >= 1 << len(_TWIN_WORD):
            raise ModelError('too many names for the twins spelling')
        return ''.join(c.upper() if k >> i & 1 else c for i, c in enumerate(_TWIN_WORD))


IDENTITY = Spelling('lower')


def to_dtml(ast, syntax='html', sp=None):
    sp = sp or IDENTITY
    toggle = [0]

    def nm(name):
        """The name argument of a tag."""
        name = sp(name)
        if syntax != 'named':
            return name
        toggle[0] += 1
        return ('name=%s' if toggle[0] % 2 else 'name="%s"') % name

    def extext(x):
        """The text of an expression that is a reference to one name."""
        name = sp(x.name)
        if x.style in ('q', 'e'):
            return name
        if x.style == 'p':
            return '(%s)' % name
        if x.style == 'ws':
            return ' %s ' % name
        if x.style == 'g':
            return "_.getitem('%s')" % name
        return "_.getitem('%s', 0)" % name

    def nstext(x):
        args = ['%s=%s' % (sp(k), sp(src)) for k, src in x.kws]
        if x.style == 'pos':
            args.insert(0, sp(x.pos))
        return '%s(%s)' % ('_.namespace' if x.style == 'namespace' else '_', ', '.join(args))

    def subj(c):
        """The name-or-expression argument of a tag."""
        if isinstance(c, Lit):
            toggle[0] += 1
            return ('"%r"' if syntax != 'named' and toggle[0] % 2 else 'expr="%r"') % (c.value,)
        if isinstance(c, Ex):
            if c.style in ('q', 'p', 'g'):
                return '"%s"' % extext(c)
            if c.style == 'ws':
                toggle[0] += 1
                return ('"%s"' if toggle[0] % 2 else 'expr="%s"') % extext(c)
            return 'expr="%s"' % extext(c)
        if isinstance(c, Ns):
            toggle[0] += 1
            return ('"%s"' if toggle[0] % 2 else 'expr="%s"') % nstext(c)
        return nm(c)
    cond = subj
    if syntax == 'old':
        def opn(tag, args=''):
            return '<!--#%s%s-->' % (tag, args and ' ' + args)

        def cls(tag):
            return '<!--#/%s-->' % tag
    else:
        def opn(tag, args=''):
            return '<dtml-%s%s>' % (tag, args and ' ' + args)

        def cls(tag):
            return '</dtml-%s>' % tag
    out = []
    for n in ast:
        if isinstance(n, Text):
            out.append(n.s)
        elif isinstance(n, Probe):
            o, c = '()' if n.paren else '[]'
            name = None if isinstance(n.name, Ex) else sp(n.name)
            if syntax == 'epfs':
                if n.form == 'name':
                    out.append('%s%%(%s)s%s' % (o, name, c))
                elif n.form == 'miss':
                    out.append('%s%%(%s missing="-")s%s' % (o, name, c))
                else:
                    raise ModelError('no EPFS form for ' + n.form)
            elif n.form == 'name':
                out.append(o + opn('var', nm(n.name)) + c)
            elif n.form == 'entity':
                out.append('%s&dtml-%s;%s' % (o, name, c))
            elif n.form == 'miss':
                out.append(o + opn('var', '%s missing="-"' % nm(n.name)) + c)
            elif n.form == 'expr':
                out.append(o + opn('var', '"seen(%s)"' % name) + c)
            elif n.form == 'call':
                out.append(opn('call', nm(n.name)))
            elif n.form == 'xvar':
                out.append(o + opn('var', subj(n.name)) + c)
            elif n.form == 'xcall':
                out.append(opn('call', subj(n.name)))
            else:
                raise ModelError(n.form)
        elif syntax == 'epfs':
            raise ModelError('blocks are not printed in the EPFS syntax')
        elif isinstance(n, SubCall):
            o, c = '()' if n.paren else '[]'
            args = [sp(n.client) if n.client else 'None', '_'] + ['%s=%s' % (sp(k), sp(src)) for k, src in n.kws]
            out.append(o + opn('var', '"%s(%s)"' % (sp(n.tmpl), ', '.join(args))) + c)
        elif isinstance(n, Return):
            out.append(opn('return', subj(n.target)))
        elif isinstance(n, In):
            args = subj(n.name) + (' mapping' if n.mapping else '')
            if n.prefix:
                args += ' prefix=' + sp(n.prefix)
            out.append(opn('in', args) + to_dtml(n.body, syntax, sp) + cls('in'))
        elif isinstance(n, With):
            opt = {'inst': '', 'only': ' only', 'mapping': ' mapping'}[n.mode]
            out.append(opn('with', subj(n.name) + opt) + to_dtml(n.body, syntax, sp) + cls('with'))
        elif isinstance(n, Let):
            b = ' '.join(('%s=%s' % (sp(a), sp(s))) if f == 'name' else
                         ('%s="%s"' % (sp(a), extext(s) if isinstance(s, Ex) else
                                       nstext(s) if isinstance(s, Ns) else sp(s)))
                         for a, f, s in n.bindings)
            out.append(opn('let', b) + to_dtml(n.body, syntax, sp) + cls('let'))
        elif isinstance(n, If):
            mid = ''.join(opn('elif', cond(en)) + to_dtml(eb, syntax, sp) for en, eb in n.elifs)
            out.append(opn('if', cond(n.name)) + to_dtml(n.body, syntax, sp) + mid + opn('else')
                       + to_dtml(n.orelse, syntax, sp) + cls('if'))
        elif isinstance(n, Unless):
            out.append(opn('unless', subj(n.name)) + to_dtml(n.body, syntax, sp) + cls('unless'))
        elif isinstance(n, Try):
            out.append(opn('try') + to_dtml(n.body, syntax, sp) + opn('except')
                       + to_dtml(n.handler, syntax, sp) + cls('try'))
        else:
            raise ModelError(repr(n))
    return ''.join(out)


# ------------------------------------------------------------------ reference model
class Model:
    def __init__(self):
        self.count = {}
        self.trace = []          # names of callables in the order they must be called
        self.only = 0
        self.wild = 0
        self.probes = {}         # form -> evaluated count
        self.subcalls = 0
        self.shadowed = 0        # lookups that skipped at least one lower definition
        # re-entrant invocations: a template invoked (by name) while an activation of the
        # same template is still in progress
        self.frames = []         # [template name, an inner activation of it has ended]
        self.reentered = 0       # activations started inside an activation of the same template
        self.max_active = 0      # most activations of one template in progress at once
        self.reentry_raised = 0  # such activations left through an exception
        self.after_reentry = 0   # probes evaluated by an activation after an inner one ended
        self.exprs = {}          # expression style -> evaluated count (Ex / Ns arguments of tags)
        self.container_calls = 0  # callable objects / sequences called by a lookup by name
        self.returns = 0         # activations ended by dtml-return
        self.falsy_objects = 0   # namespaces taken from an object whose truth value is false

    # -- lookup
    def find(self, stack, name):
        hit = None
        for scope in reversed(stack):
            if name in scope:
                if hit is None:
                    hit = scope[name]
                else:
                    self.shadowed += 1
                    break
        if hit is None:
            raise Missing(name)
        return hit

    def resolve(self, stack, name):
        return self.called(stack, self.find(stack, name))

    def value_of(self, stack, target):
        """What a tag works on: a name is looked up (callables called, templates rendered with
        the current namespace), an expression yields the object itself."""
        if isinstance(target, Ex):
            self.exprs[target.style] = self.exprs.get(target.style, 0) + 1
            return self.find(stack, target.name)
        if isinstance(target, Ns):
            self.exprs[target.style] = self.exprs.get(target.style, 0) + 1
            attrs = {}
            if target.pos is not None:
                attrs.update(self.scope_of(self.find(stack, target.pos)))
            for k, src in target.kws:
                if k in attrs:
                    raise ModelError('namespace attribute %s given twice' % k)
                attrs[k] = self.find(stack, src)
            return Obj('namespace', attrs)
        return self.resolve(stack, target)

    def called(self, stack, v, client=None, kw=None):
        if isinstance(v, (Obj, Seq)) and v.result is not None:
            self.trace.append(v.name)
            self.container_calls += 1
            return v.result
        if isinstance(v, Call):
            k = self.count[v.name] = self.count.get(v.name, 0) + 1
            self.trace.append(v.name)
            tok = '%s#%d' % (v.base, k)
            return Plain(FalsyText(tok) if v.ret == 'falsy' else tok)
        if isinstance(v, Raiser):
            self.trace.append(v.name)
            raise ModelRaise(v.etype, v.msg)
        if isinstance(v, Tmpl):
            self.subcalls += 1
            inner = stack
            if v.defaults:
                inner = inner + [dict(v.defaults)]
            if client is not None:
                inner = inner + [self.scope_of(client)]
            if v.tvars:
                inner = inner + [dict(v.tvars)]
            if kw:
                inner = inner + [kw]
            outer = [f for f in self.frames if f[0] == v.name]
            if outer:
                self.reentered += 1
                self.max_active = max(self.max_active, len(outer) + 1)
            self.frames.append([v.name, False])
            try:
                return Plain(Segs(self.render(v.ast, inner)))
            except ModelReturn as r:
                self.returns += 1
                return r.value
            except ModelRaise:
                if outer:
                    self.reentry_raised += 1
                raise
            finally:
                self.frames.pop()
                if outer:
                    outer[-1][1] = True
        return v

    # -- presentation
    def show(self, v):
        if isinstance(v, Plain):
            if isinstance(v.value, Segs):
                return list(v.value.parts)
            return [str(v.value)]
        if isinstance(v, (Obj, Map)):
            return ['obj:' + v.name]
        # an object that was handed over uncalled / unrendered is inserted as it prints
        if isinstance(v, Call):
            return ['UNCALLED:' + v.name]
        if isinstance(v, Tmpl):
            return ['UNRENDERED:' + v.name]
        raise ModelError('cannot show %r' % (v,))

    def seen(self, v):
        if isinstance(v, Plain):
            if isinstance(v.value, Segs):
                return ['str:'] + list(v.value.parts)
            if isinstance(v.value, str):
                return ['str:' + v.value]
            return ['val:%r' % (v.value,)]
        if isinstance(v, Seq):
            return ['seq:' + v.name]
        return ['obj:' + v.name]

    def truthy(self, v):
        if isinstance(v, Plain):
            if isinstance(v.value, Segs):
                return True
            return bool(v.value)
        if isinstance(v, Obj):
            return v.truth is None
        if isinstance(v, Call):         # the callable object itself (an expression tests it)
            return not v.falsy
        if isinstance(v, Seq):
            return bool(v.items)
        if isinstance(v, Map):
            return bool(v.items)
        return True

    def scope_of(self, v):
        if isinstance(v, Obj):
            if v.truth is not None:
                self.falsy_objects += 1
            return dict((k, x) for k, x in v.attrs.items() if not k.startswith('_'))
        if isinstance(v, Map):
            return dict(v.items)
        raise ModelError('not a namespace: %r' % (v,))

    # -- interpreter
    def render(self, ast, stack):
        out = []
        for n in ast:
            if isinstance(n, Text):
                out.append(n.s)
            elif isinstance(n, Probe):
                self.probes[n.form] = self.probes.get(n.form, 0) + 1
                if self.frames and self.frames[-1][1]:
                    self.after_reentry += 1
                if n.form == 'call':
                    self.resolve(stack, n.name)
                    continue
                if n.form == 'xcall':
                    self.value_of(stack, n.name)
                    continue
                if n.form in ('name', 'entity'):
                    try:
                        segs = self.show(self.resolve(stack, n.name))
                    except Missing:
                        raise ModelError('generator probed undefined %s' % n.name)
                elif n.form == 'miss':
                    try:
                        segs = self.show(self.resolve(stack, n.name))
                    except Missing:
                        if self.only:
                            # `only` hides the enclosing namespace; the statement says
                            # nothing about that, so an absent name there is not asserted
                            self.wild += 1
                            segs = [WILD]
                        else:
                            segs = ['-']
                elif n.form == 'expr':
                    segs = self.seen(self.find(stack, n.name))
                elif n.form == 'xvar':
                    segs = self.show(self.value_of(stack, n.name))
                else:
                    raise ModelError(n.form)
                o, c = '()' if n.paren else '[]'
                out.append(o)
                out.extend(segs)
                out.append(c)
            elif isinstance(n, SubCall):
                self.probes['subcall'] = self.probes.get('subcall', 0) + 1
                t = self.find(stack, n.tmpl)
                if not isinstance(t, Tmpl):
                    raise ModelError('%s is not a template' % n.tmpl)
                client = self.find(stack, n.client) if n.client else None
                kw = dict((k, self.find(stack, src)) for k, src in n.kws)
                o, c = '()' if n.paren else '[]'
                out.append(o)
                out.extend(self.show(self.called(stack, t, client, kw)))
                out.append(c)
            elif isinstance(n, Return):
                raise ModelReturn(self.value_of(stack, n.target))
            elif isinstance(n, In):
                seq = self.value_of(stack, n.name)
                if not isinstance(seq, Seq):
                    raise ModelError('dtml-in over %r' % (seq,))
                last = len(seq.items) - 1
                for i, item in enumerate(seq.items):
                    svars = {'sequence-item': item, 'sequence-index': Plain(i),
                             'sequence-number': Plain(i + 1)}
                    if n.prefix:
                        for suffix in ('item', 'index', 'number'):
                            svars['%s~%s' % (n.prefix, suffix)] = svars['sequence-' + suffix]
                    out.extend(self.render(n.body, stack + [svars, self.scope_of(item)]))
            elif isinstance(n, With):
                scope = self.scope_of(self.value_of(stack, n.name))
                if n.mode == 'only':
                    self.only += 1
                    try:
                        out.extend(self.render(n.body, [scope]))
                    finally:
                        self.only -= 1
                else:
                    out.extend(self.render(n.body, stack + [scope]))
            elif isinstance(n, Let):
                d = {}
                st = stack + [d]
                for name, form, src in n.bindings:
                    if form == 'name':
                        d[name] = self.resolve(st, src)
                    else:
                        d[name] = self.value_of(st, src) if isinstance(src, (Ex, Ns)) else self.find(st, src)
                out.extend(self.render(n.body, st))
            elif isinstance(n, If):
                # "a variable is only evaluated once in an if tag": every tested name
                # is bound to its (called) value for all sections up to the end tag
                cache = {}
                st = stack + [cache]
                chosen = n.orelse
                for cname, cbody in [(n.name, n.body)] + n.elifs:
                    if isinstance(cname, Lit):
                        # an expression condition: no lookup by name, nothing cached
                        if cname.value:
                            chosen = cbody
                            break
                        continue
                    if isinstance(cname, Ex):
                        # an expression that mentions a name: the object itself is tested --
                        # nothing is called, nothing is bound for the sections
                        try:
                            v = self.value_of(st, cname)
                        except Missing:
                            raise ModelError('generator tested undefined %s in an expression' % cname.name)
                        if self.truthy(v):
                            chosen = cbody
                            break
                        continue
                    try:
                        v = self.resolve(st, cname)
                    except Missing:
                        continue
                    cache[cname] = v
                    if self.truthy(v):
                        chosen = cbody
                        break
                out.extend(self.render(chosen, st))
            elif isinstance(n, Unless):
                cache = {}
                st = stack + [cache]
                if isinstance(n.name, Ex):
                    t = self.truthy(self.value_of(st, n.name))
                else:
                    try:
                        v = self.resolve(st, n.name)
                    except Missing:
                        t = False
                    else:
                        cache[n.name] = v
                        t = self.truthy(v)
                if not t:
                    out.extend(self.render(n.body, st))
            elif isinstance(n, Try):
                try:
                    seg = self.render(n.body, stack)
                except ModelRaise as e:
                    err = {'error_type': Plain(e.etype), 'error_value': Plain(e.msg),
                           'error_tb': Plain('traceback')}
                    seg = self.render(n.handler, stack + [err])
                out.extend(seg)
            else:
                raise ModelError(repr(n))
        return out


def segments_regex(segs):
    return re.compile(''.join(r'[^\[\]()]*' if s is WILD else re.escape(s) for s in segs),
                      re.S)


_NONBRACKET = re.compile(r'[^\[\]()]*')


def segments_match(segs, out):
    """Same verdict as segments_regex(segs).fullmatch(out), without compiling a pattern as
    long as the output: a wildcard stands for a run of non-bracket characters and is always
    followed by the closing bracket of its probe, so matching it greedily is exact.  Falls
    back to the pattern when a wildcard is followed by anything else."""
    pos = 0
    n = len(segs)
    for i, s in enumerate(segs):
        if s is WILD:
            if i + 1 >= n or segs[i + 1] is WILD or segs[i + 1][:1] not in ('[', ']', '(', ')'):
                return bool(segments_regex(segs).fullmatch(out))
            pos = _NONBRACKET.match(out, pos).end()
        elif out.startswith(s, pos):
            pos += len(s)
        else:
            return False
    return pos == len(out)


def segments_text(segs):
    return ''.join('*' if s is WILD else s for s in segs)


# ------------------------------------------------------------------ real objects
class RCall:
    def __init__(self, rec, name, base):
        self._rec = rec
        self._name = name
        self._base = base
        self._n = 0
        self._falsy_result = False

    def __call__(self):
        self._n += 1
        self._rec.log('call', self._name)
        tok = '%s#%d' % (self._base, self._n)
        return FalsyText(tok) if self._falsy_result else tok

    def __str__(self):
        return 'UNCALLED:' + self._name


class RFalsyCall(RCall):
    def __bool__(self):
        return False


class RRaise:
    def __init__(self, rec, name, etype, msg):
        self._rec = rec
        self._name = name
        self._exc = type(etype, (Exception,), {})
        self._msg = msg

    def __call__(self):
        self._rec.log('call', self._name)
        raise self._exc(self._msg)


class RObj:
    def __init__(self, name):
        self._c02name = name

    def __str__(self):
        return 'obj:' + self._c02name


class RObjLen0(RObj):
    """A folder-like container that is empty at the moment: it has a length, and it is 0."""

    def __len__(self):
        return 0


class RObjFalse(RObj):
    def __bool__(self):
        return False


def _calling(base):
    """The class `base` made callable: a call is logged and returns the prepared result."""
    def __call__(self):
        self._c02rec.log('call', self._c02name)
        return self._c02result
    return type('Calling' + base.__name__, (base,), {'__call__': __call__})


class RSeq(list):
    _c02name = ''

    def __str__(self):
        return 'seq:' + self._c02name


ROBJ_CLASSES = {None: RObj, 'len0': RObjLen0, 'false': RObjFalse}
ROBJ_CALLING = dict((k, _calling(c)) for k, c in ROBJ_CLASSES.items())
RSeqCalling = _calling(RSeq)


_LABELLED = {}


def labelled(tmpl_class):
    """tmpl_class with a __str__ of the harness: a template object that is inserted unrendered
    (an expression handed it over as an object) prints as UNRENDERED:<its name>."""
    c = _LABELLED.get(tmpl_class)
    if c is None:
        def __str__(self):
            return 'UNRENDERED:' + self.__dict__.get('c02label', '?')
        c = _LABELLED[tmpl_class] = type('Labelled' + tmpl_class.__name__, (tmpl_class,), {'__str__': __str__})
    return c


class RMap(dict):
    _c02name = ''

    def __str__(self):
        return 'obj:' + self._c02name


class CustomMapping:
    """A mapping object that is not a dict (keys / __getitem__ / __len__ only)."""

    def __init__(self, d):
        self._d = d

    def keys(self):
        return list(self._d.keys())

    def __getitem__(self, k):
        return self._d[k]

    def __len__(self):
        return len(self._d)


class Realizer:
    """spec -> the object handed to the real engine (one object per spec instance)."""

    def __init__(self, rec, tmpl_class, sp=None, syntax='html'):
        self.rec = rec
        self.tmpl_class = labelled(tmpl_class)
        self.sp = sp or IDENTITY
        self.syntax = syntax
        self.memo = {}
        self.registry = []

    def seen(self, x):
        for label, ob in self.registry:
            if ob is x:
                return label
        if isinstance(x, str):
            return 'str:' + x
        return 'val:%r' % (x,)

    def real(self, spec):
        hit = self.memo.get(id(spec))
        if hit is not None:
            return hit[1]
        reg = None
        if isinstance(spec, Plain):
            if isinstance(spec.value, Segs):
                raise ModelError('rendered text is not an input value')
            ob = spec.value
        elif isinstance(spec, Call):
            ob = (RFalsyCall if spec.falsy else RCall)(self.rec, spec.name, spec.base)
            ob._falsy_result = spec.ret == 'falsy'
            reg = 'obj:' + spec.name
        elif isinstance(spec, Raiser):
            ob = RRaise(self.rec, spec.name, spec.etype, spec.msg)
            reg = 'obj:' + spec.name
        elif isinstance(spec, Tmpl):
            ob = self.tmpl_class(to_dtml(spec.ast, self.syntax, self.sp),
                                 **self.real_scope(spec.defaults))
            if spec.tvars:
                ob.var(**self.real_scope(spec.tvars))
            ob.__dict__['c02label'] = spec.name
            reg = 'obj:' + spec.name
        elif isinstance(spec, Obj):
            ob = (ROBJ_CLASSES if spec.result is None else ROBJ_CALLING)[spec.truth](spec.name)
            self.memo[id(spec)] = (spec, ob)
            for k, v in spec.attrs.items():
                setattr(ob, self.sp(k), self.real(v))
            if spec.result is not None:
                ob._c02rec = self.rec
                ob._c02result = self.real(spec.result)
            reg = 'obj:' + spec.name
        elif isinstance(spec, Map):
            ob = RMap()
            ob._c02name = spec.name
            self.memo[id(spec)] = (spec, ob)
            for k, v in spec.items.items():
                ob[self.sp(k)] = self.real(v)
            reg = 'obj:' + spec.name
        elif isinstance(spec, Seq):
            if spec.result is None:
                ob = [self.real(i) for i in spec.items]
            else:
                ob = RSeqCalling(self.real(i) for i in spec.items)
                ob._c02name = spec.name
                ob._c02rec = self.rec
                ob._c02result = self.real(spec.result)
            reg = 'seq:' + spec.name
        elif isinstance(spec, Helper):
            ob = self.seen
        else:
            raise ModelError(repr(spec))
        self.memo[id(spec)] = (spec, ob)
        if reg:
            self.registry.append((reg, ob))
        return ob

    def real_scope(self, scope):
        return dict((self.sp(k), self.real(v)) for k, v in scope.items())
