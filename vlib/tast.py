"""Abstract template AST + seeded, size-bounded generators (shared by C07, C01, C06).

The AST describes a DTML template independently of its surface syntax; ``vlib.printer`` turns
one AST into ``<dtml-..>``, ``<!--#..-->`` or ``%(..)s`` source.  Everything here is plain data:
no engine import, every random choice comes from the ``random.Random`` that is passed in.

Nodes
-----
A *body* is a ``list`` of nodes.  A reference to data is a :class:`Ref` (``Ref.name('x')`` or
``Ref.expr('x + 1')``).  Tag options are ordered lists of ``(attribute, value)`` pairs where
``value is None`` means the valueless (flag) spelling; the order is part of the AST (the printer
never reorders attributes), so the three printings of one AST list them in the same order.

    Text(s)                                   literal text (never empty, never two in a row)
    Var(ref, opts=[])                         <dtml-var ref opts...>
    Entity(name, mods=[])                     &dtml-name;  /  &dtml.m1.m2-name;
                                              (``as_var()`` gives the documented Var spelling)
    Call(ref)                                 <dtml-call ref>
    If(chain=[(ref, body), ...], else_=None)  if / elif* / else?
    Unless(ref, body)
    In(ref, body, else_=None, opts=[])
    With(ref, body, opts=[])                  opts from ('mapping', None), ('only', None)
    Let(bindings=[(name, Ref), ...], body)
    Try(body, handlers=[([exc names], body), ...], else_=None, finally_=None)
    Raise(ref, body)                          ref.kind 'name' is the ``type=`` attribute
    Return(ref)
    Comment(body)                             body is well-formed DTML that is never rendered
    Tree(ref|None, body, opts=[])             TreeDisplay's tag (extra to DESIGN 3.3's list)

``to_obj(body)`` / ``from_obj(obj)`` convert to and from JSON-able structures (replay files).
``walk(body)`` yields ``(node, depth)`` in source order; ``count_nodes``, ``max_depth``,
``kinds(body)`` are conveniences for coverage tables.

Generators
----------
``gen_template(rng, max_nodes=12, max_depth=4, vocab=VOCAB, kinds=ALL_KINDS, text=TEXT_MIXED)``
returns a body.  ``gen_var``, ``gen_in`` ... build one node of a kind and are exposed so that a
check can force coverage of a tag.  ``Vocab`` names the data the templates refer to;
``vlib.tast.namespace(variant, rec)`` builds matching namespaces (three variants) whose callables
log into a ``vlib.common.Recorder``.  ``semantic_mutations`` lists classified AST mutations that
make a template grammatically ill-formed (must be rejected by every front end).
"""

# --------------------------------------------------------------------------- references


class Ref:
    """``name`` or ``expr`` reference.  kind in ('name', 'expr'); text is the name / the expression."""
    __slots__ = ('kind', 'text')

    def __init__(self, kind, text):
        assert kind in ('name', 'expr'), kind
        self.kind = kind
        self.text = text

    @classmethod
    def name(cls, text):
        return cls('name', text)

    @classmethod
    def expr(cls, text):
        return cls('expr', text)

    def to_obj(self):
        return [self.kind, self.text]

    @classmethod
    def from_obj(cls, o):
        return None if o is None else cls(o[0], o[1])

    def __eq__(self, other):
        return isinstance(other, Ref) and (self.kind, self.text) == (other.kind, other.text)

    def __hash__(self):
        return hash((self.kind, self.text))

    def __repr__(self):
        return 'Ref.%s(%r)' % (self.kind, self.text)


def _opts_obj(opts):
    return [[a, v] for a, v in opts]


def _opts_from(o):
    return [(a, v) for a, v in (o or [])]


# --------------------------------------------------------------------------- nodes
class Node:
    kind = '?'
    block = False          # True: printed as open tag ... close tag

    def bodies(self):
        """Child bodies in source order (list of lists of nodes)."""
        return []

    def to_obj(self):
        raise NotImplementedError

    def __eq__(self, other):
        return isinstance(other, Node) and self.to_obj() == other.to_obj()

    def __hash__(self):
        return hash(repr(self.to_obj()))

    def __repr__(self):
        return '%s%r' % (type(self).__name__, self.to_obj()[1:])


class Text(Node):
    kind = 'text'

    def __init__(self, s):
        self.s = s

    def to_obj(self):
        return ['text', self.s]


class Var(Node):
    kind = 'var'

    def __init__(self, ref, opts=()):
        self.ref = ref
        self.opts = list(opts)

    def to_obj(self):
        return ['var', self.ref.to_obj(), _opts_obj(self.opts)]


class Entity(Node):
    kind = 'entity'

    def __init__(self, name, mods=()):
        self.name = name
        self.mods = list(mods)

    def as_var(self):
        """The <dtml-var> spelling the documentation declares equivalent."""
        if self.mods:
            return Var(Ref.name(self.name), [(m, None) for m in self.mods])
        return Var(Ref.name(self.name), [('html_quote', None)])

    def to_obj(self):
        return ['entity', self.name, list(self.mods)]


class Call(Node):
    kind = 'call'

    def __init__(self, ref):
        self.ref = ref

    def to_obj(self):
        return ['call', self.ref.to_obj()]


class Return(Node):
    kind = 'return'

    def __init__(self, ref):
        self.ref = ref

    def to_obj(self):
        return ['return', self.ref.to_obj()]


class If(Node):
    kind = 'if'
    block = True

    def __init__(self, chain, else_=None):
        self.chain = [(r, list(b)) for r, b in chain]
        self.else_ = None if else_ is None else list(else_)

    def bodies(self):
        return [b for _, b in self.chain] + ([self.else_] if self.else_ is not None else [])

    def to_obj(self):
        return ['if', [[r.to_obj(), to_obj(b)] for r, b in self.chain],
                None if self.else_ is None else to_obj(self.else_)]


class Unless(Node):
    kind = 'unless'
    block = True

    def __init__(self, ref, body):
        self.ref = ref
        self.body = list(body)

    def bodies(self):
        return [self.body]

    def to_obj(self):
        return ['unless', self.ref.to_obj(), to_obj(self.body)]


class In(Node):
    kind = 'in'
    block = True

    def __init__(self, ref, body, else_=None, opts=()):
        self.ref = ref
        self.body = list(body)
        self.else_ = None if else_ is None else list(else_)
        self.opts = list(opts)

    def bodies(self):
        return [self.body] + ([self.else_] if self.else_ is not None else [])

    def to_obj(self):
        return ['in', self.ref.to_obj(), to_obj(self.body),
                None if self.else_ is None else to_obj(self.else_), _opts_obj(self.opts)]


class With(Node):
    kind = 'with'
    block = True

    def __init__(self, ref, body, opts=()):
        self.ref = ref
        self.body = list(body)
        self.opts = list(opts)

    def bodies(self):
        return [self.body]

    def to_obj(self):
        return ['with', self.ref.to_obj(), to_obj(self.body), _opts_obj(self.opts)]


class Let(Node):
    kind = 'let'
    block = True

    def __init__(self, bindings, body):
        self.bindings = [(n, r) for n, r in bindings]
        self.body = list(body)

    def bodies(self):
        return [self.body]

    def to_obj(self):
        return ['let', [[n, r.to_obj()] for n, r in self.bindings], to_obj(self.body)]


class Try(Node):
    kind = 'try'
    block = True

    def __init__(self, body, handlers=(), else_=None, finally_=None):
        self.body = list(body)
        self.handlers = [(list(names), list(b)) for names, b in handlers]
        self.else_ = None if else_ is None else list(else_)
        self.finally_ = None if finally_ is None else list(finally_)

    def bodies(self):
        out = [self.body] + [b for _, b in self.handlers]
        if self.else_ is not None:
            out.append(self.else_)
        if self.finally_ is not None:
            out.append(self.finally_)
        return out

    def to_obj(self):
        return ['try', to_obj(self.body), [[list(n), to_obj(b)] for n, b in self.handlers],
                None if self.else_ is None else to_obj(self.else_),
                None if self.finally_ is None else to_obj(self.finally_)]


class Raise(Node):
    kind = 'raise'
    block = True

    def __init__(self, ref, body):
        self.ref = ref
        self.body = list(body)

    def bodies(self):
        return [self.body]

    def to_obj(self):
        return ['raise', self.ref.to_obj(), to_obj(self.body)]


class Comment(Node):
    kind = 'comment'
    block = True

    def __init__(self, body):
        self.body = list(body)

    def bodies(self):
        return [self.body]

    def to_obj(self):
        return ['comment', to_obj(self.body)]


class Tree(Node):
    kind = 'tree'
    block = True

    def __init__(self, ref, body, opts=()):
        self.ref = ref          # may be None (<dtml-tree>: the client object)
        self.body = list(body)
        self.opts = list(opts)

    def bodies(self):
        return [self.body]

    def to_obj(self):
        return ['tree', None if self.ref is None else self.ref.to_obj(), to_obj(self.body),
                _opts_obj(self.opts)]


ALL_KINDS = ('text', 'var', 'entity', 'call', 'if', 'unless', 'in', 'with', 'let', 'try',
             'raise', 'return', 'comment', 'tree')
BLOCK_KINDS = ('if', 'unless', 'in', 'with', 'let', 'try', 'raise', 'comment', 'tree')


def to_obj(body):
    return [n.to_obj() for n in body]


def from_obj(obj):
    return [_node_from(o) for o in obj]


def _node_from(o):
    k = o[0]
    R = Ref.from_obj
    if k == 'text':
        return Text(o[1])
    if k == 'var':
        return Var(R(o[1]), _opts_from(o[2]))
    if k == 'entity':
        return Entity(o[1], o[2])
    if k == 'call':
        return Call(R(o[1]))
    if k == 'return':
        return Return(R(o[1]))
    if k == 'if':
        return If([(R(r), from_obj(b)) for r, b in o[1]], None if o[2] is None else from_obj(o[2]))
    if k == 'unless':
        return Unless(R(o[1]), from_obj(o[2]))
    if k == 'in':
        return In(R(o[1]), from_obj(o[2]), None if o[3] is None else from_obj(o[3]), _opts_from(o[4]))
    if k == 'with':
        return With(R(o[1]), from_obj(o[2]), _opts_from(o[3]))
    if k == 'let':
        return Let([(n, R(r)) for n, r in o[1]], from_obj(o[2]))
    if k == 'try':
        return Try(from_obj(o[1]), [(n, from_obj(b)) for n, b in o[2]],
                   None if o[3] is None else from_obj(o[3]),
                   None if o[4] is None else from_obj(o[4]))
    if k == 'raise':
        return Raise(R(o[1]), from_obj(o[2]))
    if k == 'comment':
        return Comment(from_obj(o[1]))
    if k == 'tree':
        return Tree(R(o[1]), from_obj(o[2]), _opts_from(o[3]))
    raise ValueError('unknown node kind %r' % (k,))


def walk(body, depth=0):
    """Yield (node, depth) in source order; depth 0 is the top level."""
    for n in body:
        yield n, depth
        for b in n.bodies():
            yield from walk(b, depth + 1)


def count_nodes(body):
    return sum(1 for _ in walk(body))


def max_depth(body):
    return max([d for _, d in walk(body)] or [0])


def kinds(body):
    return sorted({n.kind for n, _ in walk(body)})


def merge_text(body):
    """Return body with adjacent Text nodes fused and empty ones removed (recursively, in place)."""
    out = []
    for n in body:
        if isinstance(n, Text):
            if not n.s:
                continue
            if out and isinstance(out[-1], Text):
                out[-1] = Text(out[-1].s + n.s)
                continue
        out.append(n)
    body[:] = out
    for n in body:
        for b in n.bodies():
            merge_text(b)
    return body


# --------------------------------------------------------------------------- attribute tables
# Written from the module docstrings (DT_Var "Variable insertion parameters", DT_In "Attributes",
# DT_With, TreeDisplay) — what a template author may write.
VAR_FLAGS = ('lower', 'upper', 'capitalize', 'spacify', 'thousands_commas', 'html_quote',
             'url_quote', 'url_quote_plus', 'url_unquote', 'url_unquote_plus', 'sql_quote',
             'newline_to_br', 'url')
VAR_VALUED = ('null', 'missing', 'fmt', 'size', 'etc')
# Attributes of var that may also be written valueless (they have a default): usable as entity
# modifiers (&dtml.missing-x;) besides the pure flags.
VAR_DEFAULTED = ('null', 'missing', 'fmt', 'size', 'etc')
ENTITY_MODS = tuple(m for m in VAR_FLAGS) + VAR_DEFAULTED

IN_FLAGS = ('mapping', 'no_push_item', 'skip_unauthorized', 'previous', 'next', 'reverse')
IN_VALUED = ('start', 'end', 'size', 'orphan', 'overlap', 'sort', 'sort_expr', 'reverse_expr',
             'prefix')
IN_BATCH = ('start', 'end', 'size')
IN_NEEDS_BATCH = ('orphan', 'overlap', 'previous', 'next')

WITH_FLAGS = ('mapping', 'only')

TREE_FLAGS = ('nowrap', 'reverse', 'skip_unauthorized', 'single', 'assume_children')
TREE_VALUED = ('expand', 'leaves', 'header', 'footer', 'branches', 'branches_expr', 'sort', 'id',
               'url', 'urlparam', 'prefix')

# --------------------------------------------------------------------------- text alphabets
# Fragments are literal in ALL three syntaxes even when concatenated with each other or placed
# next to a tag: none contains '<dtml', '</dtml', '<!--#', '&dtml' or '%(' and no concatenation of two
# fragments does (the only fragment starting with '(' is '(a) ', whose ')' is followed by a blank, so
# '%' + '(a) ' is not an EPFS tag: a tag needs a format character right after ')').
TEXT_SAFE = ('alpha', 'beta ', ' gamma', 'Delta', ' ', '  ', '\n', ' \n', '\t\n', '\n\n', '.', ', ',
             ': ', '-', '_', '42', 'café', '中文', 'x=1;', '\r\n')
TEXT_NEAR = ('<', '< ', '<b>', '</b>', '<br/>', '<!-- c -->', '<!', '<d', '</', '&', '&amp;', '&d ',
             '&#38;', '100% ', '%% ', ' % ', '%s ', '50%', '%', ')', '(a) ', ']', '[', '"', "'", '>', '-->', ';',
             '#', '=', '<a href="u?x=1&y=2">', '</p>\n', '<p>\n')
TEXT_MIXED = TEXT_SAFE + TEXT_NEAR

# values for quoted attributes: no '"' (cannot be written in any syntax) and no '-->' (would end
# an SSI tag early)
HOSTILE_VALUES = ('a>b', 'x)y', '[z]', '50%', "it's", ' spaced out ', '<i>', '&amp;', '', '...',
                  'N/A', '->', '(', ']')


class Vocab:
    """Names the generated templates refer to.  ``namespace()`` below defines them.

    scalars   names holding strings/numbers (some falsy in some namespace variants)
    callables namespace callables (probe: logs its call); one of them raises in variant 2
    undefined names bound nowhere
    seqs      sequences of attribute-carrying items; seq_maps: sequences of dicts (needs `mapping`)
    objs      objects for <dtml-with>; maps: dicts for <dtml-with x mapping>
    ints      names holding small integers (batch parameters)
    item_attrs attribute names of sequence items / with-objects
    exprs     expressions yielding scalars; cond_exprs: conditions; seq_exprs: sequences
    excs      exception type names for raise / except
    """

    def __init__(self, **kw):
        self.scalars = ('s1', 's2', 'n1', 'z', 'e', 'nil')
        self.callables = ('f1', 'f2', 'boom')
        self.undefined = ('undef',)
        self.odd_names = ('var', 'sequence-item', 'x-y', 'if')
        self.seqs = ('seq', 'seq2', 'empty')
        self.seq_maps = ('seqm',)
        self.seq_pairs = ('pairs',)
        self.objs = ('obj',)
        self.maps = ('mp',)
        self.ints = ('i0', 'i1', 'i2', 'i3')
        self.item_attrs = ('name', 'age', 'title')
        self.seq_vars = ('sequence-item', 'sequence-number', 'sequence-index', 'sequence-key',
                         'sequence-start', 'sequence-end', 'sequence-letter', 'sequence-Roman',
                         'sequence-var-name', 'sequence-length')
        self.exprs = ("s1 + '!'", 'n1 * 2', 'f1()', "_['s1']", '_.len(seq)', "_.string.upper(s1)",
                      "'a)b'", "'<' + s1 + '>'", 'z + 1', "s2", "nil", "undef", "1 > 2 and 3 < 4",
                      "'%s|%s' % (s1, z)", "_.getattr(obj, 'name')", "[1, 2][0]", "{'k': s1}['k']",
                      "boom()", "'[x]'", "e or 'dflt'")
        self.cond_exprs = ('z > 0', 'not z', 'n1 >= 10', "s1 == 'hello world'", 'f2()', 'undef',
                           "_.has_key('s1')", "_.has_key('undef')", '1', '0', "'' or nil",
                           'f1() and s1', 'boom()')
        self.seq_exprs = ('[1, 2, 3]', 'seq', '_.range(4)', '[]', "('a', 'b')", 'seq[:2]',
                          "[(1, 'one'), (2, 'two')]")
        self.sort_keys = ('name', 'age', 'name/nocase', 'age/cmp/desc', 'sequence-item',
                          'name,age', 'age/cmp/asc,name/nocase/desc')
        self.excs = ('KeyError', 'ValueError', 'LookupError', 'Exception', 'TypeError',
                     'NameError', 'Input Error', 'ZeroDivisionError')
        self.let_names = ('a', 'b', 'L1', 's1', 'Mixed_Case')
        self.prefixes = ('p', 'Pfx', 'row')
        self.tree_roots = ('troot',)
        for k, v in kw.items():
            if not hasattr(self, k):
                raise TypeError('unknown vocabulary field %r' % k)
            setattr(self, k, tuple(v))

    def inner(self, **extra):
        """A copy with some fields extended (used for names visible only inside a block)."""
        v = Vocab()
        v.__dict__.update(self.__dict__)
        for k, add in extra.items():
            setattr(v, k, tuple(getattr(self, k)) + tuple(a for a in add if a not in getattr(self, k)))
        return v


VOCAB = Vocab()


# --------------------------------------------------------------------------- generators
def gen_text(rng, fragments=TEXT_MIXED, max_frags=4):
    n = rng.randint(1, max_frags)
    s = ''.join(rng.choice(fragments) for _ in range(n))
    return Text(s or 'x')


def _pick_name(rng, vocab, odd=0.04):
    r = rng.random()
    if r < odd and vocab.odd_names:
        return rng.choice(vocab.odd_names)
    if r < 0.58:
        return rng.choice(vocab.scalars)
    if r < 0.84:
        return rng.choice(vocab.callables)
    if r < 0.88:
        return rng.choice(vocab.undefined)
    if r < 0.94:
        return rng.choice(vocab.ints)
    return rng.choice(vocab.item_attrs)


def gen_ref(rng, vocab=VOCAB, p_expr=0.3, exprs=None):
    if rng.random() < p_expr:
        return Ref.expr(rng.choice(exprs or vocab.exprs))
    return Ref.name(_pick_name(rng, vocab))


def gen_cond(rng, vocab=VOCAB):
    if rng.random() < 0.4:
        return Ref.expr(rng.choice(vocab.cond_exprs))
    return Ref.name(_pick_name(rng, vocab))


def _var_value(rng, attr, vocab):
    if attr == 'size':
        return rng.choice(('0', '3', '5', '8', '40', 'abc'))
    if attr == 'etc':
        return rng.choice(('...', '', ' [more]', '->', 'etc.') + HOSTILE_VALUES[:4])
    if attr == 'fmt':
        return rng.choice(('collection-length', 'dollars-and-cents', 'whole-dollars', '%05d', '%.2f',
                           '%s!', 'upper', 'title', 'html-quote', 'url-quote', 'multi-line',
                           'comma-numeric', 'sql-quote', 'nosuchmethod', ''))
    if attr in ('null', 'missing'):
        return rng.choice(('N/A', '', '0', 'none here') + HOSTILE_VALUES)
    raise ValueError(attr)


def gen_var(rng, vocab=VOCAB, max_opts=4):
    """A Var with 0..max_opts distinct options in random order (valued ones sometimes valueless)."""
    ref = gen_ref(rng, vocab)
    k = rng.choice((0, 0, 1, 1, 2, 3, max_opts))
    pool = list(VAR_FLAGS) + list(VAR_VALUED) * 2
    opts = []
    seen = set()
    for _ in range(k):
        a = rng.choice(pool)
        if a in seen:
            continue
        seen.add(a)
        if a in VAR_VALUED and rng.random() < 0.85:
            opts.append((a, _var_value(rng, a, vocab)))
        else:
            opts.append((a, None))
    if 'url' in seen and rng.random() < 0.8:
        # `url` calls value.absolute_url(): keep it mostly on the object that has it
        ref = Ref.name(vocab.objs[0]) if rng.random() < 0.7 else ref
    return Var(ref, opts)


def gen_entity(rng, vocab=VOCAB, max_mods=3):
    name = _pick_name(rng, vocab, odd=0.08)
    k = rng.choice((0, 0, 1, 1, 2, max_mods))
    mods = []
    for _ in range(k):
        m = rng.choice(ENTITY_MODS)
        if m not in mods:
            mods.append(m)
    return Entity(name, mods)


def _batch_value(rng, vocab):
    return rng.choice(('1', '2', '3', '0', '10') + tuple(vocab.ints))


def gen_in_opts(rng, vocab=VOCAB, mapping=False):
    opts = []
    have = set()

    def add(a, v):
        if a not in have:
            have.add(a)
            opts.append((a, v))
    if mapping:
        add('mapping', None)
    r = rng.random()
    if r < 0.45:
        for a in rng.sample(IN_BATCH, rng.randint(1, 3)):
            add(a, _batch_value(rng, vocab))
        for a in IN_NEEDS_BATCH:
            if rng.random() < 0.3:
                add(a, None if a in ('previous', 'next') else rng.choice(('0', '1', '2', 'i1')))
    if rng.random() < 0.3:
        add('sort', rng.choice(vocab.sort_keys))
    if rng.random() < 0.12:
        add('sort_expr', rng.choice(("'age'", "'name/nocase'", "s1 and 'name'")))
    if rng.random() < 0.2:
        add('reverse', None)
    if rng.random() < 0.1:
        add('reverse_expr', rng.choice(('z', 'not z', 'f2()')))
    if rng.random() < 0.15:
        add('no_push_item', None)
    if rng.random() < 0.1:
        add('skip_unauthorized', None)
    if rng.random() < 0.2:
        add('prefix', rng.choice(vocab.prefixes))
    rng.shuffle(opts)
    return opts


def _prefix_of(opts):
    for a, v in opts:
        if a == 'prefix' and v:
            return v
    return None


def gen_in(rng, budget, depth, cfg):
    vocab = cfg['vocab']
    r = rng.random()
    mapping = False
    if r < 0.2:
        ref = Ref.expr(rng.choice(vocab.seq_exprs))
    elif r < 0.32 and vocab.seq_maps:
        ref = Ref.name(rng.choice(vocab.seq_maps))
        mapping = rng.random() < 0.9
    elif r < 0.40 and vocab.seq_pairs:
        ref = Ref.name(rng.choice(vocab.seq_pairs))
    elif r < 0.46:
        ref = Ref.name(_pick_name(rng, vocab))        # possibly not a sequence at all
    else:
        ref = Ref.name(rng.choice(vocab.seqs))
    opts = gen_in_opts(rng, vocab, mapping)
    pfx = _prefix_of(opts)
    extra = list(vocab.seq_vars) + list(vocab.item_attrs)
    if pfx:
        extra += [pfx + '_item', pfx + '_number', pfx + '_index', pfx + '_start', pfx + '_end']
    inner = dict(cfg, vocab=vocab.inner(scalars=extra))
    body = gen_body(rng, budget, depth + 1, inner)
    else_ = gen_body(rng, max(1, budget // 2), depth + 1, cfg) if rng.random() < 0.4 else None
    return In(ref, body, else_, opts)


def gen_if(rng, budget, depth, cfg):
    vocab = cfg['vocab']
    n = rng.choice((1, 1, 1, 2, 2, 3))
    chain = []
    for _ in range(n):
        chain.append((gen_cond(rng, vocab), gen_body(rng, max(1, budget // n), depth + 1, cfg)))
    else_ = gen_body(rng, max(1, budget // 2), depth + 1, cfg) if rng.random() < 0.55 else None
    return If(chain, else_)


def gen_with(rng, budget, depth, cfg):
    vocab = cfg['vocab']
    r = rng.random()
    opts = []
    if r < 0.35 and vocab.maps:
        ref = Ref.name(rng.choice(vocab.maps))
        if rng.random() < 0.9:
            opts.append(('mapping', None))
    elif r < 0.5:
        ref = Ref.expr(rng.choice(("_.namespace(a=1, b=s1)", "obj", "{'name': 'fromdict'}", 'undef')))
        if 'name' in ref.text and '{' in ref.text:
            opts.append(('mapping', None))
    elif r < 0.58:
        ref = Ref.name(_pick_name(rng, vocab))
    else:
        ref = Ref.name(rng.choice(vocab.objs))
    if rng.random() < 0.2:
        opts.append(('only', None))
    rng.shuffle(opts)
    inner = dict(cfg, vocab=vocab.inner(scalars=list(vocab.item_attrs) + ['a', 'b']))
    return With(ref, gen_body(rng, budget, depth + 1, inner), opts)


def gen_let(rng, budget, depth, cfg):
    vocab = cfg['vocab']
    n = rng.choice((1, 1, 2, 3))
    bindings = []
    for _ in range(n):
        bindings.append((rng.choice(vocab.let_names), gen_ref(rng, vocab, p_expr=0.5)))
    inner = dict(cfg, vocab=vocab.inner(scalars=[b[0] for b in bindings]))
    return Let(bindings, gen_body(rng, budget, depth + 1, inner))


def gen_try(rng, budget, depth, cfg):
    vocab = cfg['vocab']
    body = gen_body(rng, budget, depth + 1, cfg, force=('raise', 'var') if rng.random() < 0.6 else ())
    if rng.random() < 0.25:
        return Try(body, finally_=gen_body(rng, max(1, budget // 2), depth + 1, cfg))
    handlers = []
    n = rng.choice((1, 1, 2, 3))
    hv = dict(cfg, vocab=vocab.inner(scalars=['error_type', 'error_value']))
    default_used = False
    for i in range(n):
        if rng.random() < 0.25 and not default_used:
            names = []
            default_used = True
        else:
            names = [e for e in rng.sample(vocab.excs, rng.choice((1, 1, 2))) if ' ' not in e]
            names = names or ['KeyError']
        handlers.append((names, gen_body(rng, max(1, budget // 2), depth + 1, hv)))
    else_ = gen_body(rng, max(1, budget // 2), depth + 1, cfg) if rng.random() < 0.35 else None
    return Try(body, handlers, else_)


def gen_raise(rng, budget, depth, cfg):
    vocab = cfg['vocab']
    if rng.random() < 0.25:
        ref = Ref.expr(rng.choice(('KeyError', 'ValueError', "_['undef']", 's1', 'undef')))
    else:
        ref = Ref.name(rng.choice(vocab.excs))
    return Raise(ref, gen_body(rng, min(budget, 2), depth + 1, cfg))


def gen_tree(rng, budget, depth, cfg):
    vocab = cfg['vocab']
    opts = []
    have = set()

    def add(a, v):
        if a not in have:
            have.add(a)
            opts.append((a, v))
    r = rng.random()
    if r < 0.8:
        ref = Ref.name(rng.choice(vocab.tree_roots))
    elif r < 0.9:
        ref = Ref.expr(rng.choice(vocab.tree_roots))
    else:
        ref = None
    for a in TREE_FLAGS:
        if rng.random() < 0.15:
            add(a, None)
    if rng.random() < 0.3:
        add('branches', rng.choice(('tpValues', 'kids')))
    elif rng.random() < 0.2:
        add('branches_expr', rng.choice(('tpValues()', 'kids()')))
    if rng.random() < 0.2:
        add('sort', 'tpId')
    if rng.random() < 0.15:
        add('id', 'tpId')
    if rng.random() < 0.1:
        add('url', 'tpURL')
    if rng.random() < 0.15:
        add('prefix', rng.choice(vocab.prefixes))
    if rng.random() < 0.1:
        add('header', rng.choice(vocab.scalars))
    if rng.random() < 0.1:
        add('footer', rng.choice(vocab.scalars))
    if rng.random() < 0.1:
        add('leaves', rng.choice(vocab.scalars))
    if rng.random() < 0.1:
        add('expand', rng.choice(vocab.scalars))
    if rng.random() < 0.05:
        add('urlparam', 'q=1')
    rng.shuffle(opts)
    if ref is None:
        # without a reference the first argument must not be a valueless word (it would be read
        # as the name shorthand): valued options first, flags only behind one
        valued = [o for o in opts if o[1] is not None]
        opts = valued + [o for o in opts if o[1] is None] if valued else []
    inner = dict(cfg, vocab=vocab.inner(scalars=['tpId', 'tree-level', 'tree-item-expanded']))
    return Tree(ref, gen_body(rng, min(budget, 3), depth + 1, inner), opts)


def gen_comment(rng, budget, depth, cfg):
    # comment bodies must be well-formed (the parser still pairs block tags inside a comment)
    c = dict(cfg, kinds=tuple(k for k in cfg['kinds'] if k != 'comment'))
    return Comment(gen_body(rng, min(budget, 3), depth + 1, c))


_WEIGHTS = {'text': 30, 'var': 22, 'entity': 8, 'call': 5, 'if': 9, 'unless': 4, 'in': 9,
            'with': 5, 'let': 5, 'try': 6, 'raise': 3, 'return': 2, 'comment': 3, 'tree': 2}


def gen_node(rng, kind, budget, depth, cfg):
    """One node of the given kind using at most `budget` nodes (itself included)."""
    vocab = cfg['vocab']
    sub = max(0, budget - 1)
    if kind == 'text':
        return gen_text(rng, cfg['text'])
    if kind == 'var':
        return gen_var(rng, vocab)
    if kind == 'entity':
        return gen_entity(rng, vocab)
    if kind == 'call':
        return Call(gen_ref(rng, vocab, p_expr=0.5))
    if kind == 'return':
        return Return(gen_ref(rng, vocab, p_expr=0.4))
    if kind == 'if':
        return gen_if(rng, sub, depth, cfg)
    if kind == 'unless':
        return Unless(gen_cond(rng, vocab), gen_body(rng, sub, depth + 1, cfg))
    if kind == 'in':
        return gen_in(rng, sub, depth, cfg)
    if kind == 'with':
        return gen_with(rng, sub, depth, cfg)
    if kind == 'let':
        return gen_let(rng, sub, depth, cfg)
    if kind == 'try':
        return gen_try(rng, sub, depth, cfg)
    if kind == 'raise':
        return gen_raise(rng, sub, depth, cfg)
    if kind == 'comment':
        return gen_comment(rng, sub, depth, cfg)
    if kind == 'tree':
        return gen_tree(rng, sub, depth, cfg)
    raise ValueError(kind)


def gen_body(rng, budget, depth, cfg, force=()):
    """A body of at most `budget` nodes (counted recursively); may be empty when budget is 0."""
    out = []
    kinds_ = cfg['kinds']
    leaf = [k for k in kinds_ if k not in BLOCK_KINDS]
    allowed = kinds_ if depth < cfg['max_depth'] else (leaf or ('text',))
    weights = [cfg['weights'].get(k, 1) for k in allowed]
    left = budget
    forced = [k for k in force if k in kinds_]
    while left > 0:
        if forced:
            k = forced.pop()
            if k in BLOCK_KINDS and depth >= cfg['max_depth']:
                continue
        else:
            k = rng.choices(allowed, weights)[0]
        if k == 'text' and out and isinstance(out[-1], Text):
            if len(allowed) == 1:
                break
            continue
        share = 1 if k not in BLOCK_KINDS else rng.randint(1, left)
        n = gen_node(rng, k, share, depth, cfg)
        out.append(n)
        left -= count_nodes([n])
        if rng.random() < 0.12:
            break
    return out


def gen_template(rng, max_nodes=12, max_depth=4, vocab=VOCAB, kinds=ALL_KINDS, text=TEXT_MIXED,
                 weights=None, focus=None):
    """A random well-formed template body.

    rng        random.Random (the only source of randomness)
    max_nodes  upper bound on the node count (all nodes, recursively); at least one node is made
    max_depth  block nesting bound (a top-level node has depth 0; blocks open depth+1)
    vocab      Vocab of names/expressions to refer to
    kinds      node kinds that may appear
    text       fragment alphabet for Text nodes (TEXT_SAFE, TEXT_MIXED or the caller's own)
    weights    {kind: relative weight} overriding the defaults
    focus      a kind that must appear at least once (placed at the top level)
    """
    w = dict(_WEIGHTS)
    if weights:
        w.update(weights)
    cfg = {'vocab': vocab, 'kinds': tuple(kinds), 'text': tuple(text), 'max_depth': max_depth,
           'weights': w}
    budget = rng.randint(1, max_nodes)
    body = []
    if focus is not None:
        share = budget if focus not in BLOCK_KINDS else rng.randint(1, budget)
        body.append(gen_node(rng, focus, share, 0, cfg))
        budget -= count_nodes(body)
    rest = gen_body(rng, budget, 0, cfg) if budget > 0 else []
    if body and rest and rng.random() < 0.5:
        body = rest + body
    else:
        body = body + rest
    if not body:
        body = [gen_text(rng, cfg['text'])]
    return merge_text(body)


# --------------------------------------------------------------------------- invalid templates
def _first(body, pred):
    for n, _ in walk(body):
        if pred(n):
            return n
    return None


def semantic_mutations(rng, body):
    """Return [(label, mutated_body)]: copies of `body` with ONE classified grammar violation each.

    Every mutant must be rejected at cook() time by every front end (ParseError; SyntaxError for
    the bad-expression class).  Only mutations applicable to `body` are returned.  The classes:
    unknown-attribute, duplicate-attribute, name-and-expr, batch-option-without-batch,
    non-simple-prefix, valueless-needs-value (tree), bad-expression, no-name.
    """
    out = []

    def clone():
        return from_obj(to_obj(body))

    def mutate(label, pred, fn):
        b = clone()
        n = _first(b, pred)
        if n is not None and fn(n) is not False:
            out.append((label, b))

    has_opts = lambda n: n.kind in ('var', 'in', 'with')          # noqa: E731
    mutate('unknown-attribute', has_opts, lambda n: n.opts.append(('bogus', '1')))

    def dup(n):
        valued = [(a, v) for a, v in n.opts if v is not None]
        if not valued:
            if n.kind == 'var':
                n.opts.extend([('size', '3'), ('size', '4')])
            elif n.kind == 'in':
                n.opts.extend([('prefix', 'p'), ('prefix', 'q')])
            else:
                return False
        else:
            n.opts.append(valued[0])
    mutate('duplicate-attribute', has_opts, dup)
    mutate('name-and-expr', lambda n: has_opts(n) and n.ref.kind == 'name',
           lambda n: n.opts.append(('expr', '1+1')))
    mutate('batch-option-without-batch',
           lambda n: n.kind == 'in' and not any(a in IN_BATCH for a, _ in n.opts),
           lambda n: n.opts.append((rng.choice(('orphan', 'overlap')), '1')))
    mutate('non-simple-prefix', lambda n: n.kind == 'in' and not _prefix_of(n.opts),
           lambda n: n.opts.append(('prefix', rng.choice(('a-b', '9x', 'a.b')))))
    mutate('valueless-needs-value',
           lambda n: n.kind == 'tree' and n.ref is not None
           and not any(a in ('branches', 'branches_expr') for a, _ in n.opts),
           lambda n: n.opts.append(('branches', None)))

    def badexpr(n):
        n.ref = Ref.expr(rng.choice(('1 +', 'a b', '(1', 'x ==')))
    mutate('bad-expression', lambda n: n.kind in ('var', 'call', 'return', 'unless', 'with', 'in'), badexpr)
    return out


# --------------------------------------------------------------------------- namespaces
class Item:
    """Sequence item / with-object with a stable repr; attribute values may be probe callables."""

    def __init__(self, label, **attrs):
        self._label = label
        self.__dict__.update(attrs)

    def absolute_url(self):
        return 'http://host/' + self._label

    def __repr__(self):
        return '<Item %s>' % self._label

    __str__ = __repr__


class TreeNode:
    """Minimal object for <dtml-tree> (tpValues / tpId / tpURL protocol of TreeDisplay)."""

    def __init__(self, id, kids=()):
        self.id = id
        self._kids = list(kids)

    def tpValues(self):
        return self._kids

    kids = tpValues

    def tpId(self):
        return self.id

    def tpURL(self):
        return self.id

    def __repr__(self):
        return '<TreeNode %s>' % self.id

    __str__ = __repr__


class Response:
    """RESPONSE stand-in: records setCookie calls into the recorder."""

    def __init__(self, rec):
        self.rec = rec

    def setCookie(self, name, value, **kw):
        if self.rec is not None:
            self.rec.log('call', 'RESPONSE.setCookie', (name, value, sorted(kw.items())))

    def __repr__(self):
        return '<Response>'


class _Probe:
    """Namespace callable logging each call; may raise.  Stable repr."""

    def __init__(self, rec, name, result=None, exc=None):
        self.rec = rec
        self.name = name
        self.result = result
        self.exc = exc

    def __call__(self):
        if self.rec is not None:
            self.rec.log('call', self.name)
        if self.exc is not None:
            raise self.exc
        return self.result

    def __repr__(self):
        return '<probe %s>' % self.name


NAMESPACE_VARIANTS = 3


def namespace(variant, rec=None):
    """Keyword namespace for VOCAB.  variant 0: everything defined and truthy; 1: falsy / empty /
    None values; 2: hostile (a callable raises, odd names defined, markup in values).
    Callables (top-level f1/f2/boom, item attribute `title`) log ('call', name, None) into `rec`.
    """
    P = lambda name, result=None, exc=None: _Probe(rec, name, result, exc)      # noqa: E731
    people = [Item('p%d' % i, name=n, age=a, title=P('item%d.title' % i, 'T%d' % i))
              for i, (n, a) in enumerate([('bob', 30), ('Alice', 25), ('carol', 41), ('Dave', 25),
                                          ('eve', 7)])]
    troot = TreeNode('root', [TreeNode('a', [TreeNode('a1'), TreeNode('a2')]), TreeNode('b')])
    base = {
        'seq': people,
        'seq2': [Item('q0', name='zed', age=1, title='plain'), Item('q1', name='Yan', age=2, title='<t>')],
        'empty': [],
        'seqm': [{'name': 'm1', 'age': 3, 'title': 'M one'}, {'name': 'M0', 'age': 1, 'title': 'M <zero>'}],
        'pairs': [('k1', Item('v1', name='n1', age=1, title='t1')), ('k2', Item('v2', name='n2', age=2, title='t2'))],
        'obj': Item('obj', name='objname', age=99, title=P('obj.title', 'OBJ TITLE')),
        'mp': {'name': 'mapname', 'age': 5, 'title': 'map <title>', 'a': 'A!'},
        'i0': 0, 'i1': 1, 'i2': 2, 'i3': 3,
        'troot': troot,
        'URL': 'http://host/folder/doc',
        'RESPONSE': Response(rec),
    }
    if variant == 0:
        base.update(s1='hello world', s2='<b>&"x"</b>', n1=12345.678, z=1, e='non empty_text',
                    nil='not none', f1=P('f1', 'F1 result'), f2=P('f2', 'yes'),
                    boom=P('boom', 'no boom here'))
    elif variant == 1:
        base.update(s1='', s2='it\'s 100% <ok>', n1=0, z=0, e='', nil=None,
                    f1=P('f1', ''), f2=P('f2', 0), boom=P('boom', None), seq=[], seqm=[],
                    pairs=[])
    else:
        base.update(s1='a_b c%20d+e\nline2', s2='&lt;already&gt; "q"', n1=-7, z=0, e=' ',
                    nil=None, f1=P('f1', '<F1 & co>'), f2=P('f2', []),
                    boom=P('boom', exc=ValueError('boom <raised>')),
                    **{'var': 'value of var', 'sequence-item': 'outer seq item', 'x-y': 'x minus y',
                       'if': 'value of if', 'upper': 'value of upper', 'html_quote': 'value of hq'})
    return base
