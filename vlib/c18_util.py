"""Helpers of check C18: shared-attribute access log and deep compile-race schedules.

The generic schedules of checks/c18.py (1 and 2 preemptions at de-duplicated (file,line)
sites) cannot afford a third preemption everywhere.  The races between *first renders*
(several threads decide to compile the shared template) only depend on where a thread
reads or writes instance attributes of the shared template objects, so for those the
schedules are built the classic way: preempt only right before / right after a line that
touches a *conflicting* attribute (one that some thread writes during the render), and go
deeper (3 and 4 preemptions with 2 threads, 2 preemptions with 3 threads).

Nothing here names an engine attribute: the log is taken by a subclass made by the harness
that overrides ``__getattribute__`` / ``__setattr__`` / ``__delattr__`` and records whatever
names the engine uses.  The subclass is used for *discovery* runs only (one thread alone on
a fresh uncompiled template, under the scheduler, so that the access can be mapped to the
thread's package-line step count); the deciding executions use the plain classes.
"""
import itertools


class AccessLog:
    """Sink of the attribute accesses of logged template objects (one per process)."""

    def __init__(self):
        self.sched = None
        self.events = None            # list while a discovery run is active

    def note(self, kind, name, ob):
        ev = self.events
        if ev is None or self.sched is None:
            return
        w = self.sched.current()
        if w is None:
            return
        ev.append((w.steps, kind, name, id(ob)))


LOG = AccessLog()
_LOGGED = {}


def logged(cls):
    """Subclass of a template class that reports instance attribute reads/writes to LOG."""
    if cls in _LOGGED:
        return _LOGGED[cls]
    base_get = cls.__getattribute__
    base_set = cls.__setattr__
    base_del = cls.__delattr__
    note = LOG.note

    class Logged(cls):
        def __getattribute__(self, name):
            note('r', name, self)
            return base_get(self, name)

        def __setattr__(self, name, value):
            note('w', name, self)
            return base_set(self, name, value)

        def __delattr__(self, name):
            note('w', name, self)
            return base_del(self, name)

    Logged.__name__ = 'Logged' + cls.__name__
    Logged.__qualname__ = Logged.__name__
    _LOGGED[cls] = Logged
    return Logged


def access_points(events, steps, trace=None, both_ends=False):
    """Preemption points (step budgets) around the accesses of conflicting attributes.

    events: [(step, 'r'|'w', name, object id)] of one thread running alone; an access made
    while the thread executes its s-th package line has step == s.  Budget s-1 parks the
    thread right before that line, budget s right after it.  Conflicting = the name is written
    at least once during the run (reads of never-written attributes cannot race).
    Repetitions of the same access (same line, kind, name, object: a shared sub-template
    rendered in every loop iteration) are reduced to the first (both_ends: and the last)."""
    written = {e[2] for e in events if e[1] == 'w'}
    occ = {}
    for e in events:
        s, k, n, o = e
        if n not in written:
            continue
        site = trace[s - 1] if trace and 0 < s <= len(trace) else s
        occ.setdefault((site, k, n, o), []).append(s)
    pts = set()
    for lst in occ.values():
        for s in ([lst[0], lst[-1]] if both_ends else [lst[0]]):
            if 0 <= s - 1 <= steps:
                pts.add(s - 1)
            if 0 <= s <= steps:
                pts.add(s)
    return sorted(pts), sorted(written)


def fallback_points(trace_uncompiled, steps_compiled, limit=8):
    """When the access log shows nothing (e.g. attributes are not instance attributes any
    more): first occurrences of the (file,line) sites of the compile window, i.e. of the
    prefix by which the first render is longer than a render of the compiled template,
    thinned to `limit` evenly spaced points."""
    window = max(8, len(trace_uncompiled) - steps_compiled + 4)
    window = min(window, len(trace_uncompiled))
    first = {}
    for i, s in enumerate(trace_uncompiled[:window]):
        first.setdefault(s, i)
    idx = sorted(first.values())
    if len(idx) > limit:
        stride = len(idx) / float(limit)
        idx = sorted({idx[int(j * stride)] for j in range(limit)})
    return idx


# ------------------------------------------------------------------ schedule shapes
# All budgets in a schedule are *relative* (steps run in that segment).

def sched_3t2p(points, nthreads=3, all_roles=False):
    """Thread p is preempted twice; each time a different other thread runs until it
    finishes or blocks:  p:k1 | q:all | p:k3 | r:all | p:rest.   All pairs k1<k3 (by position
    in the point lists); all_roles: every thread takes the role p for every pair, otherwise
    the role cycles over the threads with the pair index.  The order of q and r alternates."""
    n = 0
    most = max(len(p) for p in points) if points else 0
    for (a, b) in itertools.combinations(range(most), 2):
        for p in (range(nthreads) if all_roles else [n % nthreads]):
            pts = points[p]
            if b >= len(pts):
                continue
            k1, k3 = pts[a], pts[b]
            others = [x for x in range(nthreads) if x != p]
            if (n // nthreads) % 2:
                others.reverse()
            q, r = others[0], others[1]
            yield [(p, k1), (q, None), (p, k3 - k1), (r, None), (p, None)]
        n += 1


def sched_2t3p(points, p, q):
    """p:k1 | q:k2 | p:k3 | q:rest | p:rest  -- three preemptions, two threads."""
    for (k1, k3) in itertools.combinations(points[p], 2):
        for k2 in points[q]:
            if k2 == 0:
                continue
            yield [(p, k1), (q, k2), (p, k3 - k1), (q, None), (p, None)]


def sched_2t4p(points, p, q):
    """p:k1 | q:k2 | p:k3 | q:k4 | p:rest | q:rest  -- four preemptions, two threads."""
    for (k1, k3) in itertools.combinations(points[p], 2):
        for (k2, k4) in itertools.combinations(points[q], 2):
            if k2 == 0:
                continue
            yield [(p, k1), (q, k2), (p, k3 - k1), (q, k4 - k2), (p, None), (q, None)]


def sched_orders(nthreads=3):
    """No preemption at all: the threads use the shared template one after the other, in
    every order (the degenerate interleavings; they expose state kept from one render to
    the next, whichever thread comes first)."""
    for perm in itertools.permutations(range(nthreads)):
        yield [(x, None) for x in perm]
