"""C13 helpers: probe elements, key domains, sort-spec printing and the pairwise oracle.

The oracle is written from the property statement and the ``sort`` paragraph of the DT_In
docstring only.  It never sorts: it looks at every pair of shown elements and asks Python's
own ``<`` / ``==`` whether that pair may stand in that order.
"""
import collections
import datetime
import decimal
import itertools

D = datetime.date
Dec = decimal.Decimal

# three values per type (two for bool), chosen so that str() order differs from value order
# where possible and so that 'a'/'A' tie under /nocase but not under cmp
KEYDOM = {
    'int': [2, 10, 33],
    'str': ['A', 'B', 'a'],
    'float': [-1.5, 2.0, 10.25],
    'bool': [False, True],
    'date': [D(2019, 12, 31), D(2020, 1, 2), D(2020, 10, 1)],
    'Decimal': [Dec('2'), Dec('10.5'), Dec('33')],
}
# two-value domains for the two-key grids ('B' < 'a' under cmp, 'a' < 'B' under nocase)
KEYDOM2 = {
    'int': [10, 2], 'str': ['a', 'B'], 'float': [10.25, -1.5], 'bool': [True, False],
    'date': [D(2020, 10, 1), D(2020, 1, 2)], 'Decimal': [Dec('10.5'), Dec('2')],
}
KTYPES = ['int', 'str', 'float', 'bool', 'date', 'Decimal']
# types the engine's own ``basic_type`` table does not know (classifier of the known finding;
# derived from the *case*, the oracle never looks at it)
NONBASIC = ('bool', 'date', 'Decimal')

MISSING = 'M'          # row entry: the element has no such attribute / mapping key

# ------------------------------------------------------------------ key names
# How the attribute / mapping key named in the sort spec is spelled.  The statement speaks of "the
# key (attribute, mapping key ...)": any name a caller's objects may carry.  Three names per entry
# (first, second, third key).  'not an identifier' only fits mapping keys.
NAME_CLASSES = collections.OrderedDict([
    ('k1,k2', [('k1', 'k2', 'k3')]),
    ('Capitalised', [('Title', 'Rank', 'Date'), ('Name', 'Id', 'Size')]),
    ('camelCase', [('sortTitle', 'sortRank', 'modTime'), ('getId', 'portalType', 'isFolderish')]),
    ('UPPER', [('TITLE', 'RANK', 'DATE'), ('ID', 'NAME', 'K')]),
    ('underscore/digit', [('sort_key', 'k_2', 'key3'), ('a1', 'B2', 'c_3D')]),
    ('word of the spec language', [('cmp', 'nocase', 'asc'), ('desc', 'sort', 'reverse'),
                                   ('Desc', 'ASC', 'Cmp'), ('locale', 'orphan', 'start')]),
    ('names differing only in case', [('Title', 'title', 'TITLE'), ('k', 'K', 'kK'), ('rank', 'RANK', 'Rank')]),
    ('non-ASCII', [('Gr\xf6\xdfe', 't\xedtulo', '\xdcn\xefcode'), ('\u0130d', 'stra\xdfe', '\xc9TAT')]),
    ('not an identifier', [('sort-key', 'Content-Type', 'a.b'), ('my key', '2nd', 'x:y')]),
])
NAME_CLASS_LIST = list(NAME_CLASSES)
MAPPING_ONLY_NAMES = ('not an identifier',)
# a second attribute / mapping key on every element whose name is a case variant of the key name and
# whose values are ordered the other way round (and present where the key is missing): it is not
# named in the spec, so it must not matter
DECOYS = [None, 'lower', 'upper', 'swapcase', 'capitalize']
RESERVED_NAMES = ('uid', 'log_', 'snapshot', 'client', 'mapping', 'self')


def unquotable(spec):
    """can the spec be written as an unquoted attribute value?"""
    return bool(spec) and not any(ch.isspace() or ch in '="' for ch in spec)


def decoy_name(name, how, real):
    if not how:
        return None
    d = getattr(name, how)()
    if d == name or d in real or d in RESERVED_NAMES:
        return None
    return d


def domain(ktype, small=False):
    return (KEYDOM2 if small else KEYDOM)[ktype]


# ------------------------------------------------------------------ sort spec
FIELD_FORMS = [(None, None), ('cmp', None), ('cmp', 'asc'), ('cmp', 'desc'),
               ('nocase', None), ('nocase', 'asc'), ('nocase', 'desc')]


def field_text(name, fn, direction):
    s = name
    if fn:
        s += '/' + fn
        if direction:
            s += '/' + direction
    return s


def spec_text(fields):
    """fields: list of [name, fn, direction]"""
    return ','.join(field_text(*f) for f in fields)


def forms_for(ktype, reduced=False):
    """field forms that make sense for a key type (nocase only for str)."""
    out = []
    for fn, d in FIELD_FORMS:
        if fn == 'nocase' and ktype != 'str':
            continue
        if reduced and d == 'asc':
            continue
        out.append((fn, d))
    return out


# ------------------------------------------------------------------ probe elements
class Log:
    """Shared event log of one case: shown elements (in order) and key-callable calls."""

    hook = None     # called with the element after it was logged (part E)

    def __init__(self):
        self.shown = []
        self.keycalls = 0

    def clear(self):
        del self.shown[:]

    def note(self, elem):
        self.shown.append(elem)
        if self.hook is not None:
            self.hook(elem)


class KeyFn:
    """zero-argument callable attribute returning the key."""

    def __init__(self, value, log):
        self.value = value
        self.log = log

    def __call__(self):
        self.log.keycalls += 1
        return self.value


class Elem:
    """instance element; printing it (dtml-var sequence-item) logs its identity."""

    def __init__(self, uid, log, attrs):
        self.__dict__.update(attrs)
        self.uid = uid
        self.log_ = log

    def __str__(self):
        self.log_.note(self)
        return self.uid

    def snapshot(self):
        return dict(self.__dict__)


class MapElem(dict):
    """mapping element (``mapping`` attribute of dtml-in)."""

    def __str__(self):
        self.log_.note(self)
        return self['uid']

    def snapshot(self):
        return dict(self)


class CmpElem:
    """orderable element for an empty sort: ordered by .key, distinguishable by identity."""

    def __init__(self, uid, log, key):
        self.uid = uid
        self.log_ = log
        self.key = key

    def __str__(self):
        self.log_.note(self)
        return self.uid

    def __lt__(self, o):
        return self.key < o.key

    def __gt__(self, o):
        return self.key > o.key

    def __le__(self, o):
        return self.key <= o.key

    def __ge__(self, o):
        return self.key >= o.key

    def __eq__(self, o):
        return isinstance(o, CmpElem) and self.key == o.key

    def __ne__(self, o):
        return not self.__eq__(o)

    __hash__ = object.__hash__

    def snapshot(self):
        return dict(self.__dict__)


class WatchedList(list):
    """caller's list that logs every mutator the engine might use on it."""

    def __init__(self, *a):
        list.__init__(self, *a)
        self.mutations = []


def _mut(name):
    real = getattr(list, name)

    def m(self, *a, **kw):
        self.mutations.append(name)
        return real(self, *a, **kw)
    m.__name__ = name
    return m


for _n in ('sort', 'reverse', 'append', 'extend', 'insert', 'pop', 'remove', 'clear',
           '__setitem__', '__delitem__', '__iadd__', '__imul__'):
    setattr(WatchedList, _n, _mut(_n))


# ------------------------------------------------------------------ containers
class OnlyIter:
    """re-iterable, nothing but __iter__."""

    def __init__(self, data):
        self._data = data

    def __iter__(self):
        return iter(self._data)


class SizedIter(OnlyIter):
    """__iter__ and __len__, not subscriptable."""

    def __len__(self):
        return len(self._data)


class GetitemOnly:
    """old sequence protocol: __getitem__ raising IndexError past the end, no __len__."""

    def __init__(self, data):
        self._data = data

    def __getitem__(self, i):
        return self._data[i]


class SeqClass(GetitemOnly):
    """subscriptable sequence that is no list: __getitem__ and __len__ only."""

    def __len__(self):
        return len(self._data)


def _same(x):
    return x


def _gen(items):
    for x in items:
        yield x


OLD_CONTAINERS = ['list', 'watched', 'tuple']
ONESHOT = ['iter', 'generator', 'map', 'chain']            # consumed by one rendering
REITERABLE = ['dict_values', 'dict_keys', 'dict_items', 'dict', 'set', 'frozenset',
              'only_iter', 'sized_iter', 'getitem_only']     # not subscriptable, can be walked again
SUBSCRIPTABLE = ['deque', 'userlist', 'seqclass']          # subscriptable, but no list / tuple
NEW_CONTAINERS = ONESHOT + REITERABLE + SUBSCRIPTABLE
UNORDERED = ('set', 'frozenset')
NEED_DISTINCT = ('set', 'frozenset', 'dict_keys', 'dict')  # elements become set members / dict keys
FALLBACK = 'dict_values'


def effective_container(name, items):
    """the container kind actually built: set members / dict keys must be hashable and pairwise
    unequal, dict.items() needs 2-tuples with such first parts; otherwise dict.values() is used."""
    if name in NEED_DISTINCT:
        keys = items
    elif name == 'dict_items':
        if not all(type(x) is tuple and len(x) == 2 for x in items):
            return FALLBACK
        keys = [x[0] for x in items]
    else:
        return name
    try:
        for k in keys:
            hash(k)
    except TypeError:
        return FALLBACK
    for i in range(len(keys)):
        for j in range(i):
            if keys[i] == keys[j]:
                return FALLBACK
    return name


def make_container(name, items):
    if name == 'list':
        return list(items)
    if name == 'tuple':
        return tuple(items)
    if name == 'watched':
        return WatchedList(items)
    if name == 'iter':
        return iter(items)
    if name == 'generator':
        return _gen(items)
    if name == 'map':
        return map(_same, items)
    if name == 'chain':
        h = len(items) // 2
        return itertools.chain(items[:h], items[h:])
    if name == 'dict_values':
        return dict(enumerate(items)).values()
    if name == 'dict_keys':
        return dict.fromkeys(items).keys()
    if name == 'dict':
        return dict.fromkeys(items)
    if name == 'dict_items':
        return dict(items).items()
    if name == 'set':
        return set(items)
    if name == 'frozenset':
        return frozenset(items)
    if name == 'only_iter':
        return OnlyIter(list(items))
    if name == 'sized_iter':
        return SizedIter(list(items))
    if name == 'getitem_only':
        return GetitemOnly(list(items))
    if name == 'seqclass':
        return SeqClass(list(items))
    if name == 'deque':
        return collections.deque(items)
    if name == 'userlist':
        return collections.UserList(items)
    raise ValueError(name)


class Source:
    """what the caller hands to dtml-in: one object rendered again and again, or -- for the
    one-shot kinds -- a new iterator over the same (private) list for every rendering."""

    def __init__(self, name, items):
        self.name = name
        self.items = list(items)       # the elements in the order the container yields them
        self.oneshot = name in ONESHOT
        self.obj = None if self.oneshot else make_container(name, self.items)

    def get(self):
        if self.oneshot:
            return make_container(self.name, self.items)
        return self.obj

    def contents(self):
        """the elements now in the container, read without the protocols the engine uses."""
        if self.oneshot:
            return self.items
        data = getattr(self.obj, '_data', None)
        if data is not None:
            return data
        if isinstance(self.obj, collections.UserList):
            return self.obj.data
        return list(self.obj)


class Row:
    """model record of one input element."""
    __slots__ = ('idx', 'uid', 'keys', 'item', 'ident', 'label', 'token', 'snap')


def value_of(entry, ktype, small):
    if entry is None or entry == MISSING:
        return None
    return domain(ktype, small)[entry]


def key_names(case):
    """the attribute / mapping key of every key of the case (k1, k2 ... unless the case says otherwise)."""
    fields = case.get('fields') or []
    return [(f[0] if j < len(fields) and fields[j][0] else 'k%d' % (j + 1))
            for j, f in enumerate(fields)] + ['k%d' % (j + 1) for j in range(len(fields), len(case['ktypes']))]


def build(case, log):
    """Build the caller's sequence and the model rows from a JSON-able case."""
    kind = case['kind']
    delivery = case.get('delivery', 'plain')
    ktypes = case['ktypes']
    small = bool(case.get('small'))
    isort = case['isort']
    rows = []
    seq = []
    if not isort:
        names = key_names(case)
        decoys = [decoy_name(nm, case.get('decoy'), names) for nm in names]
    for idx, entry in enumerate(case['rows']):
        r = Row()
        r.idx = idx
        r.uid = 'e%d' % idx
        r.label = None
        if isort:
            v = value_of(entry[0], ktypes[0], small)
            r.keys = [v]
            if kind == 'plain':
                r.item = v
                r.ident = None
                r.token = str(v)
            elif kind == 'cmpobj':
                r.item = r.ident = CmpElem(r.uid, log, v)
                r.token = r.uid
            elif kind == 'pair':
                r.ident = Elem(r.uid, log, {})
                r.item = (v, r.ident)
                r.label = str(v)
                r.token = '%s=%s' % (v, r.uid)
            else:
                raise ValueError(kind)
        else:
            attrs = {}
            keys = []
            for j, e in enumerate(entry):
                dn = decoys[j]
                if dn is not None:
                    dom = domain(ktypes[j], small)
                    dv = dom[idx % len(dom)] if e is None or e == MISSING else dom[len(dom) - 1 - e]
                    attrs[dn] = KeyFn(dv, log) if delivery == 'callable' else dv
            for j, e in enumerate(entry):
                v = value_of(e, ktypes[j], small)
                keys.append(v)
                if e == MISSING:
                    continue
                attrs[names[j]] = KeyFn(v, log) if delivery == 'callable' else v
            r.keys = keys
            if kind in ('map', 'pairmap'):
                el = MapElem(attrs)
                el['uid'] = r.uid
                el.log_ = log
            else:
                el = Elem(r.uid, log, attrs)
            r.ident = el
            if kind in ('pair', 'pairmap'):
                r.label = 'L%d' % idx
                r.item = (r.label, el)
                r.token = '%s=%s' % (r.label, r.uid)
            else:
                r.item = el
                r.token = r.uid
        rows.append(r)
        seq.append(r.item)
    src = Source(effective_container(case.get('container', 'list'), seq), seq)
    if src.name in UNORDERED:
        # a set has no order of its own making: "original relative order" is the order in which this
        # very object yields its elements (fixed as long as nobody modifies it)
        by = dict((r.item, r) for r in rows)
        rows = [by[x] for x in list(src.obj)]
        for i, r in enumerate(rows):
            r.idx = i
        src.items = [r.item for r in rows]
    return src, rows


def norm_id(x):
    """identity of an element; of its two parts for a 2-tuple (dict.items() makes new tuples)."""
    if type(x) is tuple and len(x) == 2:
        return (id(x[0]), id(x[1]))
    return id(x)


def fingerprint(src, rows):
    """identity + content of the caller's sequence and of every element.  For a one-shot iterable
    (consumed by design) the container part is the private list it was drawn from."""
    out = [src.name, type(src.obj), [norm_id(x) for x in src.contents()]]
    for r in rows:
        it = r.item
        if isinstance(it, tuple):
            out.append((id(it[0]), id(it[1]), it[0],
                        it[1].snapshot() if hasattr(it[1], 'snapshot') else it[1]))
        elif hasattr(it, 'snapshot'):
            out.append(it.snapshot())
        else:
            out.append((id(it), it))
    return out


# ------------------------------------------------------------------ oracle
class Incomparable(Exception):
    pass


def cmp_keys(a, b, fn):
    """-1/0/1 by Python's own operators on the keys (case-folded for nocase)."""
    if fn == 'nocase':
        a, b = a.lower(), b.lower()
    if a < b:
        return -1
    if b < a:
        return 1
    if a == b:
        return 0
    raise Incomparable((a, b))


def pair_problem(x, y, fields, none_last, stats=None):
    """x is shown before y.  None if that is allowed, else (symptom, text).

    fields: [(fn, direction)], none_last[i]: reading chosen for a /desc field i (see check_order).
    A key that is None/missing on both sides does not tell the two apart: "lexicographically" the
    next key of the spec decides; if no key decides, the pair is "in unspecified mutual order" and
    nothing (not even the input order) is demanded of it.
    """
    unspecified = False
    for i, (fn, direction) in enumerate(fields):
        a, b = x.keys[i], y.keys[i]
        desc = direction == 'desc'
        if a is None and b is None:
            unspecified = True
            continue
        if a is None or b is None:
            if unspecified and stats is not None:
                stats['later'] = stats.get('later', 0) + 1
            none_first = not (desc and none_last[i])
            if (a is None) == none_first:
                return None
            return ('none', 'key %d: %s shown %s %s' % (
                i + 1, 'None/missing', 'after' if none_first else 'before', 'a present key'))
        c = cmp_keys(a, b, fn)
        if desc:
            c = -c
        if c and unspecified and stats is not None:
            stats['later'] = stats.get('later', 0) + 1     # decided by a key after one missing on both sides
        if c < 0:
            return None
        if c > 0:
            return ('order', 'key %d: %r shown before %r under %s/%s' % (
                i + 1, a, b, fn or 'cmp', direction or 'asc'))
    if unspecified:
        if stats is not None:
            stats['unspecified'] = stats.get('unspecified', 0) + 1
        return None                           # "in unspecified mutual order"
    if x.idx < y.idx:
        return None
    return ('stability', 'equal keys %r: input #%d shown before input #%d' % (
        x.keys, x.idx, y.idx))


def check_order(shown, fields, stats=None):
    """All pairs of the shown rows.  Returns (problems, reading) where problems is a list of
    (symptom, text).  For a /desc field the statement leaves open whether None/missing keys stay
    first or are inverted to the end: every combination of readings is tried (one reading per
    field for the whole list) and the best one is reported."""
    descs = [i for i, (fn, d) in enumerate(fields) if d == 'desc']
    best = None
    for nth, combo in enumerate(itertools.product((True, False), repeat=len(descs))):
        none_last = {}
        for i, c in zip(descs, combo):
            none_last[i] = c
        probs = []
        for p in range(len(shown)):
            for q in range(p + 1, len(shown)):
                r = pair_problem(shown[p], shown[q], fields, none_last, stats if nth == 0 else None)
                if r is not None:
                    probs.append(r)
        if best is None or len(probs) < len(best[0]):
            best = (probs, combo)
        if not probs:
            break
    return best
