"""C01 helpers: the independent lexer ``reflex``, the eol rule, a small generator of templates with
trivial tag semantics and the structural expectation of their output.

Nothing in here imports the engine.  Everything is written from the module docstrings of
DT_HTML.py ("<!--#in results--> ... <!--#/in-->"), DT_String.py ("'%(name)x' where 'name' is the name
of the value and 'x' is a format specification, such as '12.2d' ... use '[' as the format
specification [to open a block or a continuation] ... ']' to terminate a block"),
_DocumentTemplate.py ("%(date fmt=DayOfWeek upper)s", "<!--#var total fmt=12.2f-->"), the per-tag
docstrings (DT_If, DT_In, DT_With, DT_Let, DT_Try, DT_Raise, DT_Var.Comment) and DESIGN.md 3.3 /
4 "C01".

reflex -- ``lex(source, klass)``
---------------------------------
klass 'HTML' knows the surface forms of the HTML class

    <dtml-name args>      </dtml-name args>            args may hold "quoted strings" in which '>'
                                                        does not end the tag
    <!--#name args-->     <!--#/name args-->  <!--#endname args-->     (end marker in any case)
    &dtml-name;           &dtml.m1.m2-name;            name / modifiers over [-A-Za-z0-9_.]

klass 'String' knows  %(name args)fmt  with name over [A-Za-z0-9_/.-], args separated from the name
by white space and possibly holding "quoted strings" in which ')' does not end the tag, and fmt a
C-style conversion ([0-9]*[.]?[0-9]*letter) or one of '[' (open / continuation), ']' (close), '!'.

The result is a list of tokens ``Tok(kind, start, end, family, role, name)`` covering the source
exactly, kind 'text' or 'tag'.  Three-valued: text that *looks like the beginning of a tag but is
not one of the documented forms* raises ``Unclassifiable`` (DESIGN C01 "Traps"): an opener
``<dtml-`` / ``</dtml-`` / ``<!--#`` that is not followed by a letter name, whose name is not
delimited, or that is never terminated; ``&dtml.-name;`` (no modifier); an EPFS argument string in
which a quoted string directly follows the single separating blank or another quoted string (DESIGN
section 6, "not raised").  ``&dtml`` and ``%(`` fragments that do not complete a documented form are
plain text (the documentation gives them no meaning and nothing is "opened").
"""
from vlib import tast

WS = ''.join(chr(i) for i in range(0, 33))           # what separates name and arguments in a tag
LETTERS = 'abcdefghijklmnopqrstuvwxyzABCDEFGHIJKLMNOPQRSTUVWXYZ'
DIGITS = '0123456789'
ENTITY_CHARS = LETTERS + DIGITS + '-_.'
EPFS_NAME_CHARS = LETTERS + DIGITS + '_/.-'

BLOCK_COMMANDS = ('if', 'unless', 'in', 'with', 'let', 'try', 'raise', 'comment', 'tree')
CONTINUATIONS = ('else', 'elif', 'except', 'finally')


class Unclassifiable(Exception):
    pass


class Tok:
    __slots__ = ('kind', 'start', 'end', 'family', 'role', 'name')

    def __init__(self, kind, start, end, family=None, role=None, name=None):
        self.kind, self.start, self.end = kind, start, end
        self.family, self.role, self.name = family, role, name

    def after_block(self):
        """True when the documentation lets the engine drop a line end right after this tag."""
        if self.kind != 'tag' or self.family == 'entity':
            return False
        if self.role == 'close':
            return True
        if self.role == 'var':
            return False
        return self.name in BLOCK_COMMANDS or self.name in CONTINUATIONS

    def __repr__(self):
        if self.kind == 'text':
            return 'text[%d:%d]' % (self.start, self.end)
        return '%s/%s %s[%d:%d]' % (self.family, self.role, self.name, self.start, self.end)


def _run(src, i, chars):
    n = len(src)
    j = i
    while j < n and src[j] in chars:
        j += 1
    return j


def _lex_dtml(src, j, k, close):
    """<dtml-name ...> at j; k = length of the opener."""
    p = j + k
    q = _run(src, p, LETTERS)
    if q == p:
        raise Unclassifiable('%r not followed by a letter' % src[j:p])
    if q >= len(src):
        raise Unclassifiable('unterminated %r' % src[j:p])
    if src[q] != '>' and src[q] not in WS:
        raise Unclassifiable('tag name not delimited at %d' % q)
    inq = False
    i = q
    n = len(src)
    while i < n:
        c = src[i]
        if c == '"':
            inq = not inq
        elif c == '>' and not inq:
            return Tok('tag', j, i + 1, 'dtml', 'close' if close else 'open', src[p:q])
        i += 1
    raise Unclassifiable('unterminated %r' % src[j:p])


def _lex_ssi(src, j):
    p = _run(src, j + 5, WS)
    close = False
    if src.startswith('/', p):
        close = True
        p += 1
    elif src[p:p + 3].lower() == 'end':
        close = True
        p += 3
    p = _run(src, p, WS)
    q = _run(src, p, LETTERS)
    if q == p:
        raise Unclassifiable('<!--# not followed by a letter name')
    if q >= len(src):
        raise Unclassifiable('unterminated <!--#')
    if src[q] not in WS and not src.startswith('-->', q):
        raise Unclassifiable('ssi tag name not delimited at %d' % q)
    e = src.find('-->', q)
    if e < 0:
        raise Unclassifiable('unterminated <!--#')
    return Tok('tag', j, e + 3, 'ssi', 'close' if close else 'open', src[p:q])


def _lex_entity(src, j):
    """&dtml-name; / &dtml.m1.m2-name; at j, or None when the text does not complete the form."""
    c = src[j + 5:j + 6]
    if c not in ('-', '.'):
        return None
    p = j + 6
    q = _run(src, p, ENTITY_CHARS)
    if q >= len(src) or src[q] != ';':
        return None
    body = src[p:q]
    if c == '-':
        if not body:
            return None
        return Tok('tag', j, q + 1, 'entity', 'entity', body)
    d = body.find('-')
    if d < 0 or d == len(body) - 1:
        return None                     # no name part: not the documented form, nothing opened
    if d == 0:
        raise Unclassifiable('&dtml.-name; (empty modifier list)')
    return Tok('tag', j, q + 1, 'entity', 'entity', body[d + 1:])


def _lex_epfs(src, j):
    """%(name args)fmt at j, or None."""
    n = len(src)
    p = j + 2
    q = _run(src, p, EPFS_NAME_CHARS)
    if q == p or q >= n:
        return None
    odd = False
    if src[q] == ')':
        e = q
    elif src[q] in WS:
        i = q + 1
        since = 0          # argument characters since the separator / the last quoted string
        inq = False
        e = -1
        while i < n:
            c = src[i]
            if inq:
                if c == '"':
                    inq = False
                    since = 0
            elif c == '"':
                if since == 0:
                    odd = True
                inq = True
            elif c == ')':
                e = i
                break
            else:
                since += 1
            i += 1
        if e < 0:
            return None
    else:
        return None
    f = e + 1
    if f >= n:
        return None
    c = src[f]
    if c in '[]!':
        end = f + 1
        role = {'[': 'open', '!': 'open', ']': 'close'}[c]
    else:
        g = _run(src, f, DIGITS)
        if g < n and src[g] == '.':
            g += 1
        g = _run(src, g, DIGITS)
        if g >= n or src[g] not in LETTERS:
            return None
        end = g + 1
        role = 'var'
    if odd:
        raise Unclassifiable('EPFS quoted string directly after the separator or another string')
    return Tok('tag', j, end, 'epfs', role, src[p:q])


def lex(src, klass):
    """Token list of `src` for template class `klass` ('HTML' | 'String'); may raise Unclassifiable."""
    toks = []
    n = len(src)
    i = 0
    text_from = 0

    def tag(t):
        nonlocal text_from, i
        if t.start > text_from:
            toks.append(Tok('text', text_from, t.start))
        toks.append(t)
        text_from = i = t.end

    if klass == 'String':
        while True:
            j = src.find('%(', i)
            if j < 0:
                break
            t = _lex_epfs(src, j)
            if t is None:
                i = j + 1
            else:
                tag(t)
    elif klass == 'HTML':
        while i < n:
            a = src.find('<', i)
            b = src.find('&', i)
            if a < 0 and b < 0:
                break
            j = a if (b < 0 or (0 <= a < b)) else b
            t = None
            if src.startswith('<dtml-', j):
                t = _lex_dtml(src, j, 6, False)
            elif src.startswith('</dtml-', j):
                t = _lex_dtml(src, j, 7, True)
            elif src.startswith('<!--#', j):
                t = _lex_ssi(src, j)
            elif src.startswith('&dtml', j):
                t = _lex_entity(src, j)
            if t is None:
                i = j + 1
            else:
                tag(t)
    else:
        raise ValueError(klass)
    if text_from < n:
        toks.append(Tok('text', text_from, n))
    return toks


def classify(src, klass):
    """('tagfree' | 'tags' | 'unclassifiable', tokens or reason)."""
    try:
        toks = lex(src, klass)
    except Unclassifiable as e:
        return 'unclassifiable', str(e)
    if any(t.kind == 'tag' for t in toks):
        return 'tags', toks
    return 'tagfree', toks


# --------------------------------------------------------------------------- the eol rule
def strip_eol(text):
    """`text` minus ONE leading run of blanks (space, tab) ending in a newline, if there is one."""
    k = 0
    n = len(text)
    while k < n and (text[k] == ' ' or text[k] == '\t'):
        k += 1
    if k < n and text[k] == '\n':
        return text[k + 1:]
    return text


# --------------------------------------------------------------------------- text alphabets
WORDS = ('alpha', 'beta ', ' gamma', 'x', '42', ' ', '  ', '.', ', ', 'café', '中文',
         'naïve ', ' ', 'x=1;', '_', '-', '=')
EOLS = ('\n', ' \n', '\t\n', '\n\n', ' \n \n', '\r\n', ' \r\n', '\n ', '\n\t\n', ' \t \n', '\r', '\n\r\n',
        '  \n\n\n', '\x0c\n', '\x0b\n', '\xa0\n', '\u2028', '\x00\n', ' \x0c \n', '\u3000\n')
NEAR_COMMON = ('<', '<d', '<dt', '<dtml', '<dtml_', '</', '</d', '</dtml', '<!', '<!-', '<!--', '-->',
               '&', '&d', '&dt', '&dtml', '&dtml;', '&dtml-;', '&dtml- x;', '&amp;', '%', '%%', ')', ']',
               '[', '"', "'", '>', ';', '#', '(', '&dtml.', '&dtml-', '&dtml.a;', '&dtml-v1', '&dtmlx-v1;',
               '<dtml>', '<!-- c -->', '<b>', '</b>', '--', '- ->', '<dtmlvar v1>', '<dtm-var v1>',
               '< dtml-var v1>', '<DTML-VAR v1>', '<a href="u?x=1&y=2">', '100% ', '%s', '% (v1)s', '%[',
               '<dtml', '</dtml', '&dtml', '<!--')
# literal in the HTML class only / in the String class only
NEAR_HTML_ONLY = ('%(', '%(x)s', '%(v1)s', '%(if t1)[', '%(if t1)]', '%(v1', '%(v1 ')
NEAR_EPFS_ONLY = ('<dtml-var x>', '&dtml-x;', '<dtml-var v1>', '&dtml-v1;', '</dtml-if>', '<!--#var v1-->',
                  '<!--#', '<dtml-', '</dtml-', '<!--#/if-->', '<dtml-if t1>', '&dtml.upper-v1;')
# fragments that may open something in the class they are used with (filtered by the lexer)
RISKY_HTML = ('<dtml-', '</dtml-', '<!--#', '<dtml-v', '&dtml-v1;', '<dtml-var v1>')
RISKY_EPFS = ('%(', '%(v1', '%(v1 ', '%(v1)', '%(v1)s', '%(x y', ')s', ')[', ')d')


def near_fragments(klass):
    return NEAR_COMMON + (NEAR_HTML_ONLY if klass == 'HTML' else NEAR_EPFS_ONLY)


def soup_fragments(klass):
    return near_fragments(klass) * 2 + WORDS + EOLS


def risky_fragments(klass):
    return RISKY_HTML if klass == 'HTML' else RISKY_EPFS


def gen_text(rng, klass, max_frags=4, p_near=0.6, p_risky=0.03):
    near = near_fragments(klass)
    out = []
    for _ in range(rng.randint(1, max_frags)):
        r = rng.random()
        if r < p_risky:
            out.append(rng.choice(risky_fragments(klass)))
        elif r < p_near:
            out.append(rng.choice(near))
        elif r < p_near + 0.15:
            out.append(rng.choice(EOLS))
        else:
            out.append(rng.choice(WORDS))
    return ''.join(out)


def gen_soup(rng, klass, lo=6, hi=30, p_risky=0.02):
    frags = soup_fragments(klass)
    risky = risky_fragments(klass)
    return ''.join(rng.choice(risky) if rng.random() < p_risky else rng.choice(frags)
                   for _ in range(rng.randint(lo, hi)))


# exhaustive near-tag alphabets: name -> (template class, 8 symbols)
ALPHABETS = {
    'html-A': ('HTML', ('<dtml', '</dtml', '-', '>', '&dtml', ';', 'v', '.')),
    'html-B': ('HTML', ('<', '/', 'dtml-', 'v', ' ', '"', '>', '\n')),
    'ssi-A': ('HTML', ('<!--', '#', '-->', '/', 'end', 'v', ' ', '-')),
    'ssi-B': ('HTML', ('<', '!', '--', '#', 'v', '>', '-', '\n')),
    'epfs-A': ('String', ('%', '(', ')', 's', '[', ']', 'v', ' ')),
    'epfs-B': ('String', ('%(', 'v', ')', '"', ' ', 'd', '.', '1')),
}


# --------------------------------------------------------------------------- simple-semantics ASTs
# The namespace the "simple" templates are rendered with.  Values are str (bytes belong to C19);
# v4 / v5 check that inserted values are neither re-scanned for tags nor subject to the eol rule.
def simple_namespace():
    class Obj:
        pass
    obj = Obj()
    obj.w1 = '{w1}'
    obj.w2 = '<w2>'
    return {
        'v1': '{v1}', 'v2': '[[v2]]', 'v3': '',
        'v4': '<dtml-var v1>&dtml-v1;%(v1)s<!--#var v1-->\n', 'v5': ' \n',
        't1': 'yes', 't2': 1, 'f1': '', 'f2': 0,
        'seq0': [], 'seq1': ['i1'], 'seq2': ['i1', 'i2'], 'seq3': ['i1', 'i2', 'i3'],
        'obj': obj, 'mp': {'w1': '{m1}', 'w2': 'm&2'},
    }


MODEL_NS = {
    'v1': '{v1}', 'v2': '[[v2]]', 'v3': '',
    'v4': '<dtml-var v1>&dtml-v1;%(v1)s<!--#var v1-->\n', 'v5': ' \n',
    't1': 'yes', 't2': 1, 'f1': '', 'f2': 0,
}
MODEL_SEQS = {'seq0': [], 'seq1': ['i1'], 'seq2': ['i1', 'i2'], 'seq3': ['i1', 'i2', 'i3']}
MODEL_WITH = {'obj': {'w1': '{w1}', 'w2': '<w2>'}, 'mp': {'w1': '{m1}', 'w2': 'm&2'}}
# expressions with their value in the namespace above (the v/t/f names are never rebound)
EXPRS = {'1 + 1': 2, "v2 + '!'": '[[v2]]!', 'v1': '{v1}', '1': 1, '0': 0, 'not t1': False,
         't1 and t2': 1, 'f2 or f1': '', "v1 == '{v1}'": True, 't2 > 0': True, '(t2 + 1) > 2': False,
         '(1 + 1) * 2': 4, "'>' + v1 + ')'": '>{v1})', "v2[1:]": '[v2]]'}
COND_EXPRS = ('1', '0', 'not t1', 't1 and t2', 'f2 or f1', "v1 == '{v1}'", 't2 > 0', '(t2 + 1) > 2')
VALUE_EXPRS = ('1 + 1', "v2 + '!'", 'v1', '(1 + 1) * 2', "'>' + v1 + ')'", 'v2[1:]')
# values of the `missing` attribute: quoted strings inside a tag in which the tag terminator of
# each syntax occurs ('-->' excluded: nothing documents quoting for the SSI terminator)
MISSING_VALUES = ('a>b', 'x)y', '[z]', '>', ')s', '-- >', '&dtml-v1;', '<dtml-var v1>', '%(v1)s', ' \n',
                  'N/A')
COND_NAMES = ('t1', 't2', 'f1', 'f2', 'v3', 'v1', 'nowhere')
EXC_BASES = {'KeyError': ('KeyError', 'LookupError', 'Exception'),
             'ValueError': ('ValueError', 'Exception')}

_SIMPLE_WEIGHTS = (('text', 30), ('var', 18), ('entity', 6), ('call', 3), ('if', 9), ('unless', 4),
                   ('in', 9), ('with', 5), ('let', 5), ('try', 8), ('comment', 4), ('raiser', 6))


def html_quote(s):
    return s.replace('&', '&amp;').replace('<', '&lt;').replace('>', '&gt;').replace('"', '&quot;')


class _Gen:
    def __init__(self, rng, klass, max_depth):
        self.rng = rng
        self.klass = klass
        self.max_depth = max_depth

    def text(self):
        return tast.Text(gen_text(self.rng, self.klass))

    def name(self, scope):
        return self.rng.choice(scope)

    def body(self, budget, depth, scope, can_raise):
        rng = self.rng
        out = []
        left = budget
        kinds_ = [k for k, _ in _SIMPLE_WEIGHTS]
        weights = [w for _, w in _SIMPLE_WEIGHTS]
        while left > 0:
            k = rng.choices(kinds_, weights)[0]
            if k == 'raiser' and not can_raise:
                continue
            if k in tast.BLOCK_KINDS and depth >= self.max_depth:
                continue
            if k == 'text' and out and out[-1].kind == 'text':
                continue
            share = 1 if k not in tast.BLOCK_KINDS else rng.randint(1, left)
            n = self.node(k, share, depth, scope, can_raise)
            out.append(n)
            left -= tast.count_nodes([n])
            if rng.random() < 0.1:
                break
        return out

    def cond(self):
        if self.rng.random() < 0.35:
            return tast.Ref.expr(self.rng.choice(COND_EXPRS))
        return tast.Ref.name(self.rng.choice(COND_NAMES))

    def node(self, k, budget, depth, scope, can_raise):
        rng = self.rng
        sub = max(0, budget - 1)
        B = lambda b, sc=scope, cr=can_raise: self.body(b, depth + 1, sc, cr)    # noqa: E731
        if k == 'text':
            return self.text()
        if k == 'var':
            if rng.random() < 0.2:
                ref = tast.Ref.expr(rng.choice(VALUE_EXPRS))
            else:
                ref = tast.Ref.name(self.name(scope))
            opts = [('html_quote', None)] if rng.random() < 0.25 else []
            if ref.kind == 'name' and rng.random() < 0.2:
                if rng.random() < 0.5:
                    ref = tast.Ref.name('nowhere')
                opts = [('missing', rng.choice(MISSING_VALUES))]
            return tast.Var(ref, opts)
        if k == 'entity':
            mods = rng.choice(((), (), ('html_quote',), ('upper',)))
            return tast.Entity(rng.choice(scope), mods)
        if k == 'call':
            return tast.Call(tast.Ref.name('v1') if rng.random() < 0.5 else tast.Ref.expr('1 + 1'))
        if k == 'raiser':
            if rng.random() < 0.5:
                return tast.Var(tast.Ref.name('undef'), [])
            t = rng.choice(('KeyError', 'KeyError', 'ValueError'))
            msg = [self.text()] if rng.random() < 0.7 else []
            if rng.random() < 0.3:
                msg.append(tast.Var(tast.Ref.name('v1'), []))
            return tast.Raise(tast.Ref.name(t), msg)
        if k == 'if':
            n = rng.choice((1, 1, 1, 2, 2, 3))
            chain = [(self.cond(), B(max(1, sub // n))) for _ in range(n)]
            else_ = B(max(1, sub // 2)) if rng.random() < 0.55 else None
            return tast.If(chain, else_)
        if k == 'unless':
            return tast.Unless(self.cond(), B(sub))
        if k == 'in':
            r = rng.random()
            seq = rng.choice(('seq0', 'seq1', 'seq2', 'seq2', 'seq3'))
            ref = tast.Ref.expr(seq) if r < 0.2 else tast.Ref.name(seq)
            inner = scope + ['sequence-item', 'sequence-item', 'sequence-index', 'sequence-number']
            body = self.body(sub, depth + 1, inner, can_raise)
            else_ = B(max(1, sub // 2)) if rng.random() < 0.45 else None
            return tast.In(ref, body, else_, [])
        if k == 'with':
            if rng.random() < 0.5:
                ref, opts = tast.Ref.name('obj'), []
            else:
                ref, opts = tast.Ref.name('mp'), [('mapping', None)]
            return tast.With(ref, self.body(sub, depth + 1, scope + ['w1', 'w2'], can_raise), opts)
        if k == 'let':
            bindings = []
            for nm in rng.sample(('la', 'lb'), rng.choice((1, 1, 2))):
                if rng.random() < 0.5:
                    bindings.append((nm, tast.Ref.name(rng.choice(('v1', 'v2', 'v3', 't2')))))
                else:
                    bindings.append((nm, tast.Ref.expr(rng.choice(VALUE_EXPRS))))
            return tast.Let(bindings, self.body(sub, depth + 1, scope + [b[0] for b in bindings],
                                                can_raise))
        if k == 'comment':
            return tast.Comment(self.body(min(sub, 3), depth + 1, scope + ['undef'], True))
        if k == 'try':
            if rng.random() < 0.25:
                return tast.Try(B(sub), finally_=B(max(1, sub // 2)))
            handlers = []
            default = False
            for _ in range(rng.choice((1, 1, 2, 3))):
                r = rng.random()
                if r < 0.25 and not default:
                    names = []
                    default = True
                else:
                    names = rng.sample(('KeyError', 'ValueError', 'LookupError', 'TypeError'),
                                       rng.choice((1, 1, 2)))
                handlers.append((names, self.body(max(1, sub // 2), depth + 1,
                                                  scope + ['error_type'], can_raise)))
            if not can_raise and not default and not any('Exception' in h[0] for h in handlers):
                # the outermost try must catch everything a raiser below it can raise
                last = [] if rng.random() < 0.5 else ['Exception']
                handlers.append((last, self.body(max(1, sub // 2), depth + 1,
                                                 scope + ['error_type'], can_raise)))
            # a default handler must come last to keep "first matching handler" unambiguous to read
            handlers.sort(key=lambda h: (not h[0]))
            body = self.body(sub, depth + 1, scope, True)
            else_ = B(max(1, sub // 2)) if rng.random() < 0.4 else None
            return tast.Try(body, handlers, else_)
        raise ValueError(k)


def gen_simple(rng, klass, max_nodes=12, max_depth=4):
    """A template whose output is predictable by `expect` (tags with trivial, documented semantics)."""
    g = _Gen(rng, klass, max_depth)
    body = g.body(rng.randint(1, max_nodes), 0, ['v1', 'v1', 'v2', 'v3', 'v4', 'v5'], False)
    if not body:
        body = [g.text()]
    return tast.merge_text(body)


def boost(body, rng, klass, p_adj=0.5, p_eol=0.5):
    """Put near-tag fragments directly next to tags and line-end runs directly after block tags.

    Edits the AST in place (Text nodes are inserted / extended) and returns it."""
    near = near_fragments(klass)

    def visit(b, after_open):
        out = []
        prev_block = after_open          # the previous thing in the source is a block tag
        for n in b:
            if n.kind != 'text':
                if prev_block and rng.random() < p_eol:
                    out.append(tast.Text(rng.choice(EOLS) + (rng.choice(near) if rng.random() < 0.3 else '')))
                elif rng.random() < p_adj * 0.5:
                    out.append(tast.Text(rng.choice(near)))
            elif prev_block and rng.random() < p_eol:
                n = tast.Text(rng.choice(EOLS) + n.s)
            out.append(n)
            if n.kind != 'text':
                for sub in n.bodies():
                    visit(sub, True)
                if rng.random() < p_adj * 0.5:
                    out.append(tast.Text(rng.choice(near)))
                prev_block = n.block
            else:
                prev_block = False
        if prev_block and rng.random() < p_eol * 0.6:
            out.append(tast.Text(rng.choice(EOLS)))
        if not out and after_open and rng.random() < p_eol * 0.5:
            out.append(tast.Text(rng.choice(EOLS)))
        b[:] = out

    visit(body, False)
    return tast.merge_text(body)


# --------------------------------------------------------------------------- structural expectation
class Raised(Exception):
    def __init__(self, tname):
        Exception.__init__(self, tname)
        self.tname = tname


class Expect:
    """Which bodies render how often, and what the (trivial) tags insert between the literal text.

    `texts` is the list of per-Text-node strings that survive (source order, one per Text node of the
    AST, i.e. the node's text minus the permitted eol run where it directly follows a block tag)."""

    def __init__(self, body, kept_texts):
        self.kept = {}
        it = iter(kept_texts)
        for n, _ in tast.walk(body):
            if n.kind == 'text':
                self.kept[id(n)] = next(it)
        self.body = body

    def output(self):
        env = [dict(MODEL_NS)]
        return self.run(self.body, env)

    @staticmethod
    def lookup(env, name):
        for d in reversed(env):
            if name in d:
                return d[name]
        raise Raised('KeyError')

    def value(self, env, ref):
        if ref.kind == 'expr':
            if ref.text in MODEL_SEQS:
                return MODEL_SEQS[ref.text]
            return EXPRS[ref.text]
        return self.lookup(env, ref.text)

    def truth(self, env, ref):
        if ref.kind == 'expr':
            return bool(EXPRS[ref.text])
        try:
            return bool(self.lookup(env, ref.text))
        except Raised:
            return False                 # DT_If: "if a variable is not defined, it is considered false"

    def run(self, body, env):
        out = []
        for n in body:
            k = n.kind
            if k == 'text':
                out.append(self.kept[id(n)])
            elif k == 'var':
                opts = dict(n.opts)
                if 'missing' in opts:
                    # DT_Var: "missing -- A value to be substituted if the variable is missing"
                    try:
                        v = str(self.value(env, n.ref))
                    except Raised:
                        v = opts['missing']
                else:
                    v = str(self.value(env, n.ref))
                if 'html_quote' in opts:
                    v = html_quote(v)
                out.append(v)
            elif k == 'entity':
                v = str(self.lookup(env, n.name))
                if not n.mods:
                    v = html_quote(v)
                for m in n.mods:
                    if m == 'html_quote':
                        v = html_quote(v)
                    elif m == 'upper':
                        v = v.upper()
                out.append(v)
            elif k == 'call':
                self.value(env, n.ref)
            elif k == 'comment':
                pass
            elif k == 'if':
                for ref, b in n.chain:
                    if self.truth(env, ref):
                        out.append(self.run(b, env))
                        break
                else:
                    if n.else_ is not None:
                        out.append(self.run(n.else_, env))
            elif k == 'unless':
                if not self.truth(env, n.ref):
                    out.append(self.run(n.body, env))
            elif k == 'in':
                seq = MODEL_SEQS[n.ref.text]
                if not seq:
                    if n.else_ is not None:
                        out.append(self.run(n.else_, env))
                for i, item in enumerate(seq):
                    env.append({'sequence-item': item, 'sequence-index': i, 'sequence-number': i + 1})
                    try:
                        out.append(self.run(n.body, env))
                    finally:
                        env.pop()
            elif k == 'with':
                env.append(MODEL_WITH[n.ref.text])
                try:
                    out.append(self.run(n.body, env))
                finally:
                    env.pop()
            elif k == 'let':
                d = {}
                env.append(d)
                try:
                    for nm, ref in n.bindings:
                        d[nm] = self.value(env, ref)
                    out.append(self.run(n.body, env))
                finally:
                    env.pop()
            elif k == 'raise':
                try:
                    self.run(n.body, env)
                except Raised:
                    pass
                raise Raised(n.ref.text)
            elif k == 'try':
                if n.finally_ is not None:
                    # DT_Try: "The finally block will always be called"; "any rendered result is
                    # discarded if an exception occurs in either the try or finally blocks"; an
                    # exception in the finally block replaces the one of the try block
                    try:
                        r = self.run(n.body, env)
                    except Raised:
                        self.run(n.finally_, env)
                        raise
                    out.append(r + self.run(n.finally_, env))
                    continue
                try:
                    r = self.run(n.body, env)
                except Raised as e:
                    for names, hb in n.handlers:
                        if not names or any(x in EXC_BASES[e.tname] for x in names):
                            env.append({'error_type': e.tname})
                            try:
                                r = self.run(hb, env)
                            finally:
                                env.pop()
                            break
                    else:
                        raise
                else:
                    if n.else_ is not None:
                        r += self.run(n.else_, env)
                out.append(r)
            else:
                raise ValueError('no trivial semantics for %r' % k)
        return ''.join(out)


def expected_tree(body, kept_texts):
    """Literal text per nesting level in the shape of vlib.normal.literal_tree: per body a list of
    str (adjacent literals fused, empties dropped) and, per tag, the list of its bodies' trees."""
    it = iter(kept_texts)

    def walk_comment(b):
        for n, _ in tast.walk(b):
            if n.kind == 'text':
                next(it)

    def level(b):
        out = []
        for n in b:
            if n.kind == 'text':
                s = next(it)
                if s:
                    if out and isinstance(out[-1], str):
                        out[-1] += s
                    else:
                        out.append(s)
            elif n.kind == 'comment':
                walk_comment(n.body)
                out.append([])
            elif n.kind == 'try':
                subs = [level(n.body)]
                for names, hb in n.handlers:
                    t = level(hb)
                    subs.extend([t] * max(1, len(names)))      # one handler entry per exception name
                if n.else_ is not None:
                    subs.append(level(n.else_))
                if n.finally_ is not None:
                    subs.append(level(n.finally_))
                out.append(subs)
            else:
                out.append([level(x) for x in n.bodies()])
        return out

    return level(body)


def fuse(tree):
    """Cooked literal tree with adjacent literal blocks of one level concatenated, empties dropped."""
    out = []
    for x in tree:
        if isinstance(x, str):
            if x:
                if out and isinstance(out[-1], str):
                    out[-1] += x
                else:
                    out.append(x)
        else:
            out.append([fuse(b) for b in x])
    return out


def tree_diff(a, b, path='$'):
    """None when equal, else (path, a-term, b-term) of the first difference."""
    if a == b:
        return None
    if isinstance(a, list) and isinstance(b, list):
        for i, (x, y) in enumerate(zip(a, b)):
            d = tree_diff(x, y, '%s[%d]' % (path, i))
            if d:
                return d
        if len(a) != len(b):
            return ('%s(len)' % path, a[len(b):][:2] if len(a) > len(b) else None,
                    b[len(a):][:2] if len(b) > len(a) else None)
    return (path, a, b)
