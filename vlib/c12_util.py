"""Probes of check C12: lazily produced sequences that log every pull.

One ``PullLog`` per render is shared by the container handed to the template and by the
wrapper installed on the real ``opt``; so each pull is recorded with its index, in order,
together with the ``opt`` call (if any) during which it happened.  The budget is logical:
an unbounded source raises after ``budget`` pulls instead of hanging.
"""


class PullBudgetExceeded(BaseException):
    """Not an ``Exception``: the engine's ``except Exception`` clauses must not hide it.
    The verdict is taken from ``PullLog.over`` anyway."""


class PullLog:
    __slots__ = ('n', 'budget', 'pulls', 'sites', 'iters', 'lens', 'stops', 'over',
                 'site', 'opt_calls', 'negative')

    STOP_BUDGET = 1000

    def __init__(self, n, budget):
        self.n = n                # number of elements the source can produce; None = unbounded
        self.budget = budget
        self.pulls = []           # element indices in the order they were produced
        self.sites = []           # for each pull: ordinal of the running opt() call, -1 = none
        self.iters = 0            # iter() calls seen by the container (None: not observable)
        self.lens = 0             # len() calls seen by the container
        self.stops = 0            # exhaustion signals delivered (StopIteration / IndexError)
        self.over = False
        self.site = -1
        self.opt_calls = []       # [start, end, size, orphan] of every opt() call, in order
        self.negative = 0

    def pull(self, i):
        """Produce element ``i``; False when the source is exhausted."""
        if self.n is not None and i >= self.n:
            self.stops += 1
            if self.stops > self.STOP_BUDGET:     # asked again and again after exhaustion
                self.over = True
                raise PullBudgetExceeded('exhausted source asked %d times' % self.stops)
            return False
        if len(self.pulls) >= self.budget:
            self.over = True
            raise PullBudgetExceeded(len(self.pulls))
        self.pulls.append(i)
        self.sites.append(self.site)
        return True


class CountingIterator:
    """An iterator object (``iter(x) is x``)."""

    def __init__(self, log):
        self.log = log
        self.pos = 0

    def __iter__(self):
        self.log.iters += 1
        return self

    def __next__(self):
        if not self.log.pull(self.pos):
            raise StopIteration
        self.pos += 1
        return self.pos


class _Cursor:
    def __init__(self, log):
        self.log = log
        self.pos = 0

    def __iter__(self):
        return self

    def __next__(self):
        if not self.log.pull(self.pos):
            raise StopIteration
        self.pos += 1
        return self.pos


class ReIterable:
    """A lazily produced collection: every ``iter()`` starts a fresh cursor at element 0,
    so a second ``iter()`` by the engine shows up as elements pulled twice."""

    def __init__(self, log):
        self.log = log

    def __iter__(self):
        self.log.iters += 1
        return _Cursor(self.log)


class SizedIterable(ReIterable):
    """A lazily produced, *sized* collection (result set / cursor wrapper): ``__iter__`` and a cheap
    ``__len__`` but no ``__getitem__``.  ``len()`` pulls nothing and is only counted; an unbounded one
    reports a huge length."""

    def __len__(self):
        self.log.lens += 1
        return self.log.n if self.log.n is not None else 10 ** 6


def counting_generator(log):
    pos = 0
    while log.pull(pos):
        pos += 1
        yield pos


class LazySeq:
    """Subscriptable lazy sequence: ``seq[i]`` produces elements up to ``i`` only;
    ``len(seq)`` is the expensive operation (produces everything that is left)."""

    def __init__(self, log):
        self.log = log
        self.have = 0

    def __getitem__(self, i):
        if i < 0:
            self.log.negative += 1
            raise IndexError(i)
        while self.have <= i:
            if not self.log.pull(self.have):
                raise IndexError(i)
            self.have += 1
        return i + 1

    def __len__(self):
        self.log.lens += 1
        while self.log.pull(self.have):
            self.have += 1
        return self.have


KINDS = ('iter', 'gen', 'lazy', 'iterable', 'sized')


def make(kind, log):
    if kind == 'iter':
        return CountingIterator(log)
    if kind == 'gen':
        log.iters = None
        return counting_generator(log)
    if kind == 'lazy':
        log.iters = None
        return LazySeq(log)
    if kind == 'iterable':
        return ReIterable(log)
    if kind == 'sized':
        return SizedIterable(log)
    raise ValueError(kind)


class OptSites:
    """Wrapper on the real ``opt`` (rebound in DT_InSV and DT_In): labels the pulls of the
    current PullLog with the ordinal of the opt() call that caused them."""

    def __init__(self):
        self.current = None
        self.calls = 0

    def install(self):
        from DocumentTemplate import DT_In
        from DocumentTemplate import DT_InSV
        real = DT_InSV.opt
        mon = self

        def opt(start, end, size, orphan, sequence):
            log = mon.current
            mon.calls += 1
            if log is None:
                return real(start, end, size, orphan, sequence)
            prev = log.site
            log.site = len(log.opt_calls)
            log.opt_calls.append([start, end, size, orphan])
            try:
                return real(start, end, size, orphan, sequence)
            finally:
                log.site = prev
        opt.__wrapped__ = real
        DT_InSV.opt = opt
        DT_In.opt = opt
        return real
