"""Probes of check C12: lazily produced sequences that log every pull.

One ``PullLog`` per render is shared by the container handed to the template and by the
wrapper installed on the real ``opt``; so each pull is recorded with its index, in order,
together with the ``opt`` call (if any) during which it happened.  The budget is logical:
an unbounded source raises after ``budget`` pulls instead of hanging.
"""


class PullBudgetExceeded(BaseException):
    """Not an ``Exception``: the engine's ``except Exception`` clauses must not hide it.
    The verdict is taken from ``PullLog.over`` anyway."""


class PullLog:
    __slots__ = ('n', 'budget', 'pulls', 'sites', 'iters', 'lens', 'stops', 'over',
                 'site', 'opt_calls', 'negative')

    STOP_BUDGET = 1000

    def __init__(self, n, budget):
        self.n = n                # number of elements the source can produce; None = unbounded
        self.budget = budget
        self.pulls = []           # element indices in the order they were produced
        self.sites = []           # for each pull: ordinal of the running opt() call, -1 = none
        self.iters = 0            # iter() calls seen by the container (None: not observable)
        self.lens = 0             # len() calls seen by the container
        self.stops = 0            # exhaustion signals delivered (StopIteration / IndexError)
        self.over = False
        self.site = -1
        self.opt_calls = []       # [start, end, size, orphan] of every opt() call, in order
        self.negative = 0

    def pull(self, i):
        """Produce element ``i``; False when the source is exhausted."""
        if self.n is not None and i >= self.n:
            self.stops += 1
            if self.stops > self.STOP_BUDGET:     # asked again and again after exhaustion
                self.over = True
                raise PullBudgetExceeded('exhausted source asked %d times' % self.stops)
            return False
        if len(self.pulls) >= self.budget:
            self.over = True
            raise PullBudgetExceeded(len(self.pulls))
        self.pulls.append(i)
        self.sites.append(self.site)
        return True


class CountingIterator:
    """An iterator object (``iter(x) is x``)."""

    def __init__(self, log):
        self.log = log
        self.pos = 0

    def __iter__(self):
        self.log.iters += 1
        return self

    def __next__(self):
        if not self.log.pull(self.pos):
            raise StopIteration
        self.pos += 1
        return self.pos


class _Cursor:
    def __init__(self, log):
        self.log = log
        self.pos = 0

    def __iter__(self):
        return self

    def __next__(self):
        if not self.log.pull(self.pos):
            raise StopIteration
        self.pos += 1
        return self.pos


class ReIterable:
    """A lazily produced collection: every ``iter()`` starts a fresh cursor at element 0,
    so a second ``iter()`` by the engine shows up as elements pulled twice."""

    def __init__(self, log):
        self.log = log

    def __iter__(self):
        self.log.iters += 1
        return _Cursor(self.log)


class SizedIterable(ReIterable):
    """A lazily produced, *sized* collection (result set / cursor wrapper): ``__iter__`` and a cheap
    ``__len__`` but no ``__getitem__``.  ``len()`` pulls nothing and is only counted; an unbounded one
    reports a huge length."""

    def __len__(self):
        self.log.lens += 1
        return self.log.n if self.log.n is not None else 10 ** 6


def counting_generator(log):
    pos = 0
    while log.pull(pos):
        pos += 1
        yield pos


class LazySeq:
    """Subscriptable lazy sequence: ``seq[i]`` produces elements up to ``i`` only;
    ``len(seq)`` is the expensive operation (produces everything that is left)."""

    def __init__(self, log):
        self.log = log
        self.have = 0

    def __getitem__(self, i):
        if i < 0:
            self.log.negative += 1
            raise IndexError(i)
        while self.have <= i:
            if not self.log.pull(self.have):
                raise IndexError(i)
            self.have += 1
        return i + 1

    def __len__(self):
        self.log.lens += 1
        while self.log.pull(self.have):
            self.have += 1
        return self.have


class LazyEqSeq(LazySeq):
    """A lazy sequence with value semantics, as result-set classes have them: comparing it (``==`` /
    ``!=``) or asking ``in`` has to produce everything; iterating it walks what subscription gives."""

    def _all(self):
        self.log.lens += 1
        while self.log.pull(self.have):
            self.have += 1
        return list(range(1, self.have + 1))

    def __eq__(self, other):
        if self is other:
            return True
        try:
            return self._all() == list(other)
        except TypeError:
            return self._all() and False

    def __ne__(self, other):
        return not self.__eq__(other)

    __hash__ = object.__hash__

    def __contains__(self, x):
        return x in self._all()

    def __iter__(self):
        i = 0
        while True:
            try:
                yield self[i]
            except IndexError:
                return
            i += 1


KINDS = ('iter', 'gen', 'lazy', 'iterable', 'sized')
# kinds used by the parts added later (KINDS keeps the rotation of the older parts as it was)
MORE_KINDS = KINDS + ('lazyeq',)


def make(kind, log):
    if kind == 'iter':
        return CountingIterator(log)
    if kind == 'gen':
        log.iters = None
        return counting_generator(log)
    if kind == 'lazy':
        log.iters = None
        return LazySeq(log)
    if kind == 'lazyeq':
        log.iters = None
        return LazyEqSeq(log)
    if kind == 'iterable':
        return ReIterable(log)
    if kind == 'sized':
        return SizedIterable(log)
    raise ValueError(kind)


class OptSites:
    """Wrapper on the real ``opt`` (rebound in DT_InSV and DT_In): labels the pulls of the
    current PullLog with the ordinal of the opt() call that caused them."""

    def __init__(self):
        self.current = None
        self.calls = 0

    def install(self):
        from DocumentTemplate import DT_In
        from DocumentTemplate import DT_InSV
        real = getattr(DT_InSV, 'opt', None)
        if real is None:            # renamed by a refactoring: no attribution, the pull log still decides
            return None
        mon = self

        def opt(start, end, size, orphan, sequence):
            log = mon.current
            mon.calls += 1
            if log is None:
                return real(start, end, size, orphan, sequence)
            prev = log.site
            log.site = len(log.opt_calls)
            log.opt_calls.append([start, end, size, orphan])
            try:
                return real(start, end, size, orphan, sequence)
            finally:
                log.site = prev
        opt.__wrapped__ = real
        DT_InSV.opt = opt
        DT_In.opt = opt
        return real


# ---------------------------------------------------------------- how the lazy value reaches the tag
class Holder:
    """Plain object whose attributes are the values: the client of a render, the object of a
    ``dtml-with``, the item of an enclosing loop."""

    def __init__(self, **kw):
        self.__dict__.update(kw)


class GetattrHolder:
    """Object whose attributes are computed by ``__getattr__`` (acquisition-like)."""

    def __init__(self, values):
        self._values = values

    def __getattr__(self, name):
        if name.startswith('_'):
            raise AttributeError(name)
        try:
            return self._values[name]
        except KeyError:
            raise AttributeError(name)


class MethodHolder:
    """The sequence is what a zero-argument method of the client returns (the namespace calls
    it at every lookup; it hands out the same lazy object each time)."""

    def __init__(self, seq, **kw):
        self._seq = seq
        self.calls = 0
        self.__dict__.update(kw)

    def seq(self):
        self.calls += 1
        return self._seq


# route -> (text put in front of the template source, text put behind it)
ROUTE_WRAP = {
    'with': ('<dtml-with holder>', '</dtml-with>'),
    'with_only': ('<dtml-with holder only>', '</dtml-with>'),
    'with_mapping': ('<dtml-with holder mapping>', '</dtml-with>'),
    'with_expr': ('<dtml-with "holder">', '</dtml-with>'),
    'let': ('<dtml-let seq=raw>', '</dtml-let>'),
    'let_expr': ('<dtml-let seq="raw">', '</dtml-let>'),
    'item': ('<dtml-in holders>', '</dtml-in>'),
    'item_mapping': ('<dtml-in holders mapping>', '</dtml-in>'),
}
# routes that compile a fresh template per render (values given when the template is created)
CREATED = ('created', 'created_mapping')
ROUTES = ('kw', 'client', 'client_getattr', 'client_kw', 'clients', 'method', 'mapping', 'mapping_kw',
          'with', 'with_only', 'with_mapping', 'with_expr', 'let', 'let_expr', 'item', 'item_mapping',
          'sub', 'sub_kw', 'sub2') + CREATED
# routes on which the name of the sequence is an attribute looked up through an instance namespace
ATTRIBUTE_ROUTES = ('client', 'client_getattr', 'client_kw', 'clients', 'with', 'with_only', 'with_expr',
                    'item', 'sub', 'sub2')


def deliver(route, HTML, template, source, outers, vals, params):
    """Render with the values ``vals`` (sequence and what lives next to it) and ``params`` (batch
    parameters) delivered on ``route``.  ``template`` is the compiled template (already wrapped for
    the routes of ROUTE_WRAP), ``source`` its text (for the created routes), ``outers`` compiled
    ``<dtml-var inner>`` and ``<dtml-var inner>#<dtml-var inner>`` (the template is rendered as a
    sub-template, once or twice, in the namespace of the calling one)."""
    both = dict(vals)
    both.update(params)
    if route == 'kw':
        return template(**both)
    if route == 'client':
        return template(Holder(**both))
    if route == 'client_getattr':
        return template(GetattrHolder(both))
    if route == 'client_kw':
        return template(Holder(**vals), **params)
    if route == 'clients':
        return template((Holder(unrelated=1), Holder(**both)))
    if route == 'method':
        rest = {k: v for k, v in both.items() if k != 'seq'}
        return template(MethodHolder(vals['seq'], **rest))
    if route == 'mapping':
        return template(None, both)
    if route == 'mapping_kw':
        return template(None, dict(vals), **params)
    if route in ('with', 'with_only', 'with_expr'):
        return template(holder=Holder(**both))
    if route == 'with_mapping':
        return template(holder=both)
    if route in ('let', 'let_expr'):
        rest = {k: v for k, v in both.items() if k != 'seq'}
        return template(raw=vals['seq'], **rest)
    if route == 'item':
        return template(holders=[Holder(**both)])
    if route == 'item_mapping':
        return template(holders=[both])
    if route == 'sub':
        return outers[0](Holder(**both), inner=template)
    if route == 'sub_kw':
        return outers[0](inner=template, **both)
    if route == 'sub2':
        return outers[1](Holder(**both), inner=template)
    if route == 'created':
        return HTML(source, **both)()
    if route == 'created_mapping':
        return HTML(source, both)()
    raise ValueError(route)
