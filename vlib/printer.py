"""AST (vlib.tast) -> concrete DTML source in one of the three surface syntaxes.

    print_template(body, syntax, rng=None, style=None) -> Printed

syntax  'html'  <dtml-var x> ... </dtml-if>            (class DocumentTemplate.DT_HTML.HTML)
        'ssi'   <!--#var x--> ... <!--#/if-->          (class HTML as well)
        'epfs'  %(x)s  %(if x)[ ... %(if x)]           (class DocumentTemplate.DT_String.String)
        ``TEMPLATE_CLASS[syntax]`` names the class ('HTML' / 'String').
rng     a random.Random driving the style choices; None = the canonical plain style (single blanks,
        bare names, expr="..", lower-case attribute names, `/tag` end tags without arguments).
style   a Style (probabilities of each variation); default Style().

Style variations (all documented spellings or spellings the docstrings show in examples):
  * whitespace runs (blank, tab, newline; rarely CR LF) between tag name and arguments, between
    arguments and before the tag end;
  * name reference as ``x`` / ``name=x`` / ``name="x"`` (``type=`` for raise);
    expression as ``expr="…"`` / the bare ``"…"`` shorthand (HTML and SSI only, see DESIGN C07
    scoping decision) / ``expr=…`` unquoted when the text has no blank, quote, '=' or tag-end char;
  * valued attributes quoted or not; attribute names of name=value pairs in lower / UPPER / Capital
    case (they are lower-cased by the parser).  Valueless attributes and tag names only in lower case
    (they are case-sensitive); ``let`` binding names are never re-cased (they are variable names);
  * optional end-tag arguments (``</dtml-if x>``, ``%(in seq)]``), SSI end marker ``/`` or ``end`` in
    any case, optionally followed by a blank;
  * optional name argument of ``else`` inside ``if`` / ``in`` (only when the start tag's reference is
    a name: the engine requires the else argument to repeat the start tag's first argument verbatim);
  * EPFS: variable insertion as ``%(x ...)s`` or ``%(var x ...)s``; non-block commands (call, return)
    end in ``[`` or ``!``.
Attribute ORDER is never varied: the reference comes first, options follow in AST order.

The result also says what the engine is documented to do with literal text:

    Printed.source    the source text
    Printed.syntax
    Printed.texts     [TextInfo] in source order, one per Text node
        .text         the node's text as printed
        .start/.end   offsets in source
        .after_block  True when the text directly follows a block open / continuation / close tag
                      (the engine drops ONE leading run ``[ \\t]*\\n`` there and nowhere else)
        .kept         the text minus that run (what must survive cooking)
        .depth        block nesting depth; .in_comment: inside a comment block (never rendered)
    Printed.tags      [TagInfo(role, name, start, end, node)], role in 'open', 'cont', 'close',
                      'single', 'entity'
    Printed.literals  expected *literal tree*: for a body, a list whose items are a str (a literal
                      block, `kept`, empties omitted) or, for each tag, the list of its child bodies'
                      literal trees ([] for var/call/return/entity/comment).  It has the shape of
                      ``vlib.normal.literal_tree(normal(template._v_blocks))``.
"""
import re

from vlib import tast

SYNTAXES = ('html', 'ssi', 'epfs')
TEMPLATE_CLASS = {'html': 'HTML', 'ssi': 'HTML', 'epfs': 'String'}

_BARE = re.compile(r'[A-Za-z0-9_.:/,+*-]*[A-Za-z0-9_.]\Z')
_EPFS_NAME = re.compile(r'[a-zA-Z0-9_/.-]+\Z')
_ENTITY_NAME = re.compile(r'[-a-zA-Z0-9_.]+\Z')
_EOL = re.compile(r'[ \t]*\n')


def bare_ok(value):
    """True when `value` may be written without quotes in every syntax."""
    return bool(value) and _BARE.match(value) is not None


class Style:
    """Probabilities of the style variations (0 = never).  Style.plain() switches all off."""

    def __init__(self, **kw):
        self.ws_multi = 0.25          # a whitespace run instead of a single blank
        self.ws_trail = 0.15          # blanks before the tag end
        self.ws_crlf = 0.02           # a CR LF line break inside a tag (Windows line ends)
        self.name_attr = 0.35         # name=x / name="x" instead of bare x
        self.quote_bare = 0.4         # quote a value that could go unquoted
        self.expr_short = 0.35        # "…" instead of expr="…" (HTML/SSI)
        self.expr_unquoted = 0.3      # expr=… when the text allows it
        self.attr_case = 0.2          # UPPER / Capital attribute names of name=value pairs
        self.end_args = 0.3           # arguments on the end tag
        self.ssi_end_word = 0.5       # endtag instead of /tag
        self.ssi_end_blank = 0.1      # blank between the end marker and the tag name
        self.else_arg = 0.3           # <dtml-else x> inside if x / in x
        self.epfs_explicit_var = 0.4  # %(var x)s instead of %(x)s
        self.epfs_bang = 0.5          # ! instead of [ for call / return
        for k, v in kw.items():
            if not hasattr(self, k):
                raise TypeError('unknown style knob %r' % k)
            setattr(self, k, v)

    @classmethod
    def plain(cls):
        s = cls()
        for k in list(s.__dict__):
            setattr(s, k, 0.0)
        return s


class TextInfo:
    __slots__ = ('text', 'start', 'end', 'after_block', 'kept', 'depth', 'in_comment')

    def __init__(self, text, start, after_block, depth, in_comment):
        self.text = text
        self.start = start
        self.end = start + len(text)
        self.after_block = after_block
        kept = text
        if after_block:
            m = _EOL.match(text)
            if m:
                kept = text[m.end():]
        self.kept = kept
        self.depth = depth
        self.in_comment = in_comment

    def as_dict(self):
        return {k: getattr(self, k) for k in self.__slots__}


class TagInfo:
    __slots__ = ('role', 'name', 'start', 'end', 'node')

    def __init__(self, role, name, start, end, node):
        self.role, self.name, self.start, self.end, self.node = role, name, start, end, node

    def __repr__(self):
        return 'TagInfo(%s %s %d:%d)' % (self.role, self.name, self.start, self.end)


class Printed:
    def __init__(self, syntax):
        self.syntax = syntax
        self.source = ''
        self.texts = []
        self.tags = []
        self.literals = []
        self.styles_used = set()

    def line_of(self, offset):
        return self.source.count('\n', 0, offset) + 1


class _Printer:
    def __init__(self, syntax, rng, style):
        if syntax not in SYNTAXES:
            raise ValueError('unknown syntax %r' % (syntax,))
        self.syntax = syntax
        self.rng = rng
        self.style = style if rng is not None else Style.plain()
        self.out = []
        self.pos = 0
        self.after_block = False
        self.res = Printed(syntax)

    # ---- random helpers
    def p(self, knob):
        pr = getattr(self.style, knob)
        if pr <= 0 or self.rng is None:
            return False
        hit = self.rng.random() < pr
        if hit:
            self.res.styles_used.add(knob)
        return hit

    def ws(self):
        if self.p('ws_crlf'):
            return self.rng.choice(('\r\n', ' \r\n  ', '\r\n\t'))
        if self.p('ws_multi'):
            return self.rng.choice(('  ', '\t', '\n', ' \n  ', ' \t ', '\n\n'))
        return ' '

    def trail(self):
        if self.p('ws_trail'):
            return self.rng.choice((' ', '  ', '\n', '\t'))
        return ''

    def case(self, attr):
        if self.p('attr_case'):
            return self.rng.choice((attr.upper(), attr.capitalize()))
        return attr

    # ---- emit
    def emit(self, s):
        self.out.append(s)
        self.pos += len(s)

    def tag(self, role, name, args, node, single_kind=None):
        """Emit one tag.  args: the already assembled argument string ('' for none)."""
        sx = self.syntax
        start = self.pos
        sep = self.ws() if args else ''
        if sx == 'html':
            lead = '</dtml-' if role == 'close' else '<dtml-'
            s = lead + name + sep + args + self.trail() + '>'
        elif sx == 'ssi':
            if role == 'close':
                if self.p('ssi_end_word'):
                    mark = self.rng.choice(('end', 'end', 'END', 'End'))
                else:
                    mark = '/'
                if self.p('ssi_end_blank'):
                    mark += ' '
                lead = '<!--#' + mark
            else:
                lead = '<!--#'
            s = lead + name + sep + args + self.trail() + '-->'
        else:
            if role == 'close':
                fmt = ']'
            elif role in ('open', 'cont'):
                fmt = '['
            elif single_kind == 'var':
                fmt = 's'
            else:
                fmt = '!' if self.p('epfs_bang') else '['
            tr = self.trail()
            if not args and tr:
                sep = ''            # "%(else )[" : the blank is the separator with empty args
            s = '%(' + name + sep + args + tr + ')' + fmt
        self.emit(s)
        self.res.tags.append(TagInfo(role, name, start, self.pos, node))
        self.after_block = role in ('open', 'cont', 'close')

    # ---- argument items
    def value_item(self, attr, value, recase=True):
        a = self.case(attr) if recase else attr
        if bare_ok(value) and not self.p('quote_bare'):
            return '%s=%s' % (a, value)
        if '"' in value:
            raise ValueError('attribute value with a double quote cannot be printed: %r' % value)
        return '%s="%s"' % (a, value)

    def ref_item(self, ref, attr='name', allow_short=True):
        if ref.kind == 'name':
            if allow_short and bare_ok(ref.text) and not self.p('name_attr'):
                return ref.text
            return self.value_item(attr, ref.text)
        if '"' in ref.text:
            raise ValueError('expression with a double quote cannot be printed: %r' % ref.text)
        if allow_short and self.syntax != 'epfs' and self.p('expr_short'):
            return '"%s"' % ref.text
        if bare_ok(ref.text) and self.p('expr_unquoted'):
            return '%s=%s' % (self.case('expr'), ref.text)
        return '%s="%s"' % (self.case('expr'), ref.text)

    def opt_items(self, opts):
        items = []
        for a, v in opts:
            if v is None:
                items.append(a)
            else:
                items.append(self.value_item(a, v))
        return items

    def join(self, items):
        if not items:
            return ''
        s = items[0]
        for it in items[1:]:
            s += self.ws() + it
        return s

    def end_args(self, ref_item, start_args):
        if not self.p('end_args'):
            return ''
        c = self.rng.random()
        if c < 0.5 and ref_item:
            return ref_item
        if c < 0.8 and start_args:
            return start_args
        return self.rng.choice(('x', 'foo bar', 'name=y'))

    # ---- nodes
    def body(self, body, depth, in_comment):
        lits = []
        for n in body:
            k = n.kind
            if k == 'text':
                ti = TextInfo(n.s, self.pos, self.after_block, depth, in_comment)
                self.res.texts.append(ti)
                self.emit(n.s)
                self.after_block = False
                if ti.kept and not in_comment:
                    lits.append(ti.kept)
                continue
            sub = getattr(self, 'n_' + k)(n, depth, in_comment)
            lits.append(sub)
        return lits

    def var_tag(self, ref, opts, node):
        sx = self.syntax
        if sx == 'epfs':
            explicit = (ref.kind != 'name' or not bare_ok(ref.text) or ref.text == 'var'
                        or not _EPFS_NAME.match(ref.text) or self.p('epfs_explicit_var'))
            if not explicit:
                # %(x opts)s : the name is the "tag name"
                self.tag('single', ref.text, self.join(self.opt_items(opts)), node, 'var')
                return
            # explicit: any reference style, but the reference may not be printed bare if that
            # would read as %(var x)s with x ... fine: bare is allowed here
            items = [self.ref_item(ref, allow_short=True)] + self.opt_items(opts)
            self.tag('single', 'var', self.join(items), node, 'var')
            return
        items = [self.ref_item(ref)] + self.opt_items(opts)
        self.tag('single', 'var', self.join(items), node, 'var')

    def n_var(self, n, depth, ic):
        self.var_tag(n.ref, n.opts, n)
        return []

    def n_entity(self, n, depth, ic):
        if self.syntax == 'epfs':
            v = n.as_var()
            self.var_tag(v.ref, v.opts, n)
            return []
        if not _ENTITY_NAME.match(n.name) or (n.mods and '-' in ''.join(n.mods)):
            raise ValueError('entity cannot be printed: %r' % (n,))
        start = self.pos
        if n.mods:
            s = '&dtml.' + '.'.join(n.mods) + '-' + n.name + ';'
        else:
            s = '&dtml-' + n.name + ';'
        self.emit(s)
        self.res.tags.append(TagInfo('entity', 'var', start, self.pos, n))
        self.after_block = False
        return []

    def n_call(self, n, depth, ic):
        self.tag('single', 'call', self.ref_item(n.ref), n, 'call')
        return []

    def n_return(self, n, depth, ic):
        self.tag('single', 'return', self.ref_item(n.ref), n, 'return')
        return []

    def _else_arg(self, ref, ref_item, start_args):
        """The optional repeated name on <dtml-else>; '' when not legal or not chosen."""
        if ref is None or ref.kind != 'name' or not self.p('else_arg'):
            return ''
        rest = start_args[len(ref_item):]
        if start_args.startswith(ref_item) and (rest == '' or rest[0] <= ' '):
            return ref_item
        return ''

    def n_if(self, n, depth, ic):
        ref0 = n.chain[0][0]
        ritem = self.ref_item(ref0)
        sargs = ritem
        self.tag('open', 'if', sargs, n)
        subs = [self.body(n.chain[0][1], depth + 1, ic)]
        for ref, b in n.chain[1:]:
            self.tag('cont', 'elif', self.ref_item(ref), n)
            subs.append(self.body(b, depth + 1, ic))
        if n.else_ is not None:
            self.tag('cont', 'else', self._else_arg(ref0, ritem, sargs), n)
            subs.append(self.body(n.else_, depth + 1, ic))
        self.tag('close', 'if', self.end_args(ritem, sargs), n)
        return subs

    def _simple_block(self, name, n, ref, opts, depth, ic, attr='name'):
        items = []
        ritem = ''
        if ref is not None:
            ritem = self.ref_item(ref, attr=attr)
            items.append(ritem)
        items += self.opt_items(opts)
        sargs = self.join(items)
        self.tag('open', name, sargs, n)
        return ritem, sargs

    def n_unless(self, n, depth, ic):
        ritem, sargs = self._simple_block('unless', n, n.ref, (), depth, ic)
        sub = self.body(n.body, depth + 1, ic)
        self.tag('close', 'unless', self.end_args(ritem, sargs), n)
        return [sub]

    def n_in(self, n, depth, ic):
        ritem, sargs = self._simple_block('in', n, n.ref, n.opts, depth, ic)
        subs = [self.body(n.body, depth + 1, ic)]
        if n.else_ is not None:
            self.tag('cont', 'else', self._else_arg(n.ref, ritem, sargs), n)
            subs.append(self.body(n.else_, depth + 1, ic))
        self.tag('close', 'in', self.end_args(ritem, sargs), n)
        return subs

    def n_with(self, n, depth, ic):
        ritem, sargs = self._simple_block('with', n, n.ref, n.opts, depth, ic)
        sub = self.body(n.body, depth + 1, ic)
        self.tag('close', 'with', self.end_args(ritem, sargs), n)
        return [sub]

    def n_tree(self, n, depth, ic):
        ritem, sargs = self._simple_block('tree', n, n.ref, n.opts, depth, ic)
        sub = self.body(n.body, depth + 1, ic)
        self.tag('close', 'tree', self.end_args(ritem, sargs), n)
        return [sub]

    def n_raise(self, n, depth, ic):
        ritem, sargs = self._simple_block('raise', n, n.ref, (), depth, ic, attr='type')
        sub = self.body(n.body, depth + 1, ic)
        self.tag('close', 'raise', self.end_args(ritem, sargs), n)
        return [sub]

    def n_let(self, n, depth, ic):
        items = []
        for name, ref in n.bindings:
            if ref.kind == 'name':
                if not bare_ok(ref.text):
                    raise ValueError('let name binding cannot be printed: %r' % ref.text)
                items.append('%s=%s' % (name, ref.text))
            else:
                if '"' in ref.text:
                    raise ValueError('expression with a double quote: %r' % ref.text)
                items.append('%s="%s"' % (name, ref.text))
        sargs = self.join(items)
        self.tag('open', 'let', sargs, n)
        sub = self.body(n.body, depth + 1, ic)
        self.tag('close', 'let', self.end_args('', sargs), n)
        return [sub]

    def n_try(self, n, depth, ic):
        self.tag('open', 'try', '', n)
        subs = [self.body(n.body, depth + 1, ic)]
        for names, b in n.handlers:
            self.tag('cont', 'except', self.join(list(names)), n)
            sub = self.body(b, depth + 1, ic)
            # the compiled tag keeps one handler entry per exception name
            for _ in range(max(1, len(names))):
                subs.append(sub)
        if n.else_ is not None:
            self.tag('cont', 'else', '', n)
            subs.append(self.body(n.else_, depth + 1, ic))
        if n.finally_ is not None:
            self.tag('cont', 'finally', '', n)
            subs.append(self.body(n.finally_, depth + 1, ic))
        self.tag('close', 'try', self.end_args('', ''), n)
        return subs

    def n_comment(self, n, depth, ic):
        self.tag('open', 'comment', '', n)
        self.body(n.body, depth + 1, True)
        self.tag('close', 'comment', self.end_args('', ''), n)
        return []


def print_template(body, syntax, rng=None, style=None):
    """Print `body` (list of tast nodes) in `syntax`; see the module docstring for the result."""
    pr = _Printer(syntax, rng, style or Style())
    pr.res.literals = pr.body(body, 0, False)
    pr.res.source = ''.join(pr.out)
    return pr.res


def print_all(body, rng=None, style=None, styles_per_syntax=1):
    """{syntax: [Printed, ...]} with `styles_per_syntax` independently styled printings each."""
    return {sx: [print_template(body, sx, rng, style) for _ in range(styles_per_syntax)]
            for sx in SYNTAXES}


_REAL_ENTITY = re.compile(r'&dtml[-.][-a-zA-Z0-9_.]*;')
_EPFS_OPENING = re.compile(r'%\((?![\x00- )=])')


def text_forms_tag(s, lookalikes=False):
    """True when literal text `s` would be (part of) a tag in some syntax.

    lookalikes=False (default): any '%(' or '&dtml' counts (the cautious rule every caller had).
    lookalikes=True: text that merely LOOKS like the start of a tag is let through:
      '&dtml' unless it is '&dtml-' / '&dtml.' + characters of entity names only + ';' (a reference needs
      a name made of letters, digits, '_', '-', '.' and the closing ';' directly behind it);
      '%(' when directly followed by a blank, ')' or '=' (a tag needs its name directly behind the
      parenthesis)."""
    if '<dtml-' in s or '</dtml-' in s or '<!--#' in s:
        return True
    if not lookalikes:
        return '%(' in s or '&dtml' in s
    return bool(_REAL_ENTITY.search(s) or _EPFS_OPENING.search(s))


def printable(body, lookalikes=False):
    """None when `body` can be printed in all three syntaxes, else the reason (str).

    lookalikes: see text_forms_tag (default False = the behaviour all callers had)."""
    try:
        for sx in SYNTAXES:
            print_template(body, sx)
    except ValueError as e:
        return str(e)
    for n, _ in tast.walk(body):
        if n.kind == 'text' and text_forms_tag(n.s, lookalikes):
            return 'text forms a tag in some syntax: %r' % n.s[:40]
    return None
