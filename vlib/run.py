"""Driver: plans shards, runs them in child interpreters, merges, writes evidence.

    python -m vlib.run C11 --tier quick|thorough [--replay file] [--jobs N]

Exit codes: 0 held on everything observed (KNOWN-FINDING lines allowed),
            1 violation not listed in known_findings.json (VIOLATION line),
            2 inconclusive (INCONCLUSIVE line): a deciding monitor was not reached,
              a shard died or the watchdog fired.
"""
import argparse
import importlib
import json
import os
import subprocess
import sys
import tempfile
import time
from concurrent.futures import ThreadPoolExecutor

HERE = os.path.dirname(os.path.dirname(os.path.abspath(__file__)))
PY = '/venv/bin/python'


def child_env(repo):
    env = dict(os.environ)
    paths = [os.path.join(repo, 'src'), os.path.join(HERE, '.deps'), HERE]
    env['PYTHONPATH'] = os.pathsep.join(paths)
    env['PYTHONDONTWRITEBYTECODE'] = '1'
    env['PYTHONHASHSEED'] = '0'
    env['VERIF_REPO'] = repo
    env['VERIF_HOME'] = HERE
    return env


class CpuSlots:
    """One CPU per running shard, for checks whose shards hand a baton between threads (C18).

    Measured in this sandbox: a thread hand-off costs 18 us when both threads sit on one CPU and 500-700 us when 16
    such processes float over 16 CPUs; creating a thread 0.07 ms against 1.9 ms.  Exactly one thread of a shard runs
    at any time (scheduler + GIL), so confining a shard to one CPU changes cost only, not behaviour."""

    def __init__(self):
        import queue
        self.q = queue.Queue()
        try:
            cpus = sorted(os.sched_getaffinity(0))
        except (AttributeError, OSError):
            cpus = []
        import random
        random.Random(os.getpid()).shuffle(cpus)     # several drivers at once should not all start on CPU 0
        for c in cpus:
            self.q.put(c)
        self.enabled = bool(cpus)

    def take(self):
        if not self.enabled:
            return None
        try:
            return self.q.get_nowait()
        except Exception:
            return None

    def give(self, c):
        if c is not None:
            self.q.put(c)


def run_shard(check_id, spec, env, workdir, timeout, idx, slots=None):
    cpu = slots.take() if slots is not None else None
    try:
        if cpu is not None:
            env = dict(env)
            env['VERIF_CPU'] = str(cpu)
        return _run_shard(check_id, spec, env, workdir, timeout, idx)
    finally:
        if slots is not None:
            slots.give(cpu)


def _run_shard(check_id, spec, env, workdir, timeout, idx):
    specf = os.path.join(workdir, 'spec%d.json' % idx)
    outf = os.path.join(workdir, 'out%d.json' % idx)
    with open(specf, 'w') as f:
        json.dump(spec, f)
    cmd = [PY, '-X', 'faulthandler', '-m', 'vlib.worker', check_id, specf, outf]
    t0 = time.time()
    try:
        p = subprocess.run(cmd, env=env, cwd=HERE, timeout=timeout,
                           stdout=subprocess.PIPE, stderr=subprocess.PIPE)
    except subprocess.TimeoutExpired:
        return {'dead': 'watchdog %ss fired' % timeout, 'spec': spec}
    wall = time.time() - t0
    if not os.path.exists(outf):
        err = p.stderr.decode('utf-8', 'replace')[-1500:]
        return {'dead': 'child exit %s without result: %s' % (p.returncode, err),
                'spec': spec}
    with open(outf) as f:
        r = json.load(f)
    r['wall'] = wall
    os.unlink(outf)
    os.unlink(specf)
    return r


def load_findings():
    p = os.path.join(HERE, 'known_findings.json')
    if not os.path.exists(p):
        return []
    with open(p) as f:
        out = json.load(f).get('findings', [])
    extra = os.environ.get('VERIF_EXTRA_FINDINGS')   # development aid only
    if extra and os.path.exists(extra):
        with open(extra) as f:
            out = out + json.load(f).get('findings', [])
    return out


def main(argv=None):
    ap = argparse.ArgumentParser()
    ap.add_argument('check')
    ap.add_argument('--tier', default=os.environ.get('VERIF_TIER') or 'quick',
                    choices=['quick', 'thorough'])
    ap.add_argument('--replay')
    ap.add_argument('--jobs', type=int,
                    default=int(os.environ.get('VERIF_JOBS') or 0) or (os.cpu_count() or 4))
    ap.add_argument('--no-evidence', action='store_true')
    args = ap.parse_args(argv)

    cid = args.check.upper()
    seed = int(os.environ.get('VERIF_SEED') or 0)
    repo = os.path.abspath(os.environ.get('VERIF_REPO') or '/repo')
    env = child_env(repo)
    sys.path.insert(0, HERE)
    mod = importlib.import_module('checks.' + cid.lower())
    t0 = time.time()

    workroot = os.path.join(HERE, '.work')
    os.makedirs(workroot, exist_ok=True)
    workdir = tempfile.mkdtemp(prefix=cid + '_', dir=workroot)

    try:
        if args.replay:
            with open(args.replay) as f:
                rep = json.load(f)
            specs = [{'replay': rep, 'tier': args.tier, 'seed': rep.get('seed', seed),
                      'shard': 0, 'nshards': 1}]
        else:
            specs = mod.plan(args.tier, seed)
            for i, s in enumerate(specs):
                s.setdefault('tier', args.tier)
                s.setdefault('seed', seed)
                s['shard'] = i
                s['nshards'] = len(specs)
        timeout = getattr(mod, 'SHARD_TIMEOUT', {}).get(args.tier, 1500)
        slots = CpuSlots() if getattr(mod, 'PIN_CPU', False) and not os.environ.get('VERIF_NO_PIN') else None
        with ThreadPoolExecutor(max_workers=max(1, args.jobs)) as ex:
            futs = [ex.submit(run_shard, cid, s, env, workdir, timeout, i, slots)
                    for i, s in enumerate(specs)]
            results = [f.result() for f in futs]
    finally:
        try:
            for n in os.listdir(workdir):
                os.unlink(os.path.join(workdir, n))
            os.rmdir(workdir)
        except OSError:
            pass

    # ---- merge
    counters = {}
    hashes = set()
    evaluations = 0
    violations = []
    vcount = {}
    samples = []
    inconclusive = []
    tables = {}
    for r in results:
        if 'dead' in r:
            inconclusive.append('shard died: ' + r['dead'][:600])
            continue
        evaluations += r['evaluations']
        hashes.update(r['hashes'])
        for k, v in r['counters'].items():
            counters[k] = counters.get(k, 0) + v
        for k, v in r.get('tables', {}).items():
            t = tables.setdefault(k, {})
            for kk, vv in v.items():
                t[kk] = t.get(kk, 0) + vv
        for v in r['violations']:
            violations.append(v)
        for k, v in r.get('vcount', {}).items():
            vcount[k] = vcount.get(k, 0) + v
        if len(samples) < 12:
            samples.extend(r['samples'][:max(1, 12 // max(1, len(results)))])
        inconclusive.extend(r.get('inconclusive', []))

    agg = {'tier': args.tier, 'seed': seed, 'evaluations': evaluations,
           'distinct': len(hashes), 'counters': counters, 'tables': tables,
           'violations': violations, 'replay': bool(args.replay)}
    fin = {}
    if hasattr(mod, 'finish') and not args.replay:
        fin = mod.finish(agg) or {}
        inconclusive.extend(fin.get('inconclusive', []))

    # ---- known findings
    known = {}
    for f in load_findings():
        if f.get('property') == cid and f.get('status') == 'known':
            known[f['key']] = f
    unknown = []
    matched = {}
    for v in violations:
        m = v.get('mech')
        if m and m in known:
            matched.setdefault(m, []).append(v)
        else:
            unknown.append(v)
    # counts of violations beyond the detail cap
    for k, n in vcount.items():
        mech = k if k != '__none__' else None
        if mech and mech in known:
            matched.setdefault(mech, [])

    wall = time.time() - t0
    nviol = sum(vcount.values()) if vcount else len(violations)
    unknown_n = sum(n for k, n in vcount.items()
                    if not (k != '__none__' and k in known))

    if not args.replay and not args.no_evidence:
        cov = {
            'evaluations': evaluations,
            'distinct_nontrivial': len(hashes),
            'rule': getattr(mod, 'RULE', ''),
            'samples': samples[:12] or ['(none)'],
            'counters': counters,
        }
        if tables:
            cov['tables'] = tables
        cov.update(fin.get('coverage', {}))
        # schema guard: typed keys must have their types whatever a check module returned
        if not isinstance(cov.get('exhaustive', False), bool):
            cov['exhaustive_note'] = str(cov['exhaustive'])
            cov['exhaustive'] = True
        for k in ('states', 'transitions', 'traces_validated_against_impl', 'obligations', 'discharged',
                  'programs', 'disagreements_checked', 'evaluations', 'distinct_nontrivial'):
            if k in cov and not isinstance(cov[k], int):
                cov[k + '_note'] = str(cov.pop(k))
        for k in ('rule', 'explanation', 'checker_cmd'):
            if k in cov and not isinstance(cov[k], str):
                cov[k] = str(cov[k])
        if not isinstance(cov.get('samples'), list) or not cov['samples']:
            cov['samples'] = ['(none)']
        cov['known_findings_matched'] = {k: vcount.get(k, len(v)) for k, v in matched.items()}
        cov['inconclusive_reasons'] = inconclusive
        ev = {
            'property_id': cid,
            'tier': args.tier,
            'seed': seed,
            'level': getattr(mod, 'LEVEL', 'exploration'),
            'coverage': cov,
            'assumptions': list(getattr(mod, 'ASSUMPTIONS', [])),
            'wall_s': round(wall, 2),
            'violations': unknown_n,
        }
        os.makedirs(os.path.join(HERE, 'evidence'), exist_ok=True)
        tmp = os.path.join(HERE, 'evidence', cid + '.json.tmp')
        with open(tmp, 'w') as f:
            json.dump(ev, f, indent=1, sort_keys=True, default=str)
            f.write('\n')
        os.replace(tmp, os.path.join(HERE, 'evidence', cid + '.json'))

    # ---- report
    print('%s tier=%s seed=%d evaluations=%d distinct_nontrivial=%d wall=%.1fs'
          % (cid, args.tier, seed, evaluations, len(hashes), wall))
    for k in sorted(counters):
        print('  %-44s %d' % (k, counters[k]))
    for m in sorted(matched):
        print('KNOWN-FINDING: property=%s %s: %s (%d occurrences)'
              % (cid, m, known[m].get('what', ''), vcount.get(m, len(matched[m]))))
    if unknown and os.environ.get('VERIF_DEBUG'):
        import re
        hist = {}
        for v in unknown:
            k = re.sub(r'-?\d+', 'N', str(v.get('what')))[:160]
            hist[k] = hist.get(k, 0) + 1
        for k, n in sorted(hist.items(), key=lambda kv: -kv[1])[:40]:
            print('  DEBUG %6d  %s' % (n, k))
    if unknown:
        os.makedirs(os.path.join(HERE, 'replays', cid), exist_ok=True)
        seen = set()
        for v in unknown:
            key = v.get('key') or ('%08x' % (hash(json.dumps(v.get('case'), sort_keys=True, default=str)) & 0xffffffff))
            if key in seen:
                continue
            seen.add(key)
            if len(seen) > 20:
                break
            path = os.path.join(HERE, 'replays', cid, '%s.json' % key)
            with open(path, 'w') as f:
                json.dump({'property': cid, 'seed': seed, 'tier': args.tier,
                           'what': v.get('what'), 'mech': v.get('mech'),
                           'case': v.get('case'), 'detail': v.get('detail')},
                          f, indent=1, default=str)
            print('  what: %s' % (str(v.get('what'))[:400]))
            print('VIOLATION property=%s replay=%s' % (cid, path))
        print('  (%d unlisted violations in total)' % unknown_n)
        return 1
    if inconclusive:
        for r in inconclusive[:10]:
            print('INCONCLUSIVE property=%s reason=%s' % (cid, r))
        return 2
    if args.replay:
        print('replay: no violation reproduced')
    return 0


if __name__ == '__main__':
    sys.exit(main())
