"""C14 helpers: abstract try/raise/return trees, their DTML printer, the reference
interpreter (oracle) and the case generators.

A *case* is a JSON-able dict ``{'part': str, 'tree': [node...], 'subs': {key: [node...]}}``.
Nodes are lists:

    ['text', s]                          literal text
    ['probe', id]                        <dtml-var "probe('id', _)">   logs, renders '{id}'
    ['boom', id, cls, msg, at]           harness callable raising cls(msg) on its at-th call
                                         (at=0: every call), else renders '{id}'
    ['raise', mode, name, body]          dtml-raise; mode name|type|expr|qexpr|cls
    ['return', mode, key]                dtml-return of RV[key]; mode name|nameattr|expr|qexpr|lit
    ['try', body, [[names, block]...], else_block|None]
    ['tryfin', body, finally_block]
    ['in', n, body, else_block|None]     loop over n items
    ['with', body(, variant)]            dtml-with; variant obj (default) | map | only | maponly |
                                         expronly | exprmaponly: the "only" spellings render the
                                         block in a NEW namespace that holds nothing but the given
                                         object (the harness hands it the whole top-level namespace
                                         of the render, so probes stay reachable)
    ['let', body] ['if', truth, body, else|None] ['unless', truth, body]
    ['comment', body]
    ['sub', key, route]                  call of sub-template subs[key]; route var|call|fresh
                                         (fresh: called with a plain mapping, not the caller's
                                         namespace object: the callee builds its own namespace)
    ['einfo', id, form]                  the template itself reads error_type / error_value /
                                         error_tb (form var|expr|tb|ifexpr|item), guarded by a
                                         dtml-if so that it renders '[-]' where they are not bound
    ['via', carrier, form, home, target, body|None, else|None]
                                         the harness object `target` (a probe / boom / vboom / sub
                                         node) is evaluated by ANOTHER tag than a plain dtml-var:
                                         carrier var|varnull|varsize|entity|call|if|elif|unless|in|
                                         with|let|return; form name (looked up and called by the
                                         namespace) | expr | qexpr (called from the tag's expression);
                                         home (name form): where the namespace finds the name: top |
                                         withobj | withmap | rowmap | rowobj (attribute of a dtml-with
                                         object, key of a dtml-with mapping, key / attribute of the
                                         current dtml-in item).  Python reading: the target is an
                                         ordinary call in the tag's expression position, so whatever
                                         it raises propagates from there like from any other statement
    ['pboom', id, cls, msg]              via target only: a namespace VALUE (not callable) whose
                                         __str__ / __bool__ / second item access raises cls(msg); the
                                         carrier decides which of the three the tag needs (inserting:
                                         text; condition: truth; dtml-in: items)

Data-dependent nodes read a variable of the current *environment* (the namespace of this
render, or the row of the innermost enclosing ['vin'] loop; a row that does not define a
variable lets the lookup fall through to the enclosing scope):

    ['vraise', mode, var, body]          dtml-raise of the class named by cv_<var> (expr|qexpr)
                                         or cls(cn_<var>) (mode cls); undefined -> expr fails
    ['vreturn', mode, var]               dtml-return of dv_<var>  (an RV key)
    ['vboom', id, var]                   raises the class named by bx_<var> ('' = no raise)
    ['vif', var, body, else|None]        dtml-if tf_<var>
    ['vin', var, body]                   <dtml-in rows_<var> mapping>: one activation per row dict

A case may carry 'renders': [env, ...]: the template is compiled ONCE and rendered once per
environment; every render is compared with the model for that environment.

The model below is written from the property statement and the Try docstring ("functions
quite like Python's try command"): it maps every node to the Python statement of the same
name, so Python itself supplies the reference control flow.  It never looks at engine code.
"""
import builtins

import zExceptions


# ---------------------------------------------------------------- exception hierarchy
class E3(Exception):
    pass


class E2(E3):
    pass


class E1(E2):
    pass


class Other(Exception):
    pass


class E12(E1, Other):
    """multiple inheritance: both 'E3' and 'Other' name a base class"""


class Unknown(Exception):
    """model-side stand-in for "whatever class an unknown dtml-raise name turns into"."""


Unknown.__name__ = '?'

CUSTOM = {'E1': E1, 'E2': E2, 'E3': E3, 'Other': Other, 'E12': E12}
BUILTIN_NAMES = ['KeyError', 'IndexError', 'LookupError', 'ValueError', 'ZeroDivisionError',
                 'ArithmeticError', 'RuntimeError', 'Exception', 'AttributeError', 'TypeError', 'NameError']
ZEXC_NAMES = ['NotFound', 'BadRequest', 'Forbidden', 'Redirect', 'Unauthorized',
              'InternalError', 'HTTPException']
UNKNOWN_NAMES = ['NoSuchErrorAtAll', 'Input Error']   # the second one is the DT_Raise docstring example


def resolve(name):
    """Class denoted by a name in a dtml-raise tag / handler of this workload (harness table)."""
    if name in CUSTOM:
        return CUSTOM[name]
    if name in BUILTIN_NAMES:
        return getattr(builtins, name)
    if name in ZEXC_NAMES:
        return getattr(zExceptions, name)
    return None


# ---------------------------------------------------------------- return values
class Obj:
    def __str__(self):
        return 'OBJ!'


OBJ = Obj()
RV = {'s': 'ret-str', 'i': 42, 'l': [1, 'a'], 'n': None, 'o': OBJ, 'e': '', 'z': 0}
RV_LIT = {'s': "'ret-' + 'str'", 'i': '40 + 2', 'l': "[1, 'a']", 'n': 'None', 'e': "''", 'z': '0'}


def enc(v):
    """Value code used to compare call results (identity for the object)."""
    if v is OBJ:
        return 'OBJ'
    return '%s:%r' % (type(v).__name__, v)


# ---------------------------------------------------------------- printer
def to_src(nodes, style='name'):
    """style 'name': probes are namespace objects rendered by name (<dtml-var P_id>, the
    __render_with_namespace__ protocol hands them the namespace); style 'expr': probes are
    called from expressions (<dtml-var "probe('id', _)">)."""
    return ''.join(_src(n, style) for n in nodes)


def _src(n, style):
    k = n[0]

    def to_src(nodes):
        return ''.join(_src(x, style) for x in nodes)
    if k == 'text':
        return n[1]
    if k == 'probe':
        if style == 'name':
            return '<dtml-var P_%s>' % n[1]
        return '<dtml-var "probe(\'%s\', _)">' % n[1]
    if k == 'boom':
        if style == 'name':
            return '<dtml-var X_%s>' % n[1]
        return '<dtml-var "boom(\'%s\', \'%s\', \'%s\', %d, _)">' % (n[1], n[2], n[3], n[4])
    if k == 'einfo':
        return EINFO_SRC[n[2]] % {'id': n[1]}
    if k == 'via':
        return _via_src(n, to_src)
    if k == 'vraise':
        mode, var = n[1], n[2]
        if mode == 'expr':
            head = '<dtml-raise expr="cv_%s">' % var
        elif mode == 'qexpr':
            head = '<dtml-raise "cv_%s">' % var
        elif mode == 'cls':
            head = '<dtml-raise expr="cls(cn_%s)">' % var
        else:
            raise ValueError(mode)
        return head + to_src(n[3]) + '</dtml-raise>'
    if k == 'vreturn':
        mode, var = n[1], n[2]
        if mode == 'name':
            return '<dtml-return dv_%s>' % var
        if mode == 'expr':
            return '<dtml-return expr="dv_%s">' % var
        if mode == 'qexpr':
            return '<dtml-return "dv_%s">' % var
        raise ValueError(mode)
    if k == 'vboom':
        if style == 'name':
            return '<dtml-var X_%s>' % n[1]
        return '<dtml-var "vboom(\'%s\', \'%s\', _)">' % (n[1], n[2])
    if k == 'vif':
        r = '<dtml-if tf_%s>' % n[1] + to_src(n[2])
        if n[3] is not None:
            r += '<dtml-else>' + to_src(n[3])
        return r + '</dtml-if>'
    if k == 'vin':
        return '<dtml-in rows_%s mapping>' % n[1] + to_src(n[2]) + '</dtml-in>'
    if k == 'raise':
        mode, name, body = n[1], n[2], n[3]
        if mode == 'name':
            head = '<dtml-raise %s>' % name
        elif mode == 'type':
            head = '<dtml-raise type="%s">' % name
        elif mode == 'expr':
            head = '<dtml-raise expr="%s">' % name
        elif mode == 'qexpr':
            head = '<dtml-raise "%s">' % name
        elif mode == 'cls':
            head = '<dtml-raise expr="cls(\'%s\')">' % name
        else:
            raise ValueError(mode)
        return head + to_src(body) + '</dtml-raise>'
    if k == 'return':
        mode, key = n[1], n[2]
        if mode == 'name':
            return '<dtml-return rv_%s>' % key
        if mode == 'nameattr':
            return '<dtml-return name="rv_%s">' % key
        if mode == 'expr':
            return '<dtml-return expr="rv_%s">' % key
        if mode == 'qexpr':
            return '<dtml-return "rv_%s">' % key
        if mode == 'lit':
            return '<dtml-return "%s">' % RV_LIT[key]
        raise ValueError(mode)
    if k == 'try':
        s = '<dtml-try>' + to_src(n[1])
        for names, block in n[2]:
            s += '<dtml-except%s>' % ''.join(' ' + x for x in names if x) + to_src(block)
        if n[3] is not None:
            s += '<dtml-else>' + to_src(n[3])
        return s + '</dtml-try>'
    if k == 'tryfin':
        return '<dtml-try>' + to_src(n[1]) + '<dtml-finally>' + to_src(n[2]) + '</dtml-try>'
    if k == 'in':
        s = '<dtml-in seq%d>' % n[1] + to_src(n[2])
        if n[3] is not None:
            s += '<dtml-else>' + to_src(n[3])
        return s + '</dtml-in>'
    if k == 'with':
        return WITH_SRC[with_variant(n)] + to_src(n[1]) + '</dtml-with>'
    if k == 'let':
        return '<dtml-let lx="1">' + to_src(n[1]) + '</dtml-let>'
    if k == 'if':
        s = '<dtml-if %s>' % ('t_true' if n[1] else 't_false') + to_src(n[2])
        if n[3] is not None:
            s += '<dtml-else>' + to_src(n[3])
        return s + '</dtml-if>'
    if k == 'unless':
        return '<dtml-unless %s>' % ('t_true' if n[1] else 't_false') + to_src(n[2]) + '</dtml-unless>'
    if k == 'comment':
        return '<dtml-comment>' + to_src(n[1]) + '</dtml-comment>'
    if k == 'sub':
        if n[2] == 'var':
            return '<dtml-var sub_%s>' % n[1]
        if n[2] == 'fresh':
            if style == 'name':
                return '<dtml-var F_%s>' % n[1]
            return '<dtml-var "callfresh(\'%s\', _)">' % n[1]
        if style == 'name':
            return '<dtml-var C_%s>' % n[1]
        return '<dtml-var "callsub(\'%s\', _)">' % n[1]
    raise ValueError('unknown node %r' % (n,))


# ---------------------------------------------------------------- carriers
# Tags (other than a plain <dtml-var name>) that evaluate a name / an expression.  A raising
# callable or sub-template is an ordinary call in that position.
CARRIERS = ['var', 'varnull', 'varsize', 'entity', 'call', 'if', 'elif', 'unless', 'in', 'with', 'let',
            'return']
BLOCK_CARRIERS = ['if', 'elif', 'unless', 'in', 'with', 'let']
HOMES = ['top', 'withobj', 'withmap', 'rowmap', 'rowobj']
HOME_SRC = {'top': ('', ''),
            'withobj': ('<dtml-with hobj_%s>', '</dtml-with>'),
            'withmap': ('<dtml-with hmap_%s mapping>', '</dtml-with>'),
            'rowmap': ('<dtml-in hrows_%s mapping>', '</dtml-in>'),
            'rowobj': ('<dtml-in hitems_%s>', '</dtml-in>')}
NULL_TEXT = 'NUL'


def carrier_forms(carrier):
    if carrier == 'entity':
        return ['name']                 # &dtml-name; takes a name only
    if carrier == 'let':
        return ['name', 'qexpr']        # dtml-let v=name | v="expr"
    return ['name', 'expr', 'qexpr']


def target_name(t):
    """Namespace name under which a target is rendered by name."""
    k = t[0]
    if k == 'probe':
        return 'P_' + t[1]
    if k in ('boom', 'vboom'):
        return 'X_' + t[1]
    if k == 'pboom':
        return 'PB_' + t[1]
    if k == 'sub':
        return {'var': 'sub_', 'call': 'C_', 'fresh': 'F_'}[t[2]] + t[1]
    raise ValueError('not a target %r' % (t,))


PROTO_OF = {'var': 'str', 'varnull': 'str', 'varsize': 'str', 'entity': 'str',
            'if': 'bool', 'elif': 'bool', 'unless': 'bool', 'in': 'seq'}


def target_expr(t):
    """Expression calling the target (the text used by probe style 'expr' too)."""
    k = t[0]
    if k == 'probe':
        return "probe('%s', _)" % t[1]
    if k == 'boom':
        return "boom('%s', '%s', '%s', %d, _)" % (t[1], t[2], t[3], t[4])
    if k == 'vboom':
        return "vboom('%s', '%s', _)" % (t[1], t[2])
    if k == 'pboom':
        return 'PB_' + t[1]                  # the value itself: the tag applies the protocol
    if k == 'sub':
        if t[2] == 'var':
            return "_['sub_%s']" % t[1]      # namespace item access calls the template
        return "%s('%s', _)" % ('callsub' if t[2] == 'call' else 'callfresh', t[1])
    raise ValueError('not a target %r' % (t,))


def via_name(n):
    """Name the carrier tag of a name-form via node refers to: dtml-in needs a sequence and
    dtml-with an object, so the harness offers L<name> (one-element list of the target's value)
    and O<name> (an object holding it) for those."""
    nm = target_name(n[4])
    if n[4][0] == 'pboom':
        return nm
    if n[1] == 'in':
        return 'L' + nm
    if n[1] == 'with':
        return 'O' + nm
    return nm


def _via_src(n, to_src):
    carrier, form, home, t, body, els = n[1:7]
    if form == 'name':
        ref = lref = via_name(n)
    else:
        ex = target_expr(t)
        if t[0] == 'pboom':
            pass
        elif carrier == 'in':
            ex = '[%s]' % ex
        elif carrier == 'with':
            ex = 'box(%s)' % ex
        ref = ('expr="%s"' if form == 'expr' else '"%s"') % ex
        lref = '"%s"' % ex
    b = to_src(body) if body is not None else ''
    e = '<dtml-else>' + to_src(els) if els is not None else ''
    if carrier == 'var':
        s = '<dtml-var %s>' % ref
    elif carrier == 'varnull':
        s = '<dtml-var %s null="%s">' % (ref, NULL_TEXT)
    elif carrier == 'varsize':
        s = '<dtml-var %s size=99999>' % ref
    elif carrier == 'entity':
        s = '&dtml-%s;' % ref
    elif carrier == 'call':
        s = '<dtml-call %s>' % ref
    elif carrier == 'if':
        s = '<dtml-if %s>%s%s</dtml-if>' % (ref, b, e)
    elif carrier == 'elif':
        s = '<dtml-if t_false>[no]<dtml-elif %s>%s%s</dtml-if>' % (ref, b, e)
    elif carrier == 'unless':
        s = '<dtml-unless %s>%s</dtml-unless>' % (ref, b)
    elif carrier == 'in':
        s = '<dtml-in %s>%s</dtml-in>' % (ref, b)
    elif carrier == 'with':
        s = '<dtml-with %s>%s</dtml-with>' % (ref, b)
    elif carrier == 'let':
        s = '<dtml-let lv=%s>%s</dtml-let>' % (lref, b)
    elif carrier == 'return':
        s = '<dtml-return %s>' % ref
    else:
        raise ValueError(carrier)
    pre, post = HOME_SRC[home if form == 'name' else 'top']
    return (pre % via_name(n) if pre else '') + s + post


# dtml-with spellings.  wobj: an object without the names a block needs; wmap: a small mapping;
# ns_obj / ns_map: an object / a mapping holding the whole top-level namespace of this render.
WITH_SRC = {'obj': '<dtml-with wobj>',
            'map': '<dtml-with wmap mapping>',
            'only': '<dtml-with ns_obj only>',
            'maponly': '<dtml-with ns_map mapping only>',
            'expronly': '<dtml-with expr="ns_obj" only>',
            'exprmaponly': '<dtml-with "ns_map" mapping only>'}
WITH_ONLY = ['only', 'maponly', 'expronly', 'exprmaponly']


def with_variant(n):
    return n[2] if len(n) > 2 else 'obj'


def with_kind(n):
    return 'with only' if with_variant(n) in WITH_ONLY else 'with'


# the template reads the handler variables itself; every form is guarded so that it renders
# '[-]' where error_type is not bound (the statement: bound inside the handler only)
EFORMS = ['var', 'expr', 'tb', 'ifexpr', 'item']
EINFO_SRC = {
    'var': '<dtml-if error_type>[<dtml-var error_type>|<dtml-var error_value>]<dtml-else>[-]</dtml-if>',
    'expr': '<dtml-if "_.has_key(\'error_type\')">'
            '<dtml-var "elog(\'%(id)s\', error_type, error_value, error_tb)"><dtml-else>[-]</dtml-if>',
    'tb': '<dtml-if error_type><dtml-if error_tb>[tb]<dtml-else>[notb]</dtml-if><dtml-else>[-]</dtml-if>',
    'ifexpr': '<dtml-if error_type><dtml-if "error_type == \'E2\'">[is]<dtml-else>[isnt]</dtml-if>'
              '<dtml-else>[-]</dtml-if>',
    'item': '<dtml-if error_type>[<dtml-var "_[\'error_type\']">]<dtml-else>[-]</dtml-if>',
}
WILD = '\x00'       # in a model text: "any text" (the statement does not fix it)


def text_eq(exp, got):
    """Model text against engine text; WILD in the model text matches anything."""
    if not isinstance(exp, str) or WILD not in exp:
        return exp == got
    if not isinstance(got, str):
        return False
    import re
    return re.fullmatch('.*'.join(re.escape(x) for x in exp.split(WILD)), got, re.S) is not None


def enc_eq(exp, got):
    """enc() codes of a model value and an engine value."""
    if exp == got:
        return True
    if exp.startswith('str:') and got.startswith('str:') and repr(WILD)[1:-1] in exp:
        import ast
        return text_eq(ast.literal_eval(exp[4:]), ast.literal_eval(got[4:]))
    return False


def children(n):
    """(role, block) pairs of the sub-blocks of a node."""
    k = n[0]
    if k in ('raise', 'vraise'):
        return [('raise body', n[3])]
    if k == 'via':
        out = [('via target', [n[4]])]
        role = {'if': 'if', 'elif': 'if', 'unless': 'unless', 'in': 'in', 'with': 'with', 'let': 'let'}
        if n[5] is not None:
            out.append((role[n[1]], n[5]))
        if n[6] is not None:
            out.append(('if else', n[6]))
        return out
    if k == 'vif':
        out = [('if', n[2])]
        if n[3] is not None:
            out.append(('if else', n[3]))
        return out
    if k == 'vin':
        return [('in', n[2])]
    if k == 'try':
        out = [('try body', n[1])]
        out += [('except', b) for _, b in n[2]]
        if n[3] is not None:
            out.append(('else', n[3]))
        return out
    if k == 'tryfin':
        return [('try body', n[1]), ('finally', n[2])]
    if k == 'in':
        out = [('in', n[2])]
        if n[3] is not None:
            out.append(('in else', n[3]))
        return out
    if k == 'with':
        return [(with_kind(n), n[1])]
    if k in ('let', 'comment'):
        return [(k, n[1])]
    if k == 'if':
        out = [('if', n[2])]
        if n[3] is not None:
            out.append(('if else', n[3]))
        return out
    if k == 'unless':
        return [('unless', n[2])]
    return []


def walk(nodes, inside=()):
    """Yield (node, tuple of lexically enclosing roles) for every node of a block."""
    for n in nodes:
        yield n, inside
        for role, block in children(n):
            yield from walk(block, inside + (role,))


def has_return_in_raise_body(case):
    """Classifier input: is a dtml-return lexically inside a dtml-raise body (same template)?"""
    for tree in [case['tree']] + list(case.get('subs', {}).values()):
        for n, inside in walk(tree):
            if n[0] in ('return', 'vreturn') and 'raise body' in inside and 'comment' not in inside:
                return True
    return False


def has_fallible_raise_body(case):
    """Does some raise body contain anything that can raise (statement silent on that)?"""
    for tree in [case['tree']] + list(case.get('subs', {}).values()):
        for n, inside in walk(tree):
            if 'raise body' in inside and n[0] in ('raise', 'boom', 'sub', 'vraise', 'vboom', 'pboom'):
                return True
    return False


def try_depth(nodes):
    d = 0
    for n in nodes:
        inner = max([try_depth(b) for _, b in children(n)] or [0])
        d = max(d, inner + (1 if n[0] in ('try', 'tryfin') else 0))
    return d


# ---------------------------------------------------------------- reference interpreter
class MExc(Exception):
    """A modelled DTML-level exception (never a model bug: those are other classes)."""

    def __init__(self, cls, msg):
        Exception.__init__(self, cls.__name__, msg)
        self.cls = cls
        self.msg = msg


class MRet(BaseException):
    """A modelled dtml-return: not an exception for the handlers, exactly like Python's return."""

    def __init__(self, key, value=None):
        BaseException.__init__(self, key)
        self.key = key
        self.value = RV[key] if key is not None else value


def handler_matches(names, cls):
    """A handler names the class or any base class, or is bare (statement)."""
    mro = [c.__name__ for c in cls.__mro__]
    for nm in names:
        if nm == '' or nm in mro:
            return True
    return False


class Model:
    """Python-semantics interpreter.  pol_exc / pol_ret: what an exception / a return raised
    while rendering a dtml-raise *body* does: 'propagate' (Python-like) or 'mask' (the raise
    tag raises its own class with a placeholder message).  The statement fixes pol_ret =
    'propagate' ("from any nesting depth") and is silent about pol_exc."""

    MASK_MSG = 'Invalid Error Value'

    def __init__(self, case, pol_exc='propagate', pol_ret='propagate', env=None):
        self.case = case
        self.scopes = [env or {}]
        self.varied = {}        # id(node) -> what this tag object did in each activation
        self.subs = case.get('subs', {})
        self.pol_exc = pol_exc
        self.pol_ret = pol_ret
        self.trace = []
        self.bind = []          # dynamic stack of (class name, message) bound by handlers
        self.kinds = []         # dynamic stack of enclosing block kinds (coverage only)
        self.booms = {}
        self.nact = 0
        self.stats = {}
        self.inside = {'return': {}, 'raise': {}}

    def stat(self, k):
        self.stats[k] = self.stats.get(k, 0) + 1

    # -- entry
    def run(self):
        try:
            out = ['val', enc(self.call(self.case['tree']))]
        except MExc as e:
            out = ['exc', e.cls.__name__, e.msg]
        return out, self.trace

    def call(self, nodes):
        """One template call: a return ends it and becomes its value (of any type)."""
        try:
            return self.block(nodes)
        except MRet as r:
            self.stat('call ended by return')
            return r.value

    def block(self, nodes, kind=None):
        self.nact += 1
        tok = self.nact
        if kind:
            self.kinds.append(kind)
        try:
            return ''.join([self.node(n, tok) for n in nodes])
        finally:
            if kind:
                self.kinds.pop()

    def note_inside(self, what):
        t = self.inside[what]
        for k in set(self.kinds):
            t[k] = t.get(k, 0) + 1
        if not self.kinds:
            t['top level'] = t.get('top level', 0) + 1

    def cur(self):
        # None on top of the stack: the block is rendered in a namespace of its own, in which
        # nothing bound by an enclosing handler exists
        return list(self.bind[-1]) if self.bind and self.bind[-1] is not None else None

    def fresh(self, f):
        """Run f() in a NEW namespace that holds only the top-level namespace of this render
        (dtml-with ... only; a sub-template called with a plain mapping): loop rows and handler
        bindings of the enclosing blocks are not visible there, and come back afterwards."""
        saved = self.scopes
        self.scopes = [saved[0]]
        self.bind.append(None)
        try:
            return f()
        finally:
            self.bind.pop()
            self.scopes = saved

    def do_einfo(self, n, tok):
        """The template reads error_type / error_value / error_tb itself."""
        b = self.cur()
        form = n[2]
        if b is None:
            self.stat('einfo: error_type not bound here (form %s)' % form)
            return '[-]'
        self.stat('einfo: handler variables read by form ' + form)
        cls, msg = b
        k = resolve(cls)
        if form == 'var':
            # dtml-var of the exception instance: its message where str(exception) is the message
            # (the statement does not say how an exception object is turned into text otherwise)
            exact = k is not None and isinstance(msg, str) and WILD not in msg and str(k(msg)) == msg
            return '[%s|%s]' % (cls if k is not None else WILD, msg if exact else WILD)
        if form == 'expr':
            self.trace.append(['e', n[1], b, tok])
            return '[e]'
        if form == 'tb':
            return '[tb]'
        if form == 'ifexpr':
            return '[is]' if cls == 'E2' else '[isnt]'
        if form == 'item':
            return '[%s]' % (cls if k is not None else WILD)
        raise ValueError(form)

    def lookup(self, key):
        """Innermost scope defining the variable (None = not defined there)."""
        for sc in reversed(self.scopes):
            if sc.get(key) is not None:
                return sc[key]
        return None

    def did(self, n, what):
        self.varied.setdefault(id(n), []).append(what)

    # -- nodes
    def node(self, n, tok):
        k = n[0]
        if k == 'text':
            return n[1]
        if k == 'probe':
            self.trace.append(['p', n[1], self.cur(), tok])
            return '{%s}' % n[1]
        if k == 'einfo':
            return self.do_einfo(n, tok)
        if k == 'via':
            return self.do_via(n)
        if k == 'boom':
            c = self.booms[n[1]] = self.booms.get(n[1], 0) + 1
            self.trace.append(['b', n[1], self.cur(), tok])
            if n[4] == 0 or c == n[4]:
                self.note_inside('raise')
                self.stat('raise by namespace callable')
                raise MExc(resolve(n[2]), n[3])
            return '{%s}' % n[1]
        if k == 'raise':
            return self.do_raise(n, n[1], n[2])
        if k == 'vraise':
            self.stat('raise of a class computed from per-activation data')
            return self.do_raise(n, n[1], self.lookup('cv_' + n[2]))
        if k == 'vreturn':
            key = self.lookup('dv_' + n[2])
            self.note_inside('return')
            self.stat('return value ' + key)
            self.stat('return of per-activation data')
            self.did(n, key)
            raise MRet(key)
        if k == 'vboom':
            name = self.lookup('bx_' + n[2])
            self.trace.append(['b', n[1], self.cur(), tok])
            self.did(n, name or '')
            if name:
                self.note_inside('raise')
                self.stat('raise by namespace callable')
                raise MExc(resolve(name), 'm-' + n[1])
            return '{%s}' % n[1]
        if k == 'vif':
            if self.lookup('tf_' + n[1]):
                return self.block(n[2], 'if')
            return self.block(n[3], 'if else') if n[3] is not None else ''
        if k == 'vin':
            out = []
            for row in (self.lookup('rows_' + n[1]) or []):
                self.scopes.append(row)
                try:
                    out.append(self.block(n[2], 'in'))
                finally:
                    self.scopes.pop()
            return ''.join(out)
        if k == 'return':
            self.note_inside('return')
            self.stat('return value ' + n[2])
            self.stat('return mode ' + n[1])
            raise MRet(n[2])
        if k == 'try':
            return self.do_try(n)
        if k == 'tryfin':
            return self.do_tryfin(n)
        if k == 'in':
            if n[1] == 0:
                return self.block(n[3], 'in else') if n[3] is not None else ''
            return ''.join([self.block(n[2], 'in') for _ in range(n[1])])
        if k == 'with':
            v = with_variant(n)
            self.stat('with spelling ' + v)
            if v in WITH_ONLY:
                return self.fresh(lambda: self.block(n[1], 'with only'))
            return self.block(n[1], 'with')
        if k == 'let':
            return self.block(n[1], k)
        if k == 'if':
            if n[1]:
                return self.block(n[2], 'if')
            return self.block(n[3], 'if else') if n[3] is not None else ''
        if k == 'unless':
            return self.block(n[2], 'unless') if not n[1] else ''
        if k == 'comment':
            return ''
        if k == 'sub':
            return self.do_sub(n)
        raise ValueError('unknown node %r' % (n,))

    def do_via(self, n):
        """A harness object evaluated by a tag other than a plain dtml-var.  The target is a call
        in the expression position of the Python statement of the same name (``if f():``,
        ``for x in [f()]:``, ``return f()``, a bare ``f()`` for dtml-call ...): what it raises
        propagates from there, what it gives decides / is inserted / is returned."""
        carrier, form, home, target, body, els = n[1:7]
        if form != 'name':
            home = 'top'
        self.nact += 1
        tok = self.nact         # the tag may evaluate its target at a stack depth of its own
        try:
            if target[0] == 'sub':
                val = self.do_sub(target, raw=True)
            elif target[0] == 'pboom':
                # a value whose text / truth / items the tag needs, and asking for them raises
                proto = PROTO_OF[carrier]
                if proto == 'seq':
                    self.block(body, 'in')          # the first item is fine
                self.trace.append(['o', target[1], proto])
                self.note_inside('raise')
                self.stat('raise by a value the tag asks for its ' + proto)
                raise MExc(resolve(target[2]), target[3])
            else:
                val = self.node(target, tok)
        except MExc:
            self.stat('via: target raised, carrier %s/%s' % (carrier, form))
            self.stat('via: target raised, found in ' + home)
            raise
        self.stat('via: target gave a value, carrier %s/%s' % (carrier, form))
        self.stat('via: target gave a value, found in ' + home)
        if carrier in ('var', 'varsize', 'entity'):
            return val if isinstance(val, str) else str(val)
        if carrier == 'varnull':
            # DT_Var docstring: null values are None, or false values whose text is empty
            if val is None or (not val and str(val) == ''):
                self.stat('via: null text inserted')
                return NULL_TEXT
            if not val and val != 0:
                return WILD         # false, text not empty, not zero: the documentation is unclear
            return val if isinstance(val, str) else str(val)
        if carrier == 'call':
            return ''
        if carrier in ('if', 'elif'):
            self.stat('via: condition %s' % bool(val))
            if val:
                return self.block(body, 'if')
            return self.block(els, 'if else') if els is not None else ''
        if carrier == 'unless':
            self.stat('via: condition %s' % bool(val))
            return self.block(body, 'unless') if not val else ''
        if carrier == 'in':
            return self.block(body, 'in')           # a sequence of one item
        if carrier in ('with', 'let'):
            return self.block(body, carrier)
        if carrier == 'return':
            self.note_inside('return')
            self.stat('return of a value computed by a harness call')
            raise MRet(None, val)
        raise ValueError(carrier)

    def do_raise(self, n, mode, name):
        cls = resolve(name) if name else None
        if cls is None:
            cls = Unknown
        self.did(n, cls.__name__)
        try:
            msg = self.block(n[3], 'raise body')
        except MExc:
            self.stat('exception inside raise body (statement silent)')
            if self.pol_exc == 'propagate':
                raise
            msg = self.MASK_MSG
        except MRet:
            self.stat('return inside raise body')
            if self.pol_ret == 'propagate':
                raise
            msg = self.MASK_MSG
        self.note_inside('raise')
        self.stat('raise mode ' + mode)
        if cls is Unknown:
            self.stat('raise class unknown name')
        elif name in CUSTOM:
            self.stat('raise class custom')
        elif name in ZEXC_NAMES:
            self.stat('raise class zExceptions')
        else:
            self.stat('raise class builtin')
        raise MExc(cls, msg)

    def do_try(self, n):
        body, handlers, els = n[1], n[2], n[3]
        try:
            out = self.block(body, 'try body')
        except MExc as e:
            chosen = None
            for i, (names, block) in enumerate(handlers):
                if handler_matches(names, e.cls):
                    chosen = i
                    break
            if chosen is None:
                self.stat('try: no handler matches, propagates')
                self.did(n, 'unhandled')
                raise
            names = handlers[chosen][0]
            self.did(n, 'handler %d' % chosen)
            if e.cls.__name__ in names:
                self.stat('try: handler chosen by exact name')
            elif '' in names and not handler_matches([x for x in names if x], e.cls):
                self.stat('try: handler chosen bare')
            else:
                self.stat('try: handler chosen by base-class name')
            self.stat('try: handler index %d of %d' % (chosen, len(handlers)))
            self.bind.append((e.cls.__name__, e.msg))
            try:
                try:
                    return self.block(handlers[chosen][1], 'except')
                except MExc:
                    self.stat('try: exception inside handler propagates')
                    raise
                except MRet:
                    self.stat('try: return inside handler')
                    raise
            finally:
                self.bind.pop()
        except MRet:
            self.stat('try: return passes the handlers')
            raise
        else:
            self.did(n, 'no exception')
            if els is None:
                self.stat('try: no exception, no else')
                return out
            self.stat('try: else rendered')
            try:
                return out + self.block(els, 'else')
            except MExc:
                self.stat('try: exception inside else propagates')
                raise

    def do_tryfin(self, n):
        pending = 'none'
        out = ''
        try:
            try:
                out = self.block(n[1], 'try body')
            except MExc:
                pending = 'exception'
                raise
            except MRet:
                pending = 'return'
                raise
        finally:
            try:
                fin = self.block(n[2], 'finally')
                self.stat('finally: pending %s, finally completes' % pending)
            except MExc:
                self.stat('finally: pending %s, finally raises' % pending)
                raise
            except MRet:
                self.stat('finally: pending %s, finally returns' % pending)
                raise
        return out + fin

    def do_sub(self, n, raw=False):
        key, route = n[1], n[2]
        self.stat('sub-template call route ' + route)
        self.kinds.append('sub-template')
        try:
            if route != 'var':
                self.trace.append(['sub>', key])
            try:
                if route == 'fresh':
                    res = self.fresh(lambda: self.call(self.subs[key]))
                else:
                    res = self.call(self.subs[key])
            except MExc as e:
                if route != 'var':
                    self.trace.append(['sub<', key, ['exc', e.cls.__name__, e.msg]])
                raise
        finally:
            self.kinds.pop()
        if route != 'var':
            self.trace.append(['sub<', key, ['val', enc(res)]])
        if raw:
            # the value the evaluating tag gets: the call result itself when the namespace calls
            # the template, the harness wrapper's text (type marker for non-strings) otherwise
            return res if route == 'var' or isinstance(res, str) else '<%s>' % type(res).__name__
        return sub_text(res, route)


def sub_text(v, route):
    """What a sub-template call contributes to the caller's text: dtml-var of the sub-template
    inserts str(value); the harness route inserts a type marker for non-strings."""
    if isinstance(v, str):
        return v
    return str(v) if route == 'var' else '<%s>' % type(v).__name__


# ---------------------------------------------------------------- generators
HNAMES = ['E1', 'E2', 'E3', 'Other', '']
RAISED = [None, 'E1', 'E2', 'E3', 'Other']


class Ids:
    def __init__(self):
        self.n = 0

    def __call__(self, prefix='p'):
        self.n += 1
        return '%s%d' % (prefix, self.n)


def einfo(ids):
    """A node in which the template itself reads the handler variables; the form rotates with
    the position in the template, so every form meets every role across a grid."""
    i = ids('i')
    return ['einfo', i, EFORMS[ids.n % len(EFORMS)]]


def only_variant(ids, rot=None):
    return WITH_ONLY[(ids.n + (rot or 0)) % len(WITH_ONLY)]


def raiser(ids, cls, how, tag):
    """A node raising class `cls` with message 'm-<tag>'."""
    msg = 'm-' + tag
    if how == 'boom':
        return ['boom', ids('x'), cls, msg, 0]
    if how == 'cls':
        return ['raise', 'cls', cls, [['text', msg]]]
    if how == 'qexpr':
        return ['raise', 'qexpr', cls, [['text', msg]]]
    return ['raise', 'expr', cls, [['text', 'm-'], ['probe', ids('r')], ['text', tag]]] \
        if how == 'exprp' else ['raise', 'expr', cls, [['text', msg]]]


HOWS = ['expr', 'boom', 'cls', 'qexpr', 'exprp']
WRAPPERS = ['none', 'outer_E2_bare', 'outer_fin', 'in2', 'in_handler', 'sub', 'with_only',
            'handler_with_only']


def wrap(ids, nodes, wrapper, subs):
    """Put a block into an outer context (nesting depth 2)."""
    if wrapper == 'none':
        return [['probe', ids()]] + nodes + [['probe', ids()]]
    if wrapper == 'outer_E2_bare':
        return [['probe', ids()],
                ['try', [['probe', ids()]] + nodes + [['probe', ids()]],
                 [[['E2'], [['text', 'O2:'], ['probe', ids('o')], einfo(ids)]],
                  [[''], [['text', 'OB:'], ['probe', ids('o')], einfo(ids)]]],
                 [['text', 'OE:'], ['probe', ids('o')], einfo(ids)]],
                ['probe', ids()]]
    if wrapper == 'outer_fin':
        return [['probe', ids()],
                ['tryfin', [['probe', ids()]] + nodes + [['probe', ids()]],
                 [['text', 'OF:'], ['probe', ids('f')], einfo(ids)]],
                ['probe', ids()]]
    if wrapper == 'in2':
        return [['probe', ids()], ['in', 2, [['probe', ids()]] + nodes + [['probe', ids()]], None],
                ['probe', ids()]]
    if wrapper == 'in_handler':
        return [['probe', ids()],
                ['try', [['boom', ids('x'), 'Other', 'm-outer', 0]],
                 [[['Other'], [['probe', ids()], einfo(ids)] + nodes + [['probe', ids()], einfo(ids)]]], None],
                ['probe', ids()]]
    if wrapper == 'sub':
        key = 'w%d' % len(subs)
        subs[key] = [['probe', ids()]] + nodes + [['probe', ids()]]
        return [['probe', ids()], ['sub', key, 'call'], ['text', '|'], ['probe', ids()]]
    if wrapper == 'with_only':
        # the whole construct is rendered in a namespace of its own
        return [['probe', ids()],
                ['with', [['probe', ids()]] + nodes + [['probe', ids()]], only_variant(ids)],
                ['probe', ids()]]
    if wrapper == 'handler_with_only':
        # inside a handler, but in a namespace of its own: the outer handler's variables are not
        # visible in there, and are visible again behind it
        return [['probe', ids()],
                ['try', [['boom', ids('x'), 'Other', 'm-outer', 0]],
                 [[['Other'], [['probe', ids()], einfo(ids),
                               ['with', [['probe', ids()], einfo(ids)] + nodes + [['probe', ids()]],
                                only_variant(ids)],
                               ['probe', ids()], einfo(ids)]]], None],
                ['probe', ids()]]
    raise ValueError(wrapper)


def handler_lists():
    """All handler lists of length <= 3 over {E1,E2,E3,Other,bare} with at most one bare
    (two bare handlers are a ParseError)."""
    out = [[]]
    import itertools
    for k in (1, 2, 3):
        for combo in itertools.product(HNAMES, repeat=k):
            if combo.count('') <= 1:
                out.append(list(combo))
    return out


def grid_handler_cases():
    """Exhaustive: handler list x raised class x secondary raise position/class x with-else.
    Yields (index, params); build with build_handler_case."""
    i = 0
    for hl in handler_lists():
        for body_cls in RAISED:
            for with_else in (0, 1):
                secs = [None]
                for hi in range(len(hl)):
                    secs += [('h', hi, c) for c in RAISED[1:]]
                if with_else:
                    secs += [('else', 0, c) for c in RAISED[1:]]
                for sec in secs:
                    yield i, (hl, body_cls, with_else, sec)
                    i += 1


def build_handler_case(params, how, wrapper, merge=False):
    hl, body_cls, with_else, sec = params
    ids = Ids()
    subs = {}
    body = [['text', 'B:'], ['probe', ids('b')], einfo(ids)]
    if body_cls:
        body.append(raiser(ids, body_cls, how, 'body'))
    body.append(['probe', ids('b')])
    handlers = []
    for hi, nm in enumerate(hl):
        blk = [['text', 'H%d:' % hi], ['probe', ids('h')], einfo(ids)]
        if sec and sec[0] == 'h' and sec[1] == hi:
            blk.append(raiser(ids, sec[2], HOWS[(HOWS.index(how) + 1) % len(HOWS)], 'h%d' % hi))
        blk.append(['probe', ids('h')])
        handlers.append([[nm], blk])
    if merge and len(handlers) >= 2 and hl[0] and hl[1]:
        # one except tag naming two classes: same block for both names
        handlers = [[handlers[0][0] + handlers[1][0], handlers[0][1]]] + handlers[2:]
    els = None
    if with_else:
        els = [['text', 'E:'], ['probe', ids('e')], einfo(ids)]
        if sec and sec[0] == 'else':
            els.append(raiser(ids, sec[2], HOWS[(HOWS.index(how) + 2) % len(HOWS)], 'else'))
        els.append(['probe', ids('e')])
    tree = wrap(ids, [['try', body, handlers, els], einfo(ids)], wrapper, subs)
    return {'part': 'handler-grid', 'tree': tree, 'subs': subs}


RET_KEYS = ['s', 'i', 'l', 'n', 'o', 'e', 'z']


def finally_actions():
    acts = [('none',), ('raise', 'E1', 'expr'), ('raise', 'E2', 'boom'), ('raise', 'Other', 'cls'),
            ('raise', 'KeyError', 'name')]
    acts += [('return', k, m) for k, m in (('s', 'name'), ('o', 'expr'), ('n', 'qexpr'), ('z', 'lit'),
                                             ('l', 'nameattr'))]
    return acts


def action_node(ids, act, tag):
    if act[0] == 'none':
        return []
    if act[0] == 'raise':
        if act[2] == 'name':
            return [['raise', 'name', act[1], [['text', 'm-' + tag]]]]
        return [raiser(ids, act[1], act[2], tag)]
    return [['return', act[2], act[1]]]


def grid_finally_cases():
    """Exhaustive: body action x finally action x wrapper for the try/finally form."""
    for ba in finally_actions():
        for fa in finally_actions():
            for w in WRAPPERS:
                ids = Ids()
                subs = {}
                body = [['text', 'B:'], ['probe', ids('b')]] + action_node(ids, ba, 'body') + [['probe', ids('b')]]
                fin = [['text', 'F:'], ['probe', ids('f')], einfo(ids)] + action_node(ids, fa, 'fin') \
                    + [['probe', ids('f')]]
                tree = wrap(ids, [['tryfin', body, fin]], w, subs)
                yield {'part': 'finally-grid', 'tree': tree, 'subs': subs}


# -- placement grid: return / raise inside every block kind
KINDS = ['in', 'in_else', 'with', 'let', 'if', 'if_else', 'unless', 'try_body', 'except', 'else',
         'try_body_fin', 'finally', 'finally_pending', 'raise_body', 'sub_var', 'sub_call', 'comment',
         'with_map', 'with_only', 'sub_fresh']
# one kind deep, every spelling of "only" is its own kind; deeper, 'with_only' rotates through them
KINDS_ONE = KINDS + ['with_only/' + v for v in WITH_ONLY]


def place(ids, kind, inner, subs, rot=None):
    """Nodes putting `inner` inside a block of the given kind."""
    blk = [['probe', ids()]] + inner + [['probe', ids()]]
    if kind == 'with_map':
        return [['with', blk, 'map']]
    if kind.startswith('with_only'):
        v = kind.split('/')[1] if '/' in kind else only_variant(ids, rot)
        return [['with', [einfo(ids)] + blk, v]]
    if kind == 'sub_fresh':
        key = 's%d' % len(subs)
        subs[key] = [einfo(ids)] + blk
        return [['sub', key, 'fresh'], ['text', '|']]
    if kind == 'in':
        return [['in', 2, blk, [['probe', ids()]]]]
    if kind == 'in_else':
        return [['in', 0, [['probe', ids()]], blk]]
    if kind == 'with':
        return [['with', blk]]
    if kind == 'let':
        return [['let', blk]]
    if kind == 'if':
        return [['if', 1, blk, [['probe', ids()]]]]
    if kind == 'if_else':
        return [['if', 0, [['probe', ids()]], blk]]
    if kind == 'unless':
        return [['unless', 0, blk]]
    if kind == 'try_body':
        return [['try', blk, [[['Other'], [['text', 'HO:'], ['probe', ids('h')]]]],
                 [['text', 'EL:'], ['probe', ids('e')]]]]
    if kind == 'except':
        return [['try', [['probe', ids()], ['boom', ids('x'), 'E1', 'm-k', 0]],
                 [[['Other'], [['probe', ids('h')]]], [['E2'], [einfo(ids)] + blk + [einfo(ids)]],
                  [[''], [['probe', ids('h')]]]], None]]
    if kind == 'else':
        return [['try', [['probe', ids()]], [[[''], [['probe', ids('h')]]]], blk]]
    if kind == 'try_body_fin':
        return [['tryfin', blk, [['text', 'FI:'], ['probe', ids('f')]]]]
    if kind == 'finally':
        return [['tryfin', [['probe', ids()]], blk]]
    if kind == 'finally_pending':
        return [['tryfin', [['probe', ids()], ['boom', ids('x'), 'E2', 'm-pend', 0]], [einfo(ids)] + blk]]
    if kind == 'raise_body':
        return [['raise', 'expr', 'E3', [['text', 'rb-']] + blk]]
    if kind in ('sub_var', 'sub_call'):
        key = 's%d' % len(subs)
        subs[key] = blk
        return [['sub', key, 'var' if kind == 'sub_var' else 'call'], ['text', '|']]
    if kind == 'comment':
        return [['comment', blk]]
    raise ValueError(kind)


def placement_actions():
    acts = []
    for k in RET_KEYS:
        for m in ('name', 'nameattr', 'expr', 'qexpr', 'lit'):
            if m == 'lit' and k == 'o':
                continue
            acts.append(('return', m, k))
    for mode, name in [('name', 'KeyError'), ('name', 'LookupError'), ('type', 'ValueError'),
                       ('name', 'ZeroDivisionError'), ('name', 'NotFound'), ('name', 'Redirect'),
                       ('type', 'BadRequest'), ('name', 'Unauthorized'),
                       ('name', 'NoSuchErrorAtAll'), ('type', 'Input Error'), ('expr', 'NoSuchErrorAtAll'),
                       ('expr', 'E1'), ('qexpr', 'E2'), ('cls', 'E3'), ('expr', 'Other'), ('cls', 'E12'),
                       ('expr', 'KeyError'), ('qexpr', 'IndexError')]:
        acts.append(('raise', mode, name))
    acts.append(('boom', 'E1'))
    acts.append(('boom', 'E12'))
    return acts


PCONTEXTS = ['top', 'try_bare_else', 'try_named', 'tryfin', 'in_loop', 'handler', 'sub_call']


def pcontext(ids, ctxname, nodes, subs):
    if ctxname == 'top':
        return [['probe', ids()]] + nodes + [['text', '.'], ['probe', ids()]]
    if ctxname == 'try_bare_else':
        return [['probe', ids()],
                ['try', [['probe', ids()]] + nodes + [['probe', ids()]],
                 [[['E2'], [['text', 'C2:'], ['probe', ids('c')], einfo(ids)]],
                  [[''], [['text', 'CB:'], ['probe', ids('c')], einfo(ids)]]],
                 [['text', 'CE:'], ['probe', ids('c')], einfo(ids)]],
                ['probe', ids()]]
    if ctxname == 'try_named':
        return [['probe', ids()],
                ['try', [['probe', ids()]] + nodes + [['probe', ids()]],
                 [[['ArithmeticError', 'LookupError'], [['text', 'CL:'], ['probe', ids('c')], einfo(ids)]],
                  [['HTTPException'], [['text', 'CH:'], ['probe', ids('c')], einfo(ids)]],
                  [['E3'], [['text', 'C3:'], ['probe', ids('c')], einfo(ids)]],
                  [['Other'], [['text', 'CO:'], ['probe', ids('c')], einfo(ids)]]],
                 None],
                ['probe', ids()]]
    if ctxname == 'tryfin':
        return [['probe', ids()],
                ['tryfin', [['probe', ids()]] + nodes + [['probe', ids()]],
                 [['text', 'CF:'], ['probe', ids('c')], einfo(ids)]],
                ['probe', ids()]]
    if ctxname == 'in_loop':
        return [['probe', ids()], ['in', 2, [['probe', ids()]] + nodes + [['probe', ids()]], None],
                ['probe', ids()]]
    if ctxname == 'handler':
        return [['probe', ids()],
                ['try', [['boom', ids('x'), 'Other', 'm-ctx', 0]],
                 [[['Other'], [['probe', ids()], einfo(ids)] + nodes + [['probe', ids()], einfo(ids)]]], None],
                ['probe', ids()]]
    if ctxname == 'sub_call':
        key = 'c%d' % len(subs)
        subs[key] = [['probe', ids()]] + nodes + [['probe', ids()]]
        return [['probe', ids()], ['sub', key, 'call'], ['text', '|'], ['probe', ids()]]
    raise ValueError(ctxname)


def build_placement(kinds, act, ctxname, rot=None):
    ids = Ids()
    subs = {}
    if act[0] == 'return':
        inner = [['return', act[1], act[2]]]
    elif act[0] == 'raise':
        inner = [['raise', act[1], act[2], [['text', 'm-'], ['probe', ids('r')], ['text', 'act']]]]
    else:
        inner = [['boom', ids('x'), act[1], 'm-act', 0]]
    for kind in reversed(kinds):          # kinds[0] is the outermost block
        inner = place(ids, kind, inner, subs, rot)
    tree = pcontext(ids, ctxname, inner, subs)
    return {'part': 'placement', 'tree': tree, 'subs': subs}


def placement_allowed(kinds, act, ctxname):
    """Unknown raise names: the class is not fixed by the statement, so they are used only
    where no handler name could tell classes apart (bare / custom names)."""
    if act[0] == 'raise' and resolve(act[2]) is None and ctxname == 'try_named':
        return False
    return True


# -- seeded random trees
class RandomTrees:
    HPOOL = ['E1', 'E2', 'E3', 'Other', 'E12', '', 'Exception', 'BaseException', 'object', 'DTReturn',
             'LookupError', 'KeyError', 'HTTPException', 'ValueError', 'NotFound']
    RPOOL = [('expr', 'E1'), ('expr', 'E2'), ('qexpr', 'E3'), ('cls', 'Other'), ('cls', 'E12'),
             ('name', 'KeyError'), ('type', 'IndexError'), ('name', 'ValueError'), ('name', 'NotFound'),
             ('type', 'BadRequest'), ('expr', 'KeyError'), ('name', 'LookupError')]

    def __init__(self, rng, depth, tdepth):
        self.rng = rng
        self.depth = depth
        self.tdepth = tdepth

    def case(self):
        self.ids = Ids()
        self.subs = {}
        self.size = 0
        tree = self.block(self.depth, self.tdepth, top=True)
        return {'part': 'random', 'tree': tree, 'subs': self.subs}

    def block(self, depth, tdepth, top=False, n=None):
        rng = self.rng
        n = n if n is not None else rng.choice([1, 1, 2, 2, 3])
        out = [['probe', self.ids()]]
        for _ in range(n):
            out.append(self.node(depth, tdepth, top))
            if rng.random() < 0.5:
                out.append(['probe', self.ids()])
        if rng.random() < 0.4:
            out.append(['text', rng.choice(['.', 'txt ', '-'])])
        return out

    def leaf(self):
        rng = self.rng
        r = rng.random()
        if r < 0.30:
            return ['boom', self.ids('x'), rng.choice(['E1', 'E2', 'E3', 'Other', 'E12', 'KeyError']),
                    'm-' + self.ids('m'), rng.choice([0, 0, 1, 2, 3])]
        if r < 0.60:
            mode, name = rng.choice(self.RPOOL)
            body = [['text', 'm-' + self.ids('m')]]
            if rng.random() < 0.3:
                body.append(['probe', self.ids('r')])
            return ['raise', mode, name, body]
        if r < 0.80:
            key = rng.choice(RET_KEYS)
            mode = rng.choice(['name', 'nameattr', 'expr', 'qexpr', 'lit'])
            if key == 'o' and mode == 'lit':
                mode = 'expr'
            return ['return', mode, key]
        if r < 0.87:
            return ['text', rng.choice(['t', 'some text ', '::'])]
        if r < 0.95:
            return ['einfo', self.ids('i'), rng.choice(EFORMS)]
        return ['probe', self.ids()]

    VIA_CLASSES = ['E1', 'E2', 'E3', 'Other', 'E12', 'KeyError', 'KeyError', 'IndexError', 'AttributeError',
                   'NameError', 'LookupError', 'ValueError', 'TypeError', 'NotFound']

    def via_simple_target(self, carrier=None):
        rng = self.rng
        if carrier in PROTO_OF and rng.random() < 0.15:
            return ['pboom', self.ids('o'), rng.choice(self.VIA_CLASSES), 'm-' + self.ids('m')]
        if rng.random() < 0.75:
            return ['boom', self.ids('x'), rng.choice(self.VIA_CLASSES), 'm-' + self.ids('m'),
                    rng.choice([0, 0, 0, 1, 2])]
        return ['probe', self.ids('t')]

    def via(self, depth, tdepth):
        """A harness object evaluated by some other tag than a plain dtml-var."""
        rng = self.rng
        self.size += 1
        carrier = rng.choice(CARRIERS)
        form = rng.choice(carrier_forms(carrier))
        home = rng.choice(HOMES) if form == 'name' and rng.random() < 0.5 else 'top'
        if depth > 0 and len(self.subs) < 3 and carrier != 'entity' and rng.random() < 0.3:
            key = 'r%d' % len(self.subs)
            self.subs[key] = None      # reserve
            self.subs[key] = self.block(depth - 1, tdepth)
            target = ['sub', key, rng.choice(['var', 'var', 'call', 'fresh'])]
        else:
            target = self.via_simple_target(carrier)
        body = els = None
        if carrier in BLOCK_CARRIERS:
            body = self.block(depth - 1, tdepth, n=1) if depth > 0 else [['probe', self.ids()]]
            if carrier in ('if', 'elif') and rng.random() < 0.4:
                els = [['probe', self.ids()]]
        return ['via', carrier, form, home, target, body, els]

    def node(self, depth, tdepth, top=False):
        rng = self.rng
        if self.size <= 40 and rng.random() < 0.10:
            return self.via(depth, tdepth)
        self.size += 1
        if depth <= 0 or self.size > 40 or (not top and rng.random() < 0.30):
            return self.leaf()
        r = rng.random()
        if r < 0.34 and tdepth > 0:
            nh = rng.choice([0, 1, 1, 2, 2, 3])
            handlers = []
            bare = False
            for _ in range(nh):
                names = [rng.choice(self.HPOOL) for _ in range(rng.choice([1, 1, 1, 2]))]
                if '' in names:
                    # a bare handler is a tag without names, and only one is allowed
                    if bare:
                        names = [x for x in names if x] or ['E2']
                    else:
                        bare = True
                        names = ['']
                hb = self.block(depth - 1, tdepth - 1)
                if rng.random() < 0.5:
                    hb.insert(rng.randrange(len(hb) + 1), ['einfo', self.ids('i'), rng.choice(EFORMS)])
                handlers.append([names, hb])
            els = self.block(depth - 1, tdepth - 1) if rng.random() < 0.5 else None
            return ['try', self.block(depth - 1, tdepth - 1), handlers, els]
        if r < 0.50 and tdepth > 0:
            return ['tryfin', self.block(depth - 1, tdepth - 1), self.block(depth - 1, tdepth - 1)]
        if r < 0.60:
            n = rng.choice([0, 1, 2, 3])
            return ['in', n, self.block(depth - 1, tdepth),
                    self.block(depth - 1, tdepth, n=1) if rng.random() < 0.4 else None]
        if r < 0.65:
            return ['with', self.block(depth - 1, tdepth),
                    rng.choice(['obj', 'map'] + WITH_ONLY + WITH_ONLY)]
        if r < 0.70:
            return ['let', self.block(depth - 1, tdepth)]
        if r < 0.78:
            return ['if', rng.choice([0, 1]), self.block(depth - 1, tdepth),
                    self.block(depth - 1, tdepth, n=1) if rng.random() < 0.5 else None]
        if r < 0.82:
            return ['unless', rng.choice([0, 1]), self.block(depth - 1, tdepth)]
        if r < 0.90 and len(self.subs) < 3:
            key = 'r%d' % len(self.subs)
            self.subs[key] = None      # reserve
            self.subs[key] = self.block(depth - 1, tdepth)
            return ['sub', key, rng.choice(['var', 'call', 'fresh'])]
        if r < 0.95:
            mode, name = rng.choice(self.RPOOL)
            return ['raise', mode, name, self.block(depth - 1, tdepth, n=1)]
        if r < 0.97:
            return ['comment', self.block(depth - 1, tdepth, n=1)]
        return self.leaf()


# ---------------------------------------------------------------- data-dependent workloads
# One compiled template, many activations of the same tag objects with different data:
# several renders with different environments, and dtml-in rows with different data.
VARS = ['a', 'b', 'c']
VCLS = ['E1', 'E2', 'E3', 'Other', 'E12', 'KeyError', 'IndexError', 'ValueError', 'NotFound']


def try_around(ids, body, hl, with_else, tag=''):
    handlers = [[[nm], [['text', 'H%d%s:' % (hi, tag)], ['probe', ids('h')], einfo(ids)]]
                for hi, nm in enumerate(hl)]
    els = [['text', 'E:'], ['probe', ids('e')], einfo(ids)] if with_else else None
    return ['try', [['text', 'B:'], ['probe', ids('b')]] + body + [['probe', ids('b')]], handlers, els]


def grid_rerender_cases():
    """Every handler list around a dtml-raise of a COMPUTED class; the one compiled template is
    (a) rendered 6 times with a different class each time (the first class rotates with the
    case index), (b) put in a loop whose rows carry the class, rendered with two row orders,
    (c) put into a dtml-with ... only block inside an outer handler, rendered 6 times."""
    modes = ['expr', 'qexpr', 'cls']
    seq = ['E1', 'E3', 'Other', 'E2', None, 'E12']
    for i, hl in enumerate(handler_lists()):
        mode = modes[i % 3]
        ids = Ids()
        vr = ['vraise', mode, 'a', [['text', 'm-'], ['probe', ids('r')], ['text', 'v']]]
        tree = [['probe', ids()], try_around(ids, [vr], hl, i % 2), ['probe', ids()]]
        rot = seq[i % 6:] + seq[:i % 6]
        yield {'part': 'rerender-grid', 'tree': tree, 'subs': {},
               'renders': [{'cv_a': c} for c in rot]}
        ids = Ids()
        vr = ['vraise', modes[(i + 1) % 3], 'a', [['text', 'm-loop']]]
        tree = [['probe', ids()],
                ['vin', 'a', [['probe', ids()], try_around(ids, [vr], hl, (i + 1) % 2), ['text', ','],
                              ['probe', ids()]]],
                ['probe', ids()]]
        rows1 = [{'cv_a': c} for c in rot]
        rows2 = [{'cv_a': c} for c in reversed(rot)]
        yield {'part': 'rerender-grid', 'tree': tree, 'subs': {},
               'renders': [{'rows_a': rows1}, {'rows_a': rows2}, {'rows_a': rows1[2:4]}]}
        # (c) the same try in a namespace of its own (dtml-with ... only), inside a handler of an
        # outer try: what the inner try binds / returns must not depend on the hidden outer state
        ids = Ids()
        vr = ['vraise', modes[(i + 2) % 3], 'a', [['text', 'm-only']]]
        inner = [['probe', ids()], try_around(ids, [vr], hl, i % 2), ['probe', ids()]]
        if i % 2:
            inner.append(['vif', 'r', [['vreturn', 'name', 'r']], None])
        tree = [['probe', ids()],
                ['try', [['boom', ids('x'), 'Other', 'm-outer', 0]],
                 [[['Other'], [['probe', ids()], ['with', inner, only_variant(ids, i)], einfo(ids)]]], None],
                ['probe', ids()]]
        yield {'part': 'rerender-grid', 'tree': tree, 'subs': {},
               'renders': [{'cv_a': c, 'tf_r': j % 2, 'dv_r': RET_KEYS[(i + j) % len(RET_KEYS)]}
                           for j, c in enumerate(rot)]}


def grid_loop_cases():
    """A loop whose per-iteration data decide what happens inside an enclosing try per iteration
    (whether to raise, which class, whether and what to return); one compiled template per
    (action, form), rendered with every row sequence of length 3 over the data choices."""
    import itertools
    actions = {
        'vboom': (lambda ids: [['vboom', ids('x'), 'a']],
                  [{'bx_a': ''}, {'bx_a': 'E1'}, {'bx_a': 'Other'}, {'bx_a': 'E3'}]),
        'vraise': (lambda ids: [['vraise', 'expr', 'a', [['text', 'm-it']]]],
                   [{'cv_a': 'E1'}, {'cv_a': 'E3'}, {'cv_a': 'Other'}, {'cv_a': None}]),
        'vif-raise': (lambda ids: [['vif', 'a', [['vraise', 'cls', 'b', [['text', 'm-if']]]], [['probe', ids()]]]],
                      [{'tf_a': 0, 'cv_b': 'E2'}, {'tf_a': 1, 'cv_b': 'E2'}, {'tf_a': 1, 'cv_b': 'Other'},
                       {'tf_a': 1, 'cv_b': 'KeyError'}]),
        'vif-return': (lambda ids: [['vif', 'a', [['vreturn', 'name', 'b']], None]],
                       [{'tf_a': 0, 'dv_b': 's'}, {'tf_a': 1, 'dv_b': 'i'}, {'tf_a': 1, 'dv_b': 'o'},
                        {'tf_a': 0, 'dv_b': 'n'}]),
        'handler-return': (lambda ids: [['vboom', ids('x'), 'a']],
                           [{'bx_a': '', 'tf_c': 0, 'dv_b': 's'}, {'bx_a': 'E1', 'tf_c': 0, 'dv_b': 'l'},
                            {'bx_a': 'E1', 'tf_c': 1, 'dv_b': 'z'}, {'bx_a': 'Other', 'tf_c': 1, 'dv_b': 'e'}]),
    }
    for aname, (mk, choices) in actions.items():
        for form in ('except', 'finally', 'except-in-finally'):
            ids = Ids()
            act = mk(ids)
            if form == 'except':
                hblock = [['text', 'H2:'], ['probe', ids('h')], einfo(ids)]
                if aname == 'handler-return':
                    hblock.append(['vif', 'c', [['vreturn', 'expr', 'b']], None])
                inner = ['try', [['probe', ids('b')]] + act + [['probe', ids('b')]],
                         [[['E2'], hblock],
                          [['Other', 'LookupError'], [['text', 'HO:'], ['probe', ids('h')], einfo(ids)]]],
                         [['text', 'E:'], ['probe', ids('e')], einfo(ids)]]
            elif form == 'finally':
                inner = ['try', [['tryfin', [['probe', ids('b')]] + act + [['probe', ids('b')]],
                                 [['text', 'F:'], ['probe', ids('f')], einfo(ids)]]],
                         [[[''], [['text', 'HB:'], ['probe', ids('h')], einfo(ids)]]], None]
            else:
                inner = ['tryfin',
                         [['try', [['probe', ids('b')]] + act + [['probe', ids('b')]],
                           [[['E1'], [['text', 'H1:'], ['probe', ids('h')], einfo(ids)]]], None]],
                         [['text', 'F:'], ['probe', ids('f')]]]
                inner = ['try', [inner], [[['Exception'], [['text', 'HX:'], ['probe', ids('h')], einfo(ids)]]], None]
            tree = [['probe', ids()], ['vin', 'a', [['probe', ids()], inner, ['text', ','], ['probe', ids()]]],
                    ['text', '.'], ['probe', ids()]]
            renders = [{'rows_a': [dict(r) for r in rows]} for rows in itertools.product(choices, repeat=3)]
            yield {'part': 'loop-grid', 'tree': tree, 'subs': {}, 'renders': renders}


# -- carrier grid: a raising / returning / completing harness object evaluated by every tag
# that evaluates names or expressions, found in every kind of namespace layer, at every position
# of a try
VIA_TARGETS = ['probe', 'boom:E2', 'boom:KeyError', 'boom:Other', 'boom:AttributeError', 'boom:NameError',
               'boom:IndexError', 'boom:LookupError', 'boom:TypeError', 'boom:NotFound', 'vboom',
               'sub-var:raise KeyError', 'sub-var:raise E1', 'sub-var:return z', 'sub-var:return o',
               'sub-var:return n', 'sub-var:return e', 'sub-var:text', 'sub-call:raise ValueError',
               'sub-call:return e', 'sub-call:text', 'sub-fresh:raise IndexError', 'sub-fresh:text',
               'proto:E2', 'proto:KeyError', 'proto:AttributeError']
VIA_POSITIONS = ['body', 'body-named', 'handler', 'else', 'finally', 'loop']
VIA_VBOOM_ENVS = [{'bx_a': ''}, {'bx_a': 'KeyError'}, {'bx_a': 'E1'}, {'bx_a': ''}, {'bx_a': 'AttributeError'}]


def via_target(ids, subs, tkind):
    """Target node of the named kind (sub-template bodies are registered in subs)."""
    what, _, arg = tkind.partition(':')
    if what == 'probe':
        return ['probe', ids('t')]
    if what == 'boom':
        return ['boom', ids('x'), arg, 'm-via', 0]
    if what == 'vboom':
        return ['vboom', ids('x'), 'a']
    if what == 'proto':
        return ['pboom', ids('o'), arg, 'm-proto']
    route = what.split('-')[1]
    key = 'v%d' % len(subs)
    verb, _, obj = arg.partition(' ')
    blk = [['text', 'S:'], ['probe', ids('s')]]
    if verb == 'raise':
        blk.append(['raise', 'name' if resolve(obj) and obj not in CUSTOM else 'expr', obj,
                    [['text', 'm-sub']]])
    elif verb == 'return':
        blk.append(['return', ('name', 'expr', 'qexpr', 'nameattr')[ids.n % 4], obj])
    else:
        # completes; catches something of its own on the way
        blk.append(['try', [['boom', ids('x'), 'E1', 'm-in', 0]], [[['E3'], [['text', 'sh:'], einfo(ids)]]], None])
    blk.append(['probe', ids('s')])
    subs[key] = blk
    return ['sub', key, route]


def via_allowed(carrier, form, home, tkind):
    if form != 'name' and home != 'top':
        return False
    if carrier == 'entity' and tkind.startswith('sub'):
        return False        # entity insertion quotes HTML; sub-template text is full of it
    if tkind.startswith('proto') and carrier not in PROTO_OF:
        return False        # nothing says that these tags need text / truth / items of the value
    return True


def build_carrier_case(carrier, form, home, tkind, pos, idx):
    ids = Ids()
    subs = {}
    target = via_target(ids, subs, tkind)
    body = els = None
    if carrier in BLOCK_CARRIERS:
        body = [['text', 'V:'], ['probe', ids('v')], einfo(ids)]
        if carrier in ('if', 'elif') and idx % 2:
            els = [['text', 'VE:'], ['probe', ids('v')]]
    via = ['via', carrier, form, home, target, body, els]
    blk = [['probe', ids()], via, ['text', ';'], ['probe', ids()]]

    def h(tag, names):
        return [names, [['text', tag + ':'], ['probe', ids('h')], einfo(ids)]]
    if pos == 'body':
        tree = [['try', [['text', 'B:']] + blk,
                 [h('HV', ['ValueError']), h('HL', ['LookupError']), h('H3', ['E3']), h('HB', [''])],
                 [['text', 'E:'], ['probe', ids('e')]]]]
    elif pos == 'body-named':
        # what no handler names must leave through the finally of the enclosing try
        tree = [['tryfin', [['try', [['text', 'B:']] + blk,
                             [h('HV', ['ValueError']), h('H3', ['E3', 'IndexError'])],
                             [['text', 'E:'], ['probe', ids('e')]]]],
                 [['text', 'F:'], ['probe', ids('f')], einfo(ids)]]]
    elif pos == 'handler':
        tree = [['try', [['try', [['boom', ids('x'), 'Other', 'm-outer', 0]],
                          [[['Other'], [['text', 'HO:'], einfo(ids)] + blk + [einfo(ids)]]], None]],
                 [h('HL', ['LookupError']), h('HB', [''])], None]]
    elif pos == 'else':
        tree = [['tryfin', [['try', [['probe', ids('b')]], [h('HB', [''])], [['text', 'E:']] + blk]],
                 [['text', 'F:'], ['probe', ids('f')]]]]
    elif pos == 'finally':
        tree = [['try', [['tryfin', [['probe', ids('b')], ['boom', ids('x'), 'E2', 'm-pend', 0]],
                          [['text', 'F:'], einfo(ids)] + blk]],
                 [h('H2', ['E2']), h('HK', ['KeyError', 'AttributeError']), h('HB', [''])], None]]
    elif pos == 'loop':
        tree = [['in', 2, [['try', [['text', 'B:']] + blk, [h('HL', ['LookupError']), h('HB', [''])],
                            [['text', 'E:'], ['probe', ids('e')]]], ['text', ',']], None]]
    else:
        raise ValueError(pos)
    case = {'part': 'carrier-grid', 'tree': [['probe', ids()]] + tree + [['text', '.'], ['probe', ids()]],
            'subs': subs}
    if tkind == 'vboom':
        r = idx % len(VIA_VBOOM_ENVS)
        case['renders'] = VIA_VBOOM_ENVS[r:] + VIA_VBOOM_ENVS[:r]
    return case


def grid_carrier_points():
    """(index, carrier, form, home, target kind): the full product; the position of the tag
    around a try is the sixth dimension (rotating with the index in the quick tier)."""
    i = 0
    for carrier in CARRIERS:
        for form in carrier_forms(carrier):
            for home in (HOMES if form == 'name' else ['top']):
                for tkind in VIA_TARGETS:
                    if via_allowed(carrier, form, home, tkind):
                        yield i, carrier, form, home, tkind
                        i += 1


def rand_env(rng, rows=True):
    env = {}
    for v in VARS:
        env['cv_' + v] = rng.choice(VCLS + [None]) if rows else rng.choice(VCLS + [None, None, None])
        env['dv_' + v] = rng.choice(RET_KEYS)
        env['bx_' + v] = rng.choice(['', '', '', '', 'E1', 'E2', 'Other', 'KeyError', 'E12', 'IndexError',
                                     'AttributeError'])
        env['tf_' + v] = rng.choice([0, 1])
        if rows:
            env['rows_' + v] = [rand_env(rng, rows=False) for _ in range(rng.choice([0, 1, 2, 3, 3]))]
    if not rows:
        # a row defines only some variables; the others are found in the enclosing scope
        for k in list(env):
            if rng.random() < 0.3:
                del env[k]
    return env


class RandomVarTrees(RandomTrees):
    """Random trees whose raises / returns / conditions / loops read per-activation data; each
    compiled template is rendered with several random environments."""

    def case(self, nrenders=3):
        c = RandomTrees.case(self)
        c['part'] = 'random-vars'
        c['renders'] = [rand_env(self.rng) for _ in range(nrenders)]
        return c

    def via_simple_target(self, carrier=None):
        if self.rng.random() < 0.5:
            return ['vboom', self.ids('x'), self.rng.choice(VARS)]
        return RandomTrees.via_simple_target(self, carrier)

    def leaf(self):
        rng = self.rng
        r = rng.random()
        if r < 0.25:
            return ['vboom', self.ids('x'), rng.choice(VARS)]
        if r < 0.45:
            body = [['text', 'm-' + self.ids('m')]]
            if rng.random() < 0.3:
                body.append(['probe', self.ids('r')])
            return ['vraise', rng.choice(['expr', 'qexpr', 'cls']), rng.choice(VARS), body]
        if r < 0.55:
            return ['vreturn', rng.choice(['name', 'expr', 'qexpr']), rng.choice(VARS)]
        return RandomTrees.leaf(self)

    def node(self, depth, tdepth, top=False):
        rng = self.rng
        if depth > 0 and self.size <= 40:
            r = rng.random()
            if r < 0.14:
                self.size += 1
                return ['vin', rng.choice(VARS), self.block(depth - 1, tdepth)]
            if r < 0.24:
                self.size += 1
                return ['vif', rng.choice(VARS), self.block(depth - 1, tdepth),
                        self.block(depth - 1, tdepth, n=1) if rng.random() < 0.5 else None]
        return RandomTrees.node(self, depth, tdepth, top)
