"""Structural normaliser of a cooked template's ``_v_blocks`` (DESIGN section 4, C07; reused by C01).

    normal(blocks)            -> JSON-able normal form of a block list
    normal_template(template) -> normal(template._v_blocks)   (cooks the template if necessary)
    diff(a, b)                -> None when equal, else a short path + the two differing sub-terms
    literal_tree(nf)          -> the literal text per nesting level (shape of printer.Printed.literals)
    tag_classes(nf)           -> set of compiled tag kinds occurring in the normal form

The normal form describes *what was compiled*, not how it was spelled:

    literal str                    -> ['text', s]
    ('v', name)                    -> ['var', ['name', name]]            simple form of <dtml-var>
    ('v', name, 'h')               -> ['var', ['name', name], 'h']       ... with html_quote
    ('v', Eval.eval)               -> ['var', ['expr', text]]            Eval -> its expression text
    ('i', c1, b1, c2, b2, [else])  -> ['cond', [c|blocks|None ...]]      if / elif / else, unless
                                       (conditions as ['name', n] / ['expr', text], bodies as
                                       ['blocks', [...]]), call = ['cond', [c, None]]
    bound method (In.renderwb...)  -> ['method', <object form>, method name]
    tag object                     -> ['obj', class name, [[attr, value form] ... sorted]]
                                      every instance attribute, except raw-source-only fields
                                      (RAW_ONLY: Let.__name__ holds the tag's argument text verbatim)
    a tag's parsed attribute dictionary ``args`` -> ['args', ['ref', 'name'|'expr', text] | None,
                                      [[attribute, value] ... sorted]]: the keys '' / 'name' / 'expr'
                                      only record WHICH documented spelling of the reference was
                                      written (x, name=x, "e", expr="e"); they are folded into one
                                      'ref' entry, every other attribute is kept as parsed
    attributes holding block lists (section, elses, elseBlock, finallyBlock) -> ['blocks', [...]];
    Try.handlers -> ['handlers', [[exception name, ['blocks', ...]] ...]]
    Eval instance -> ['Eval', text]; function -> ['func', name]; compiled regex -> ['re', pattern];
    dict -> ['dict', sorted items]; list/tuple -> ['list'|'tuple', items]; scalars as they are.

Only the engine's *objects* are inspected (duck-typed: no engine module is imported here), so the
module works on whichever checkout is on sys.path.
"""
import re
import types

BLOCK_ATTRS = ('section', 'elses', 'elseBlock', 'finallyBlock')
_BODY_ORDER = ('section', 'handlers', 'elses', 'elseBlock', 'finallyBlock')
RAW_ONLY = {'Let': ('__name__',)}
_RE_TYPE = type(re.compile(''))


def _is_eval(o):
    return type(o).__name__ == 'Eval' and hasattr(o, 'expr') and hasattr(o, 'eval')


def _ref(x):
    """Condition / simple-var operand: a name (str) or the bound eval of an expression."""
    if isinstance(x, str):
        return ['name', x]
    owner = getattr(x, '__self__', None)
    if owner is not None and _is_eval(owner):
        return ['expr', owner.expr]
    if _is_eval(x):
        return ['expr', x.expr]
    return ['opaque', _value(x)]


def _value(v, attr=None):
    if v is None or isinstance(v, (bool, int, float, str, bytes)):
        return v if not isinstance(v, bytes) else ['bytes', v.decode('latin-1')]
    if _is_eval(v):
        return ['Eval', v.expr]
    owner = getattr(v, '__self__', None)
    if owner is not None and isinstance(v, types.MethodType):
        if _is_eval(owner):
            return ['expr', owner.expr]
        return ['method', _obj(owner), v.__name__]
    if isinstance(v, (types.FunctionType, types.BuiltinFunctionType)):
        return ['func', v.__name__]
    if isinstance(v, _RE_TYPE):
        return ['re', v.pattern, v.flags]
    if isinstance(v, dict):
        return ['dict', sorted(([_value(k), _value(x)] for k, x in v.items()), key=repr)]
    if isinstance(v, (list, tuple)):
        return ['list' if isinstance(v, list) else 'tuple', [_value(x) for x in v]]
    if isinstance(v, type):
        return ['class', v.__name__]
    return _obj(v)


def _args(d):
    """A tag's parsed attribute dictionary with the *spelling* of the reference folded away.

    The documentation declares ``x`` / ``name=x`` and ``"e"`` / ``expr="e"`` to be the same thing; the
    parser keeps which one was written as the key '' / 'name' / 'expr'.  Those keys are replaced
    by one entry ['ref', kind, text]; all other attributes stay as parsed.
    """
    ref = None
    if 'expr' in d:
        e = d['expr']
        ref = ['ref', 'expr', e.expr if _is_eval(e) else e]
    elif '' in d:
        s = d['']
        if isinstance(s, str) and len(s) > 1 and s[:1] == '"' and s[-1:] == '"':
            ref = ['ref', 'expr', s[1:-1]]
        else:
            ref = ['ref', 'name', s]
    elif 'name' in d:
        ref = ['ref', 'name', d['name']]
    rest = sorted(([_value(k), _value(x)] for k, x in d.items() if k not in ('', 'name', 'expr')),
                  key=repr)
    # a dictionary holding BOTH a name and an expression (never legal) keeps the extra key visible
    if 'expr' in d and 'name' in d:
        rest.append(['name', _value(d['name'])])
    return ['args', ref, rest]


def _obj(o):
    cls = type(o).__name__
    skip = RAW_ONLY.get(cls, ())
    state = getattr(o, '__dict__', None)
    if state is None:
        return ['obj', cls, [['repr', repr(o)]]]
    items = []
    for k in sorted(state):
        if k in skip:
            continue
        v = state[k]
        if k in BLOCK_ATTRS and isinstance(v, list):
            items.append([k, ['blocks', normal(v)]])
        elif k == 'handlers' and isinstance(v, list):
            items.append([k, ['handlers', [[h[0], ['blocks', normal(h[1])]] for h in v]]])
        elif k == 'args' and isinstance(v, dict):
            items.append([k, _args(v)])
        else:
            items.append([k, _value(v, k)])
    return ['obj', cls, items]


def _block(b):
    if isinstance(b, (str, bytes)):
        return ['text', b if isinstance(b, str) else b.decode('latin-1')]
    if isinstance(b, tuple) and len(b) > 1 and isinstance(b[0], str):
        code = b[0]
        if code == 'v':
            out = ['var', _ref(b[1])]
            out.extend(b[2:])
            return out
        if code == 'i':
            parts = []
            # ('i', cond, body, cond, body, ..., [else]) : odd positions conditions, even bodies,
            # a trailing unpaired element is the else body
            rest = b[1:]
            i = 0
            while i < len(rest):
                if i + 1 < len(rest):
                    parts.append(_ref(rest[i]))
                    body = rest[i + 1]
                    parts.append(None if body is None else ['blocks', normal(body)])
                    i += 2
                else:
                    body = rest[i]
                    parts.append(None if body is None else ['blocks', normal(body)])
                    i += 1
            return ['cond', parts]
        return ['code', code, [_value(x) for x in b[1:]]]
    return _value(b)


def normal(blocks):
    """Normal form of a block list (``template._v_blocks`` or a tag's ``section``)."""
    return [_block(b) for b in blocks]


def normal_template(template):
    if not hasattr(template, '_v_blocks'):
        template.cook()
    return normal(template._v_blocks)


# --------------------------------------------------------------------------- comparison
def diff(a, b, path='$', limit=160):
    """None when a == b, else 'path: <a-term> != <b-term>' for the first difference (depth first)."""
    if a == b:
        return None
    if isinstance(a, list) and isinstance(b, list):
        if len(a) != len(b):
            return '%s: length %d != %d: %s != %s' % (path, len(a), len(b), _short(a, limit), _short(b, limit))
        for i, (x, y) in enumerate(zip(a, b)):
            d = diff(x, y, '%s[%s]' % (path, _label(a, i)), limit)
            if d:
                return d
    return '%s: %s != %s' % (path, _short(a, limit), _short(b, limit))


def _label(seq, i):
    x = seq[i]
    if isinstance(x, list) and x and isinstance(x[0], str) and len(x) == 2 and not isinstance(x[1], list):
        return '%d' % i
    if isinstance(x, list) and len(x) >= 2 and isinstance(x[0], str) and isinstance(x[1], str):
        return '%d:%s.%s' % (i, x[0], x[1])
    if isinstance(x, list) and x and isinstance(x[0], str):
        return '%d:%s' % (i, x[0])
    return '%d' % i


def _short(x, n):
    s = repr(x)
    return s if len(s) <= n else s[:n] + '...'


# --------------------------------------------------------------------------- views
def _children(term, out):
    """Collect, in order, the ['blocks', ...] terms reachable from `term` without crossing one."""
    if isinstance(term, list):
        if len(term) == 2 and term[0] == 'blocks' and isinstance(term[1], list):
            out.append(term[1])
            return
        if len(term) == 3 and term[0] == 'obj' and isinstance(term[2], list):
            # source order of a tag's bodies, not the alphabetical order of its attributes
            state = {kv[0]: kv[1] for kv in term[2] if isinstance(kv, list) and len(kv) == 2}
            for k in _BODY_ORDER:
                if k in state:
                    _children(state[k], out)
            return
        for x in term:
            _children(x, out)


def literal_tree(nf):
    """Literal text per nesting level: a list of str (literal block) and, per compiled tag, the list
    of its child bodies' literal trees ([] when the tag has no body).  Comparable with
    ``printer.Printed.literals``."""
    out = []
    for b in nf:
        if isinstance(b, list) and b and b[0] == 'text':
            out.append(b[1])
            continue
        kids = []
        _children(b, kids)
        out.append([literal_tree(k) for k in kids])
    return out


def tag_classes(nf, acc=None):
    """Names of what was compiled: 'var' (simple form), 'cond', and the class names of tag objects."""
    acc = set() if acc is None else acc
    if isinstance(nf, list):
        if nf and nf[0] == 'obj' and len(nf) == 3 and isinstance(nf[1], str):
            acc.add(nf[1])
        elif nf and nf[0] in ('var', 'cond') and len(nf) >= 2 and isinstance(nf[1], list):
            acc.add(nf[0])
        for x in nf:
            tag_classes(x, acc)
    return acc
