"""C19 helper: abstract templates (JSON), printers for the three surface syntaxes, an
independent model of what such a template renders, text pools and the value registry.

Nothing here imports the engine except `make_templates` (creates the template objects) and
the few value factories that need ExtensionClass/Acquisition.

Abstract template = list of nodes, every node a JSON list:

    ['lit', text]                      literal text
    ['ins']                            the insertion under test (form fixed per case)
    ['in', opts, body, else_body]      opts = {'n': items, 'items': bool, 'batch': None|'size'|'next'|'prev'}
    ['if', kind, body, other]          kind = then | else | elif | expr ; `other` = branch not taken
    ['unless', body]
    ['with', kind, body]               kind = mapping | object
    ['let', rename, body]              rename: the body reads the value through the let variable
    ['try', kind, body, tail]          kind = plain | else | handler | handler-else | finally
    ['sub', body]                      body is a template of its own, inserted by name
    ['raise', body]                    body is the message of a raised error, printed by the handler

The model (`model_pieces`) is written from the tag documentation (module docstrings of
DT_In, DT_If, DT_With, DT_Let, DT_Try, DT_Raise): a body is rendered once per item / once;
the first true branch is taken; try renders body (+ else) or the handler; finally appends.
"""
import html

# ------------------------------------------------------------------ insertion forms
# key -> (argument text, quoted?, route) ; {n} = name, {e} = python expression for it
TAG_FORMS = {
    'name':             ('{n}', False, 'simple'),
    'name=':            ('name="{n}"', False, 'simple'),
    'expr':             ('"{e}"', False, 'simple'),
    'expr=':            ('expr="{e}"', False, 'simple'),
    'name missing':     ('{n} missing=M', False, 'full'),
    'expr missing':     ('expr="{e}" missing=M', False, 'full'),
    'name hq':          ('{n} html_quote', True, 'simple'),
    'expr hq':          ('expr="{e}" html_quote', True, 'simple'),
    'name hq missing':  ('{n} html_quote missing=M', True, 'full'),
    'expr hq missing':  ('expr="{e}" html_quote missing=M', True, 'full'),
    'name fmt=hq':      ('{n} fmt=html-quote', True, 'fmt'),
}
ENTITY_FORMS = {
    'entity':            ('&dtml-{n};', True, 'simple'),
    'entity.hq':         ('&dtml.html_quote-{n};', True, 'simple'),
    'entity.missing':    ('&dtml.missing-{n};', False, 'full'),
    'entity.hq.missing': ('&dtml.html_quote.missing-{n};', True, 'full'),
}
EPFS_BARE_FORMS = {
    'bare':    ('%({n})s', False, 'simple'),
    'bare hq': ('%({n} html_quote)s', True, 'simple'),
}
SYNTAXES = ('dtml', 'ssi', 'epfs')


def forms_for(syntax):
    """All (form key) usable in a syntax."""
    keys = [k for k in TAG_FORMS if not (syntax == 'epfs' and k == 'expr')]
    if syntax in ('dtml', 'ssi'):
        keys += list(ENTITY_FORMS)
    else:
        keys += list(EPFS_BARE_FORMS)
    return keys


def form_info(form):
    for table in (TAG_FORMS, ENTITY_FORMS, EPFS_BARE_FORMS):
        if form in table:
            return table[form]
    raise KeyError(form)


def template_class_name(syntax):
    return 'String' if syntax == 'epfs' else 'HTML'


# ------------------------------------------------------------------ printer
class Printer:
    def __init__(self, syntax, form):
        self.syntax = syntax
        self.form = form
        self.k = 0
        self.seqs = {}      # name -> opts
        self.subs = {}      # name -> source

    def fresh(self, prefix):
        self.k += 1
        return '%s%d' % (prefix, self.k)

    # -- tags
    def open(self, tag, args=''):
        a = (' ' + args) if args else ''
        if self.syntax == 'dtml':
            return '<dtml-%s%s>' % (tag, a)
        if self.syntax == 'ssi':
            return '<!--#%s%s-->' % (tag, a)
        return '%%(%s%s)[' % (tag, a)

    cont = open

    def close(self, tag):
        if self.syntax == 'dtml':
            return '</dtml-%s>' % tag
        if self.syntax == 'ssi':
            return '<!--#/%s-->' % tag
        return '%%(%s)]' % tag

    def var(self, args):
        if self.syntax == 'dtml':
            return '<dtml-var %s>' % args
        if self.syntax == 'ssi':
            return '<!--#var %s-->' % args
        return '%%(var %s)s' % args

    @staticmethod
    def expr_of(name):
        return name if '-' not in name else "_['%s']" % name

    def insertion(self, name):
        fmt, _q, _r = form_info(self.form)
        if self.form in TAG_FORMS:
            return self.var(fmt.format(n=name, e=self.expr_of(name)))
        return fmt.format(n=name, e=self.expr_of(name))

    # -- nodes
    def nodes(self, nodes, name):
        return ''.join(self.node(n, name) for n in nodes)

    def node(self, n, name):
        k = n[0]
        if k == 'lit':
            return n[1]
        if k == 'ins':
            return self.insertion(name)
        if k == 'in':
            opts, body, els = n[1], n[2], n[3]
            seq = self.fresh('seq')
            self.seqs[seq] = opts
            args = seq
            b = opts.get('batch')
            if b == 'size':
                args += ' size=50 start=1'
            elif b == 'next':
                args += ' next size=2'
            elif b == 'prev':
                args += ' previous size=2 start=5'
            pre = post = ''
            if not opts.get('items') and name == 'sequence-item':
                # the inner loop rebinds sequence-item: carry the outer item in a let variable
                y = self.fresh('y')
                pre, post = self.open('let', '%s=%s' % (y, name)), self.close('let')
                name = y
            inner = 'sequence-item' if opts.get('items') else name
            out = self.open('in', args) + self.nodes(body, inner)
            if els is not None:
                out += self.cont('else') + self.nodes(els, name)
            return pre + out + self.close('in') + post
        if k == 'if':
            kind, body, other = n[1], n[2], n[3]
            B, O = self.nodes(body, name), self.nodes(other, name)
            if kind == 'then':
                return self.open('if', 'yes') + B + self.cont('else') + O + self.close('if')
            if kind == 'else':
                return self.open('if', 'no') + O + self.cont('else') + B + self.close('if')
            if kind == 'elif':
                return (self.open('if', 'no') + O + self.cont('elif', 'yes') + B +
                        self.cont('else') + O + self.close('if'))
            if kind == 'expr':
                return self.open('if', 'expr="1 == 1"') + B + self.close('if')
            raise ValueError(kind)
        if k == 'unless':
            return self.open('unless', 'no') + self.nodes(n[1], name) + self.close('unless')
        if k == 'with':
            args = 'nsmap mapping' if n[1] == 'mapping' else 'obj'
            return self.open('with', args) + self.nodes(n[2], name) + self.close('with')
        if k == 'let':
            if n[1]:
                y = self.fresh('y')
                if '-' in name and self.k % 2:
                    arg = '%s="%s"' % (y, self.expr_of(name))
                else:
                    arg = '%s=%s' % (y, name)
                return self.open('let', arg) + self.nodes(n[2], y) + self.close('let')
            return self.open('let', 'zz=yes') + self.nodes(n[2], name) + self.close('let')
        if k == 'try':
            kind, body, tail = n[1], n[2], n[3]
            B = self.nodes(body, name)
            if kind == 'plain':
                return self.open('try') + B + self.cont('except') + 'UNUSED' + self.close('try')
            if kind == 'else':
                return (self.open('try') + B + self.cont('except') + 'UNUSED' +
                        self.cont('else') + self.nodes(tail, name) + self.close('try'))
            if kind == 'handler':
                return (self.open('try') + 'LOST' + self.var('boom') + 'LOST' +
                        self.cont('except', 'ValueError') + B + self.close('try'))
            if kind == 'handler-else':
                return (self.open('try') + self.var('boom') + self.cont('except') + B +
                        self.cont('else') + 'UNUSED' + self.close('try'))
            if kind == 'finally':
                return (self.open('try') + B + self.cont('finally') +
                        self.nodes(tail, name) + self.close('try'))
            raise ValueError(kind)
        if k == 'sub':
            sub = self.fresh('sub')
            self.subs[sub] = self.nodes(n[1], name)
            return self.var(sub)
        if k == 'raise':
            return (self.open('try') + self.open('raise', 'KeyError') + self.nodes(n[1], name) +
                    self.close('raise') + self.cont('except', 'KeyError') +
                    self.var('error_value') + self.close('try'))
        raise ValueError('unknown node %r' % (k,))


def print_template(ast, syntax, form):
    """-> (source, seqs, subs)"""
    p = Printer(syntax, form)
    src = p.nodes(ast, 'x')
    return src, p.seqs, p.subs


# ------------------------------------------------------------------ independent model
def esc_strict(s):
    return html.escape(s, True)


def esc_lenient(s):
    # the same escaping, the apostrophe left alone (escaping details are property C03)
    return html.escape(s, True).replace('&#x27;', "'")


def model_pieces(nodes, val, quoted, esc):
    """Flattened leaf pieces of the rendering when the value inserted is the text `val`."""
    out = []
    for n in nodes:
        k = n[0]
        if k == 'lit':
            out.append(n[1])
        elif k == 'ins':
            out.append(esc(val) if quoted else val)
        elif k == 'in':
            opts, body, els = n[1], n[2], n[3]
            cnt = opts['n']
            if cnt == 0:
                if els is not None:
                    out.extend(model_pieces(els, val, quoted, esc))
            else:
                reps = 1 if opts.get('batch') in ('next', 'prev') else cnt
                one = model_pieces(body, val, quoted, esc)
                for _ in range(reps):
                    out.extend(one)
        elif k == 'if':
            out.extend(model_pieces(n[2], val, quoted, esc))
        elif k == 'unless':
            out.extend(model_pieces(n[1], val, quoted, esc))
        elif k in ('with', 'let'):
            out.extend(model_pieces(n[2], val, quoted, esc))
        elif k == 'try':
            out.extend(model_pieces(n[2], val, quoted, esc))
            if n[1] in ('else', 'finally'):
                out.extend(model_pieces(n[3], val, quoted, esc))
        elif k == 'sub':
            out.extend(model_pieces(n[1], val, quoted, esc))
        elif k == 'raise':
            # the error message is one value: the handler inserts it as one piece
            out.append(''.join(model_pieces(n[1], val, quoted, esc)))
        else:
            raise ValueError(k)
    return [p for p in out if p != '']


def count_ins(nodes):
    c = 0
    for n in nodes:
        if n[0] == 'ins':
            c += 1
        else:
            for part in n[1:]:
                if isinstance(part, list) and part and isinstance(part[0], list):
                    c += count_ins(part)
    return c


def node_kinds(nodes, acc=None):
    """Set of context labels occurring in the template (for coverage tables/classifiers)."""
    acc = set() if acc is None else acc
    for n in nodes:
        k = n[0]
        if k in ('lit', 'ins'):
            continue
        if k == 'in':
            o = n[1]
            acc.add('in:%s%s%s' % ('items' if o.get('items') else 'ints',
                                   ':' + o['batch'] if o.get('batch') else '',
                                   ':n=%s' % ('0' if o['n'] == 0 else '1' if o['n'] == 1 else 'many')))
        elif k in ('if', 'with', 'try'):
            acc.add('%s:%s' % (k, n[1]))
        elif k == 'let':
            acc.add('let:rename' if n[1] else 'let:plain')
        else:
            acc.add(k)
        for part in n[1:]:
            if isinstance(part, list) and part and isinstance(part[0], list):
                node_kinds(part, acc)
    return acc


def depth_of(nodes):
    d = 0
    for n in nodes:
        if n[0] in ('lit', 'ins'):
            continue
        sub = 0
        for part in n[1:]:
            if isinstance(part, list) and part and isinstance(part[0], list):
                sub = max(sub, depth_of(part))
        d = max(d, 1 + sub)
    return d


# ------------------------------------------------------------------ context catalogue
LITS = ['A', 'B', '[', ']', '|', '\xe9', '\u20ac\U0001F600', '<b>', '&amp;']


def body_shapes():
    """name -> body (list of nodes) containing the insertion"""
    return {
        'single': [['ins']],
        'multi': [['lit', '['], ['ins'], ['lit', ']']],
        'double': [['ins'], ['ins']],
        'lead': [['lit', '\xe9'], ['ins']],
    }


def contexts(body):
    """Every depth-1 join path around `body`: label -> node."""
    L = [['lit', 'o']]
    E = []
    I = [['ins']]
    c = {
        'in ints n=1': ['in', {'n': 1, 'items': False, 'batch': None}, body, None],
        'in ints n=3': ['in', {'n': 3, 'items': False, 'batch': None}, body, None],
        'in items n=1': ['in', {'n': 1, 'items': True, 'batch': None}, body, None],
        'in items n=3': ['in', {'n': 3, 'items': True, 'batch': None}, body, None],
        'in batch size ints n=3': ['in', {'n': 3, 'items': False, 'batch': 'size'}, body, None],
        'in batch size items n=2': ['in', {'n': 2, 'items': True, 'batch': 'size'}, body, None],
        'in batch next n=9': ['in', {'n': 9, 'items': False, 'batch': 'next'}, body, L],
        'in batch prev n=9': ['in', {'n': 9, 'items': False, 'batch': 'prev'}, body, L],
        'in else (empty)': ['in', {'n': 0, 'items': False, 'batch': None}, L, body],
        'in batch else (empty)': ['in', {'n': 0, 'items': False, 'batch': 'size'}, L, body],
        'if then': ['if', 'then', body, L],
        'if else': ['if', 'else', body, L],
        'if elif': ['if', 'elif', body, L],
        'if expr': ['if', 'expr', body, E],
        'unless': ['unless', body],
        'with mapping': ['with', 'mapping', body],
        'with object': ['with', 'object', body],
        'let plain': ['let', False, body],
        'let rename': ['let', True, body],
        'try plain': ['try', 'plain', body, E],
        'try else lit': ['try', 'else', body, L],
        'try else empty': ['try', 'else', body, E],
        'try else ins': ['try', 'else', body, I],
        'try lit else body': ['try', 'else', L, body],
        'try empty else body': ['try', 'else', E, body],
        'try handler': ['try', 'handler', body, E],
        'try handler-else': ['try', 'handler-else', body, E],
        'try finally lit': ['try', 'finally', body, L],
        'try finally ins': ['try', 'finally', body, I],
        'try lit finally body': ['try', 'finally', L, body],
        'sub': ['sub', body],
        'raise': ['raise', body],
    }
    return c


def wraps(node):
    return {
        'bare': [node],
        'wrapped': [['lit', 'A'], node, ['lit', 'B']],
    }


def gen_random(rng, depth, budget=None):
    """Seeded nested template containing at least one insertion."""
    for _ in range(50):
        ast = _gen_block(rng, depth, top=True)
        c = count_ins(ast)
        if 1 <= c <= 6 and depth_of(ast) >= 1:
            return ast
    return [['lit', 'A'], ['with', 'mapping', [['ins']]], ['lit', 'B']]


def _gen_block(rng, depth, top=False):
    n = rng.choice([1, 1, 2, 2, 3])
    out = []
    for _ in range(n):
        r = rng.random()
        if depth > 0 and r < 0.5:
            out.append(_gen_ctx(rng, depth - 1))
        elif r < 0.78:
            out.append(['ins'])
        else:
            out.append(['lit', rng.choice(LITS)])
    # adjacent literals are fine; empty blocks too
    if not top and rng.random() < 0.08:
        return []
    return out


def _gen_ctx(rng, depth):
    B = lambda: _gen_block(rng, depth)   # noqa: E731
    k = rng.choice(['in', 'in', 'if', 'unless', 'with', 'let', 'try', 'try', 'try', 'sub', 'raise'])
    if k == 'in':
        batch = rng.choice([None, None, None, 'size', 'next', 'prev'])
        if batch in ('next', 'prev'):
            return ['in', {'n': 9, 'items': False, 'batch': batch}, B(), B()]
        n = rng.choice([0, 1, 1, 2, 3])
        return ['in', {'n': n, 'items': rng.random() < 0.5, 'batch': batch},
                B(), B() if (n == 0 or rng.random() < 0.3) else None]
    if k == 'if':
        kind = rng.choice(['then', 'else', 'elif', 'expr'])
        return ['if', kind, B(), [] if kind == 'expr' else [['lit', 'o']]]
    if k == 'unless':
        return ['unless', B()]
    if k == 'with':
        return ['with', rng.choice(['mapping', 'object']), B()]
    if k == 'let':
        return ['let', rng.random() < 0.6, B()]
    if k == 'try':
        kind = rng.choice(['plain', 'else', 'else', 'handler', 'handler-else', 'finally', 'finally'])
        return ['try', kind, B(), B() if kind in ('else', 'finally') else []]
    if k == 'sub':
        return ['sub', B()]
    return ['raise', B()]


# ------------------------------------------------------------------ namespace
class Boom:
    """Namespace value that raises when looked up (drives the except handler)."""

    def __init__(self, exc=None):
        self.exc = exc

    def __call__(self):
        raise (self.exc if self.exc is not None else ValueError('boom'))


class Obj:
    w = 'W'


def make_templates(src, subs, syntax, enc, filedir=None):
    """Template objects for a printed template.  With `filedir` the main template is file-based
    (HTMLFile / File reading a file written there); those classes take no encoding argument."""
    from DocumentTemplate.DT_HTML import HTML
    from DocumentTemplate.DT_HTML import HTMLFile
    from DocumentTemplate.DT_String import File
    from DocumentTemplate.DT_String import String
    cls = String if syntax == 'epfs' else HTML
    kw = {} if enc is None else {'encoding': enc}
    if filedir is not None:
        import hashlib
        import os
        fcls = File if syntax == 'epfs' else HTMLFile
        path = os.path.join(filedir, hashlib.md5(src.encode('utf-8')).hexdigest() + '.dtml')
        with open(path, 'w', encoding='ascii') as f:
            f.write(src)
        main = fcls(path)
    else:
        main = cls(src, **kw)
    subt = {name: cls(s, **kw) for name, s in subs.items()}
    return main, subt


# ------------------------------------------------------------------ texts
ENCODINGS = [None, 'utf-8', 'latin-1', 'cp1252', 'utf-16']


def codec_of(enc):
    return enc or 'utf-8'    # "UTF-8 by default"


def encodable(s, enc):
    try:
        s.encode(codec_of(enc))
        return True
    except UnicodeError:
        return False


ASCII_PLAIN = 'abcXYZ 019_-.,;:!?/()[]{}=+*#@$%^~`|\\'
HTML_SPECIAL = '&<>"\''
LATIN1_HI = ''.join(chr(c) for c in range(0xA0, 0x100))
C1 = ''.join(chr(c) for c in range(0x80, 0xA0))
# the characters CP1252 puts into 0x80..0x9F
CP1252_EXTRA = bytes(b for b in range(0x80, 0xA0)
                     if b not in (0x81, 0x8D, 0x8F, 0x90, 0x9D)).decode('cp1252')
BMP = ('\u0100\u03b1\u03a9\u0416\u044f\u05d0\u0627\u0e01\u3042\u4e2d\u6587\uac00\u2028\u2029'
       '\u200b\ufeff\ufffd\ud7ff\ue000\uffff\u0300\u1e9e\u2260')
ASTRAL = '\U00010000\U0001F600\U0001F468\U00020000\U000E0001\U0010FFFF\U0001D11E'
NOTABLE = CP1252_EXTRA + BMP + ASTRAL


def text_class(s):
    m = max(map(ord, s)) if s else 0
    if m < 0x80:
        return 'ascii'
    if m < 0x100:
        return 'latin-1'
    if m < 0x10000:
        return 'bmp'
    return 'astral'


SAMPLE_TEXTS = [
    'plain', '', "it's", 'a<b>&"c"', "'<&>\"", '\xe9', 'caf\xe9 \xfc\xdf\xff', '\xa0\xad',
    '\u20ac', '\u20ac5 \u2013 \u201cq\u201d', '\u03b1\u03b2\u03b3', '\u4e2d\u6587', '\ufeffbom', '\ufffd',
    '\U0001F600', 'a\U0001F600<\xe9>', '\U0010FFFF', '\x00\x01\x7f', 'line\nbreak\r\n\t', '\x80\x9f',
    "O'Neil \xe9", "\u20ac'", 'x' * 200 + '\xe9', '\u0416\u0416&\u0416', 'e\u0301', ' ',
]


def sample_texts(enc, k=None):
    t = [s for s in SAMPLE_TEXTS if encodable(s, enc)]
    return t if k is None else t[:k]


def random_text(rng, enc):
    pools = [ASCII_PLAIN, HTML_SPECIAL, LATIN1_HI]
    if enc == 'cp1252':
        pools += [CP1252_EXTRA]
    elif enc == 'latin-1':
        pools += [C1]
    else:
        pools += [C1, CP1252_EXTRA, BMP, ASTRAL, BMP, ASTRAL]
    n = rng.choice([0, 1, 1, 2, 3, 4, 6, 9, 15, 40])
    chars = []
    use = rng.sample(pools, rng.randint(1, min(3, len(pools))))
    for _ in range(n):
        if rng.random() < 0.06 and enc in (None, 'utf-8', 'utf-16'):
            c = rng.randrange(0x20, 0x110000)
            if 0xD800 <= c < 0xE000:
                c = 0xE000
            chars.append(chr(c))
        else:
            chars.append(rng.choice(rng.choice(use)))
    s = ''.join(chars)
    return s if encodable(s, enc) else s.encode(codec_of(enc), 'ignore').decode(codec_of(enc))


def single_chars(enc):
    pts = [chr(c) for c in range(256)] + list(NOTABLE)
    return [c for c in pts if encodable(c, enc)]


# ------------------------------------------------------------------ non-string values
BUILTIN_VALUES = [
    'None', 'True', 'False', '0', '1', '-7', '10**30', '1.5', '-0.0', '1e100', 'float("nan")',
    'float("inf")', '1j', '()', '(1,)', '(1, "a", None)', '[]', '[1, [2, "\\u00e9"]]', '{}', '{"a": 1}',
    'set()', 'frozenset({1})', 'range(3)', 'slice(1, 2)', 'Ellipsis', 'NotImplemented',
    'bytearray(b"ab")', 'memoryview(b"ab")', 'object()', 'Decimal("1.10")', 'Fraction(1, 3)',
    'date(2020, 1, 2)', 'iter([1])', '(i for i in [1])', 'math', 'property()', 'b"ab".decode',
    '"ab".upper', 'len', '(lambda: 1)', 'str.upper', '[b"\\xe9"]', '{"k": b"v"}', '(b"a", "b", 3)',
    '0.0', '-1.5', '2**70', 'float("-inf")', '0j', 'complex(0.0, -0.0)', 'Decimal("-0")', 'Decimal("1E+1")',
    'range(0)', 'range(5, 5)', '(0.0,)', '(-0.0,)', '{1: 0.0}', '{True: -0.0}', 'frozenset([-0.0])',
    'timedelta(days=1)', 'datetime(2020, 1, 1, 12, 0, tzinfo=timezone.utc)',
]
CLASS_VALUES = ['int', 'str', 'bytes', 'object', 'type', 'dict', 'Exception', 'KeyError', 'Plain',
                'PlainObj', 'WithStr', 'Meta', 'ExtBase', 'Decimal']


def _value_env():
    import math
    from datetime import date
    from datetime import datetime
    from datetime import timedelta
    from datetime import timezone
    from decimal import Decimal
    from fractions import Fraction

    class Plain:
        pass

    class PlainObj(object):
        x1 = 1

    class WithStr:
        def __str__(self):
            return 'with-str'

    class M(type):
        def __str__(cls):
            return 'META:' + cls.__name__

    class Meta(metaclass=M):
        pass

    from ExtensionClass import Base

    class ExtBase(Base):
        pass

    env = dict(math=math, date=date, datetime=datetime, timedelta=timedelta, timezone=timezone, Decimal=Decimal, Fraction=Fraction, Plain=Plain, PlainObj=PlainObj,
               WithStr=WithStr, Meta=Meta, ExtBase=ExtBase)
    return env


def make_value(recipe, enc, bytes_codec=None):
    """recipe (JSON list) -> (value, spec).  `bytes_codec` (classifier aid only): compute the accepted
    texts as if bytes were decoded with that codec instead of the template encoding.

    spec: {'accept': set of acceptable inserted texts | None (no demand),
           'may_raise': bool, 'kind': coarse kind, 'callable': bool, 'exception': bool}
    """
    kind = recipe[0]
    codec = codec_of(enc)
    dcodec = bytes_codec or codec
    env = _value_env()
    spec = {'may_raise': False, 'kind': kind, 'accept': None}
    if kind == 'builtin':
        v = eval(recipe[1], dict(env))
        spec['accept'] = {str(v)}
    elif kind == 'class':
        v = eval(recipe[1], dict(env))
        spec['accept'] = {str(v)}
    elif kind == 'inst-default':
        v = env[recipe[1]]()
        spec['accept'] = {str(v)}
    elif kind == 'inst-repr':
        class R:
            def __repr__(self):
                return 'REPR<%s>' % recipe[1]
        v = R()
        spec['accept'] = {str(v)}
    elif kind == 'inst-str':
        s = recipe[1]

        class S:
            def __str__(self):
                return s
        v = S()
        spec['accept'] = {s}
    elif kind == 'inst-str-subclass':
        s = recipe[1]

        class MyStr(str):
            pass

        class S2:
            def __str__(self):
                return MyStr(s)
        v = S2()
        spec['accept'] = {s}
    elif kind == 'ext-str':
        s = recipe[1]
        from ExtensionClass import Base

        class ES(Base):
            def __str__(self):
                return s
        v = ES()
        spec['accept'] = {s}
    elif kind == 'acq-str':
        s = recipe[1]
        from Acquisition import Implicit

        class AS(Implicit):
            def __str__(self):
                return s
        v = AS().__of__(AS())
        spec['accept'] = {s}
    elif kind == 'inst-str-bytes':
        s = recipe[1]

        class SB:
            def __str__(self):
                return s.encode(codec)
        v = SB()
        # str() itself refuses such an object: raising is acceptable, so is the decoded text
        spec['accept'] = {s.encode(codec).decode(dcodec)}
        spec['may_raise'] = True
    elif kind == 'inst-str-nonstring':
        class SN:
            def __str__(self):
                return 42
        v = SN()
        spec['accept'] = None
        spec['may_raise'] = True
    elif kind == 'inst-str-raises':
        excs = {'ValueError': ValueError, 'UnicodeError': UnicodeError, 'KeyError': KeyError,
                'RuntimeError': RuntimeError}
        E = excs[recipe[1]]

        class SR:
            def __str__(self):
                raise E('from __str__')
        v = SR()
        spec['accept'] = None
        spec['may_raise'] = True
    elif kind == 'exc':
        v = make_exception(recipe[1:], codec, env)
        spec['accept'] = exception_texts(v, dcodec)
    else:
        raise ValueError(recipe)
    spec['callable'] = callable(v)
    spec['exception'] = isinstance(v, BaseException)
    spec['is_class'] = isinstance(v, type)
    return v, spec


class CustomStrError(ValueError):
    def __str__(self):
        return 'custom message'


EXC_TYPES = {'Exception': Exception, 'ValueError': ValueError, 'KeyError': KeyError, 'OSError': OSError,
             'CustomStrError': CustomStrError, 'StopIteration': StopIteration, 'UnicodeError': UnicodeError,
             'KeyboardInterrupt': KeyboardInterrupt}


def make_exception(spec, codec, env):
    """spec = [typename, [argrecipes...]] ; argrecipe = ['s', text] | ['b', text] | ['py', src] | ['exc', ...]"""
    tname, args = spec
    vals = []
    for a in args:
        if a[0] == 's':
            vals.append(a[1])
        elif a[0] == 'b':
            vals.append(a[1].encode(codec))
        elif a[0] == 'py':
            vals.append(eval(a[1], dict(env)))
        elif a[0] == 'exc':
            vals.append(make_exception(a[1:], codec, env))
        else:
            raise ValueError(a)
    return EXC_TYPES[tname](*vals)


def _arg_texts(a, codec):
    """Acceptable text forms of one exception argument (its 'message')."""
    if isinstance(a, str):
        return {a}
    if isinstance(a, bytes):
        out = {str(a)}
        try:
            out.add(a.decode(codec))
        except UnicodeError:
            pass
        return out
    if isinstance(a, BaseException):
        return exception_texts(a, codec)
    return {str(a)}


def exception_texts(exc, codec):
    """'exception objects as their message': no argument -> empty; one argument -> that argument as
    text; several -> the str() of the argument tuple.  str(exc) is accepted as well (for the standard
    exceptions it *is* the message; where a class customises __str__ the statement does not choose)."""
    out = {str(exc)}
    args = exc.args
    if len(args) == 0:
        out.add('')
    elif len(args) == 1:
        out |= _arg_texts(args[0], codec)
    else:
        out.add(str(args))
    return out


def value_recipes(texts):
    """All value recipes; `texts` parameterise the custom-__str__ and exception values."""
    r = [['builtin', b] for b in BUILTIN_VALUES]
    r += [['class', c] for c in CLASS_VALUES]
    r += [['inst-default', n] for n in ('Plain', 'PlainObj', 'ExtBase', 'Meta')]
    r += [['inst-repr', 'r']]
    r += [['inst-str-nonstring'], ['inst-str-raises', 'ValueError'], ['inst-str-raises', 'UnicodeError'],
          ['inst-str-raises', 'KeyError'], ['inst-str-raises', 'RuntimeError']]
    r += [['exc', t, []] for t in ('Exception', 'ValueError', 'KeyError', 'OSError', 'CustomStrError',
                                   'StopIteration', 'KeyboardInterrupt')]
    r += [['exc', 'Exception', [['py', p]]] for p in ('5', 'None', '1.5', '[1, "a"]', '("t",)', 'int', '()')]
    r += [['exc', 'OSError', [['py', '2'], ['s', 'No such file']]],
          ['exc', 'Exception', [['py', '1'], ['py', '2'], ['py', '3']]],
          ['exc', 'CustomStrError', [['s', 'arg']]],
          ['exc', 'CustomStrError', [['s', 'a'], ['s', 'b']]]]
    for s in texts:
        r += [['inst-str', s], ['inst-str-subclass', s], ['ext-str', s], ['acq-str', s],
              ['inst-str-bytes', s],
              ['exc', 'Exception', [['s', s]]], ['exc', 'ValueError', [['s', s]]],
              ['exc', 'KeyError', [['s', s]]], ['exc', 'StopIteration', [['s', s]]],
              ['exc', 'Exception', [['b', s]]], ['exc', 'KeyError', [['b', s]]],
              ['exc', 'Exception', [['exc', 'Exception', [['s', s]]]]],
              ['exc', 'ValueError', [['exc', 'KeyError', [['s', s]]]]],
              ['exc', 'Exception', [['exc', 'Exception', [['b', s]]]]],
              ['exc', 'Exception', [['exc', 'Exception', []]]],
              ['exc', 'Exception', [['s', s], ['py', '1']]],
              ['exc', 'Exception', [['s', s], ['b', s]]],
              ['exc', 'ValueError', [['exc', 'Exception', [['s', s]]], ['s', s]]],
              ['exc', 'OSError', [['py', '2'], ['s', s]]],
              ['exc', 'CustomStrError', [['s', s]]]]
    return r


# ------------------------------------------------------------------ classifier aid (never judges)
class PlusTypeError(Exception):
    pass


def plus_model(ast, val, quoted, codec):
    """What a renderer gives that decodes correctly everywhere but combines the try body with its
    else/finally block by `+` on the two block results (the suspected mechanism of finding 6).
    Used only to RECOGNISE that mechanism in a reported violation; the verdict never depends on it.
    Raises PlusTypeError where `+` would meet a bytes and a text operand."""

    def dec(p):
        return p.decode(codec) if isinstance(p, bytes) else p

    def R(pieces):
        pieces = [p for p in pieces if p]
        if not pieces:
            return ''
        if len(pieces) == 1:
            return pieces[0]
        return ''.join(dec(p) for p in pieces)

    def plus(a, b):
        if isinstance(a, bytes) != isinstance(b, bytes):
            raise PlusTypeError()
        return a + b

    def L(nodes):
        out = []
        for n in nodes:
            k = n[0]
            if k == 'lit':
                out.append(n[1])
            elif k == 'ins':
                out.append(esc_strict(dec(val)) if quoted else val)
            elif k == 'if':
                out.extend(L(n[2]))
            elif k == 'unless':
                out.extend(L(n[1]))
            elif k in ('with', 'let'):
                out.append(R(L(n[2])))
            elif k == 'sub':
                out.append(R(L(n[1])))
            elif k == 'in':
                opts, body, els = n[1], n[2], n[3]
                if opts['n'] == 0:
                    out.append(R(L(els)) if els is not None else '')
                elif opts.get('batch') in ('next', 'prev'):
                    out.append(R(L(body)))
                else:
                    out.append(''.join(dec(R(L(body))) for _ in range(opts['n'])))
            elif k == 'try':
                kind = n[1]
                if kind in ('plain', 'else'):
                    # these are printed with a bare except handler: it also catches the TypeError
                    try:
                        body = R(L(n[2]))
                    except PlusTypeError:
                        out.append('UNUSED')
                        continue
                    out.append(plus(body, R(L(n[3]))) if kind == 'else' else body)
                elif kind == 'finally':
                    out.append(plus(R(L(n[2])), R(L(n[3]))))
                else:
                    out.append(R(L(n[2])))
            elif k == 'raise':
                # documented by the engine: a failing message body becomes 'Invalid Error Value'
                try:
                    out.append(R(L(n[1])))
                except PlusTypeError:
                    out.append('Invalid Error Value')
            else:
                raise ValueError(k)
        return out

    return R(L(ast))


# ------------------------------------------------------------------ conversion histories (part F)
# The statement demands the str() form for EVERY insertion, whatever the process converted before.
# A history is a list of steps executed in one process against shared, compiled templates:
#     ['ins', expr, site key, encoding]        insert eval(expr) through one value site
#     ['do', statement]                        mutate an object created by the setup
#     ['seq', [expr, ...], seq-site key, enc]  ONE rendering that inserts all the values
# `expr` is evaluated in history_env() plus the names bound by the plan's setup ([[name, expr], ...]):
# a setup name re-inserts the SAME object, a constructor expression makes a fresh object every time.
# The families group values that compare (and mostly hash) equal but print differently, inside one
# class and across classes -- what any remembered / shared conversion result would confuse.
import enum as _enum


class Amount(float):
    """A float with a unit: numerically equal instances print differently."""

    def __new__(cls, value, unit):
        self = float.__new__(cls, value)
        self.unit = unit
        return self

    def __str__(self):
        return '%.2f %s' % (float(self), self.unit)


class Tagged(int):
    def __new__(cls, value, tag):
        self = int.__new__(cls, value)
        self.tag = tag
        return self

    def __str__(self):
        return '%d#%s' % (int(self), self.tag)


class Level(_enum.IntEnum):
    LOW = 1
    HIGH = 2


class Named(_enum.IntEnum):
    ONE = 1
    UNO = 1
    TWO = 2

    def __str__(self):
        return 'Named:' + self.name


class Perm(_enum.IntFlag):
    R = 1
    W = 2


class Eq:
    """Instances with the same key are equal and hash alike; the text is their own."""

    def __init__(self, key, text):
        self.key, self.text = key, text

    def __eq__(self, other):
        return isinstance(other, Eq) and other.key == self.key

    def __hash__(self):
        return hash(self.key)

    def __str__(self):
        return self.text


class Txt:
    def __init__(self, text):
        self.text = text

    def __str__(self):
        return self.text


_history_env = None


def history_env():
    global _history_env
    if _history_env is None:
        from datetime import date
        from datetime import datetime
        from datetime import time
        from datetime import timedelta
        from datetime import timezone
        from decimal import Decimal
        from fractions import Fraction
        _history_env = dict(Decimal=Decimal, Fraction=Fraction, datetime=datetime, date=date, time=time,
                            timedelta=timedelta, timezone=timezone, Amount=Amount, Tagged=Tagged, Level=Level,
                            Named=Named, Perm=Perm, Eq=Eq, Txt=Txt, CustomStrError=CustomStrError)
    return dict(_history_env)


HISTORY_FAMILIES = {
    'float zeros': ['0.0', '-0.0'],
    'zero across classes': ['0', 'False', '0.0', '-0.0', '0j', 'complex(-0.0, 0.0)', 'complex(0.0, -0.0)',
                            'Decimal("0")', 'Decimal("-0")', 'Decimal("0.00")', 'Fraction(0)'],
    'one across classes': ['1', 'True', '1.0', 'Decimal("1")', 'Decimal("1.0")', 'Decimal("1.00")',
                           'Fraction(1)', 'Level.LOW', 'Named.ONE', 'Perm.R', '(1+0j)'],
    'decimal spellings': ['Decimal("10")', 'Decimal("1E+1")', 'Decimal("10.0")', 'Decimal("1.0E1")',
                          'Decimal("-0E-3")', 'Decimal("0E+2")'],
    'float with unit': ['Amount(5, "EUR")', 'Amount(5, "USD")', '5.0', 'Amount(5.0, "<&>")', '5'],
    'int with tag': ['Tagged(7, "a")', 'Tagged(7, "b")', '7', 'Tagged(7, "\xe9")', '7.0'],
    'enum members': ['Level.HIGH', 'Named.TWO', '2', 'Perm.W', 'Named.UNO', 'Named.ONE', 'Level.LOW'],
    'big and small numbers': ['2**70', 'float(2**70)', '-2**70', '1e100', '10**100', '1e-07', 'Decimal("1E-7")',
                              'float("inf")', 'float("-inf")', 'Decimal("Infinity")'],
    'tuples of zeros': ['(0.0,)', '(-0.0,)', '(0,)', '(False,)', '(0.0, -0.0, 0)', '(-0.0, 0.0, False)'],
    'frozensets': ['frozenset([0.0])', 'frozenset([-0.0])', 'frozenset([False])', 'frozenset([0])',
                   'frozenset([1])', 'frozenset([True])'],
    'unhashable containers': ['[0.0]', '[-0.0]', '[False]', '{1: 0.0}', '{True: -0.0}', '{1.0: 0}', '{1}', '{True}',
                              '{1.0}'],
    'empty ranges': ['range(0)', 'range(0, 0)', 'range(5, 5)', 'range(3, 1)', 'range(0, 0, 2)', 'range(1, 2)',
                     'range(1, 2, 5)'],
    'aware datetimes': ['datetime(2020, 1, 1, 12, 0, tzinfo=timezone.utc)',
                        'datetime(2020, 1, 1, 13, 0, tzinfo=timezone(timedelta(hours=1)))',
                        'datetime(2020, 1, 1, 7, 0, tzinfo=timezone(timedelta(hours=-5)))',
                        'timedelta(hours=24)', 'timedelta(days=1)'],
    'equal objects with own text': ['Eq(1, "first")', 'Eq(1, "second")', 'Eq(1, "<third> & \xe9")',
                                    'Eq(True, "fourth")', 'Eq(1.0, "\u20ac")'],
    'text objects': ['Txt("a")', 'Txt("b")', 'Txt("\xe9<c>")', 'Txt("")', 'Txt("a")'],
    'exceptions with equal arguments': ['ValueError(0.0)', 'ValueError(-0.0)', 'ValueError(0)', 'ValueError(False)',
                                        'KeyError(1)', 'KeyError(True)', 'KeyError(1.0)',
                                        'ValueError(Amount(5, "EUR"))', 'ValueError(Amount(5, "USD"))',
                                        'Exception(1, 1.0)', 'Exception(True, 1)', 'Exception(1.0, True)',
                                        'CustomStrError(0.0)', 'CustomStrError(-0.0)'],
}
EXCEPTION_FAMILIES = ('exceptions with equal arguments',)
# fresh objects only, every one dropped before the next is made: a later object may get the address
# (the id) of an earlier one
DROP_FAMILIES = ('text objects',)

# setup, name of the object, mutations applied between its insertions
HISTORY_MUTATIONS = {
    'list grows': ([['L', '[1]']], 'L', ['L.append(2)', 'L.clear()', 'L.append(-0.0)', 'L.__setitem__(0, 0.0)']),
    'dict changes': ([['D', '{}']], 'D', ['D.__setitem__(1, 0.0)', 'D.__setitem__(True, -0.0)', 'D.clear()']),
    'set changes': ([['S', 'set()']], 'S', ['S.add(1)', 'S.discard(1)', 'S.add(True)']),
    'bytearray grows': ([['BA', 'bytearray(b"ab")']], 'BA', ['BA.extend(b"c")', 'BA.clear()']),
    'text object': ([['T', 'Txt("a")']], 'T', ['setattr(T, "text", "b")', 'setattr(T, "text", "<\xe9>")',
                                                'setattr(T, "text", "a")']),
    'equal object': ([['Q', 'Eq(1, "first")']], 'Q', ['setattr(Q, "text", "second")', 'setattr(Q, "key", 2)',
                                                       'setattr(Q, "text", "third")']),
    'float with unit': ([['M', 'Amount(5, "EUR")']], 'M', ['setattr(M, "unit", "USD")', 'setattr(M, "unit", "")']),
    'int with tag': ([['G', 'Tagged(7, "a")']], 'G', ['setattr(G, "tag", "b")']),
    'exception arguments': ([['E', 'ValueError("a")']], 'E',
                            ['setattr(E, "args", ("b",))', 'setattr(E, "args", ())', 'setattr(E, "args", (0.0,))',
                             'setattr(E, "args", (-0.0,))', 'setattr(E, "args", (1, 2))',
                             'setattr(E, "args", (True, 2.0))']),
}


def value_texts_of(v, codec):
    """Accepted inserted texts of one non-string value: str(value); exceptions: their message."""
    if isinstance(v, BaseException):
        return exception_texts(v, codec)
    return {str(v)}


def confusable(a, b):
    """a and b compare equal (either way) but print differently: what a shared conversion would mix up."""
    try:
        if not (a == b or b == a):
            return False
        return str(a) != str(b)
    except Exception:
        return False


def match_concat(text, head, alternatives, tail):
    """Is `text` == head + one alternative per position + tail?"""
    if not text.startswith(head) or not text.endswith(tail) or len(text) < len(head) + len(tail):
        return False
    body = text[len(head):len(text) - len(tail)]
    seen = set()

    def rec(pos, i):
        if (pos, i) in seen:
            return False
        seen.add((pos, i))
        if i == len(alternatives):
            return pos == len(body)
        for a in alternatives[i]:
            if body.startswith(a, pos) and rec(pos + len(a), i + 1):
                return True
        return False

    return rec(0, 0)
