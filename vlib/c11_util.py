"""C11 helpers: the space of dtml-in *configurations* a batch window can be requested and read through.

The property quantifies over "inputs, configurations": the five batch parameters may be written as literals or
variable names; the documentation (DT_In docstring) shows the values arriving from a query string (text), shows
the link variables read with the entity syntax inside ``<dtml-if sequence-end><dtml-if next-sequence>``, and the
``prefix`` option offers every sequence variable under a second spelling (``sequence-number`` -> ``p_number``,
``next-sequence-start-number`` -> ``p_next_sequence_start_number``; pinned test test__setitem__getitem__ and
property C10).  None of that changes what the window *is*, so every configuration is reduced here to the same
14-field record per displayed element and judged by the one window model of checks/c11.py.

A configuration (``cfg``, a JSON-able dict) fixes
  how      5 letters over L/V/A: each of start,end,size,orphan,overlap as Literal, Variable name, or Absent
           (absent only where the value means "not given"/default; one of start/end/size always stays present)
  quote    attribute values written name="value"
  order    rotation+reversal of the attribute list
  seqform  seq | name=seq | "seq" | expr="seq"
  prefix   None or the prefix= name;  mask: which of the 14 fields are read through the prefix spelling
  layout   full (every variable on every element) | sparse (link numbers only inside <dtml-if next-sequence>,
           entity syntax) | edge (links only inside <dtml-if sequence-start>/<dtml-if sequence-end>, the
           documented idiom) | nested (a second batched dtml-in, written in the same sequence form and prefix,
           runs inside the body between the reads) | nestfault (the same, but the inner body raises on its last
           element and a dtml-try around the inner loop handles it: the outer window and links read afterwards
           must be what they were)
  items    int | str | pair (key,value) | mapping (+ mapping option) | obj;  nopush: no_push_item option
  seqorder the options that change the ORDER in which the sequence is shown, combined with the batch: None |
           reverse | rexpr1 / rexpr0 (reverse_expr="1" / "0") | rexprv (reverse_expr="rv", rv given per render) |
           sort (sort=sequence-item, or sort=v for mapping / object items) | sort+reverse | sortx (sort_expr="sx",
           sx given per render) | sortx+rexprv | desc (sort="v/cmp/desc").  DT_In docstring: "reverse -- Reverse
           the sequence (may be combined with sort)", "reverse_expr -- ... calculate the need of reversing on the
           fly"; property C13: an empty sort or sort=sequence-item orders by the element (the key of 2-tuples).
           The window is then a window over the SHOWN order: element number k is the k-th element of that order.
A *render* of a configuration additionally fixes
  forms    the value form of each variable-named parameter: i int, s text (str(int), as a form/query string
           delivers it), c callable returning int, C callable returning text;
  content  what the elements ARE ('name:salt'): num (element k is k) | perm (a permutation of 1..n, so that sorting
           and reversing are visible) | none (every element is None) | falsy (None, 0, '', (), 0.0, False in turn) |
           holes (numbers with None in between).  The statement speaks of elements and of whether elements
           remain / precede, never of their values, so the window and the links must be the same for all of them;
           the item shown for number k must be the k-th element of the shown order.  Object elements are as
           false as their value.
  container list | tuple | iter (counting iterator) | seqobj (a sequence class of the caller's own: subscription
           and length only)
  rv       the value of the reverse_expr variable (rexprv orders), changing between the renders of one template.
"""
import random
from collections import deque

from vlib.common import ProbeIter

PARAMS = ('start', 'end', 'size', 'orphan', 'overlap')
VARNAMES = ('st', 'en', 'sz', 'orp', 'ovl')
FIELDS = ('sequence-number', 'sequence-item', 'sequence-start', 'sequence-end',
          'previous-sequence', 'next-sequence',
          'previous-sequence-start-number', 'previous-sequence-end-number', 'previous-sequence-size',
          'next-sequence-start-number', 'next-sequence-end-number', 'next-sequence-size',
          'sequence-step-size', 'sequence-index')
NF = len(FIELDS)
ALL = (1 << NF) - 1
FLAG_BITS = (1 << 4) | (1 << 5)             # previous-sequence, next-sequence
LAYOUTS = ('full', 'sparse', 'edge', 'nested', 'nestfault')
NESTED = ('nested', 'nestfault')
SEQFORMS = ('seq', 'name=', 'shorthand', 'expr=')
ITEMS = ('int', 'str', 'pair', 'mapping', 'obj')
FORMS = 'iscC'
SEQORDERS = (None, 'reverse', 'rexpr1', 'rexpr0', 'rexprv', 'sort', 'sort+reverse', 'sortx', 'sortx+rexprv', 'desc')
CONTENTS = ('num', 'perm', 'none', 'falsy', 'holes')
SORTABLE = ('num', 'perm')
FALSY = (None, 0, '', (), 0.0, False)
RV_VALUES = (0, 1, '', 'yes', None, True, False, [], [0])     # JSON-able values of the reverse_expr variable
INNER = [7, 8, 9, 10, 11]                   # the nested loop's own sequence: start=2 size=2 -> 2,3 and next at 4
INNER_OUT = {'nested': '{2,3,N4}', 'nestfault': '{caught}'}

DEFAULT_CFG = {'how': 'VVVVV', 'quote': False, 'order': 0, 'seqform': 'seq', 'prefix': None, 'mask': 0,
               'layout': 'full', 'items': 'int', 'nopush': False, 'seqorder': None}


def cfg_of(**kw):
    c = dict(DEFAULT_CFG)
    c.update(kw)
    return c


def cfg_key(cfg):
    cfg = dict(DEFAULT_CFG, **cfg)
    return ('%(how)s/%(seqform)s/%(layout)s/%(items)s/p=%(prefix)s:%(mask)x/q%(quote)d/o%(order)d/n%(nopush)d'
            '/s=%(seqorder)s' % cfg)


def order_attrs(cfg, q='%s'):
    """The attributes that spell the sequence order of a configuration."""
    so = cfg.get('seqorder')
    if not so:
        return []
    key = 'v' if cfg['items'] in ('mapping', 'obj') else 'sequence-item'
    out = []
    for part in so.split('+'):
        if part == 'reverse':
            out.append('reverse')
        elif part == 'rexpr1':
            out.append('reverse_expr="1"')
        elif part == 'rexpr0':
            out.append('reverse_expr="0"')
        elif part == 'rexprv':
            out.append('reverse_expr="rv"')
        elif part == 'sort':
            out.append('sort=%s' % (q % key))
        elif part == 'sortx':
            out.append('sort_expr="sx"')
        elif part == 'desc':
            out.append('sort="v/cmp/desc"')
        else:
            raise ValueError(so)
    return out


def sorts(seqorder):
    return bool(seqorder) and ('sort' in seqorder or seqorder == 'desc')


def reverses(seqorder, rv):
    """Is the (possibly sorted) sequence shown in reverse?  rv: the value of the reverse_expr variable."""
    if not seqorder:
        return False
    parts = seqorder.split('+')
    if 'reverse' in parts or 'rexpr1' in parts:
        return True
    if 'rexprv' in parts:
        return bool(rv)
    return False


def spelled(name, prefix, use_prefix):
    if not (prefix and use_prefix):
        return name
    if name.startswith('sequence-'):
        name = name[len('sequence-'):]
    return prefix + '_' + name.replace('-', '_')


def build_body(cfg):
    p, mask, layout = cfg['prefix'], cfg['mask'], cfg['layout']
    n = [spelled(f, p, mask >> k & 1) for k, f in enumerate(FIELDS)]
    item = n[1] if cfg['items'] in ('int', 'str', 'pair') else 'v'

    def var(k, missing=False):
        name = item if k == 1 else n[k]
        return '<dtml-var %s%s>' % (name, ' missing=-' if missing else '')

    def ent(k):
        return '&dtml-%s;' % (item if k == 1 else n[k])

    def flag(k):
        return '<dtml-if %s>1<dtml-else>0</dtml-if>' % n[k]

    if layout in ('full',) + NESTED:
        inner = ''
        if layout in NESTED:
            # the inner batch runs under the same option spelling; afterwards the outer variables are read again
            io = (' prefix=%s' % p) if p else ''
            iseq = {'seq': 'inner', 'name=': 'name=inner', 'shorthand': '"inner"',
                    'expr=': 'expr="inner"'}[cfg['seqform']]
            if layout == 'nested':
                inner = ('{<dtml-in %s start=2 size=2%s><dtml-var %s>,<dtml-if %s>N<dtml-var %s></dtml-if>'
                         '</dtml-in>}' % (iseq, io, n[0], n[5], n[9]))
            else:
                inner = ('{<dtml-try><dtml-in %s start=2 size=2%s><dtml-var %s>,<dtml-if %s><dtml-raise Boom>x'
                         '</dtml-raise></dtml-if></dtml-in><dtml-except>caught</dtml-try>}'
                         % (iseq, io, n[0], n[3]))
        f = [var(k, missing=6 <= k <= 11) for k in range(NF)]
        return '[' + '|'.join(f[:6]) + inner + '|' + '|'.join(f[6:]) + ']'
    if layout == 'sparse':
        prev = '<dtml-if %s>%s|%s|%s<dtml-else>-|-|-</dtml-if>' % (n[4], ent(6), ent(7), ent(8))
        nxt = '<dtml-if %s>%s|%s|%s<dtml-else>-|-|-</dtml-if>' % (n[5], ent(9), ent(10), ent(11))
        return '[' + '|'.join([ent(0), ent(1), flag(2), flag(3), flag(4), flag(5), prev, nxt, ent(12), ent(13)]) + ']'
    if layout == 'edge':
        # the documented idiom: <dtml-if sequence-end><dtml-if next-sequence>...&dtml-next-sequence-start-number;
        pf = '<dtml-if %s>%s<dtml-else>0</dtml-if>' % (n[2], flag(4))
        nf = '<dtml-if %s>%s<dtml-else>0</dtml-if>' % (n[3], flag(5))
        prev = ('<dtml-if %s><dtml-if %s>%s|%s|%s<dtml-else>-|-|-</dtml-if><dtml-else>-|-|-</dtml-if>'
                % (n[2], n[4], ent(6), ent(7), ent(8)))
        nxt = ('<dtml-if %s><dtml-if %s>%s|%s|%s<dtml-else>-|-|-</dtml-if><dtml-else>-|-|-</dtml-if>'
               % (n[3], n[5], ent(9), ent(10), ent(11)))
        return '[' + '|'.join([var(0), var(1), flag(2), flag(3), pf, nf, prev, nxt, var(12), var(13)]) + ']'
    raise ValueError(layout)


def effective_how(cfg, vals):
    """Absent is only possible where the value means "not given"; one of start/end/size stays an attribute."""
    how = list(cfg['how'])
    st, en, sz, orp, ovl = vals
    default = (st <= 0, en <= 0, sz < 1, orp == 0, ovl == 0)
    for k in range(5):
        if how[k] == 'A' and not default[k]:
            how[k] = 'L'
    if how[0] == how[1] == how[2] == 'A':
        how[2] = 'V'
    return ''.join(how)


def build_source(cfg, vals):
    how = effective_how(cfg, vals)
    q = '"%s"' if cfg['quote'] else '%s'
    attrs = []
    for k in range(5):
        if how[k] == 'L':
            attrs.append('%s=%s' % (PARAMS[k], q % vals[k]))
        elif how[k] == 'V':
            attrs.append('%s=%s' % (PARAMS[k], q % VARNAMES[k]))
    if cfg['prefix']:
        attrs.append('prefix=%s' % (q % cfg['prefix']))
    if cfg['items'] == 'mapping':
        attrs.append('mapping')
    if cfg['nopush']:
        attrs.append('no_push_item')
    attrs.extend(order_attrs(cfg, q))
    o = cfg['order']
    if attrs:
        r = (o // 2) % len(attrs)
        attrs = attrs[r:] + attrs[:r]
        if o % 2:
            attrs.reverse()
    seq = {'seq': 'seq', 'name=': 'name=seq', 'shorthand': '"seq"', 'expr=': 'expr="seq"'}[cfg['seqform']]
    return '<dtml-in %s %s>%s<dtml-else>EMPTY</dtml-in>' % (seq, ' '.join(attrs), build_body(cfg))


def applicable(cfg, vals):
    """A long-lived template (fixed source) can take these values iff no absent attribute would need a value."""
    return effective_how(cfg, vals) == cfg['how']


def normalise(cfg, vals):
    """The configuration actually written for these values (random configurations)."""
    c = dict(cfg)
    c['how'] = effective_how(cfg, vals)
    if c['items'] in ('mapping', 'obj'):
        c['nopush'] = False             # the element's own variable is only reachable when the element is pushed
    if not c['prefix']:
        c['mask'] = 0
    if c.get('seqorder') == 'desc' and c['items'] not in ('mapping', 'obj'):
        c['seqorder'] = 'sort+reverse'  # the key/function/direction spelling needs a named key
    c.setdefault('seqorder', None)
    return c


class Rec:
    """An object element carrying v; it is as true or false as its value (a false OBJECT is an element too)."""

    def __init__(self, v):
        self.v = v

    def __bool__(self):
        return bool(self.v)


class SeqObj:
    """A sequence type of the caller's own: subscription (list semantics, IndexError past either end) and a
    length, nothing else -- neither a list / tuple nor an iterator."""

    def __init__(self, els):
        self._els = els

    def __len__(self):
        return len(self._els)

    def __getitem__(self, i):
        if not isinstance(i, int):
            raise TypeError('sequence index must be an int, not %s' % type(i).__name__)
        return self._els[i]


def content_values(content, length):
    """The values of elements 1..length for a content spec 'name:salt' (a pure function: replayable)."""
    name, _, salt = (content or 'num').partition(':')
    salt = int(salt or 0)
    if name == 'num':
        return [i + 1 for i in range(length)]
    if name == 'perm':
        vals = [i + 1 for i in range(length)]
        random.Random(salt * 1009 + length).shuffle(vals)
        if length > 1 and vals == sorted(vals):
            vals[0], vals[-1] = vals[-1], vals[0]
        return vals
    if name == 'none':
        return [None] * length
    if name == 'falsy':
        return [FALSY[(i + salt) % len(FALSY)] for i in range(length)]
    if name == 'holes':
        m = 2 + salt % 2
        return [None if (i + salt // 2) % m == 0 else i + 1 for i in range(length)]
    raise ValueError(content)


def sortable_value(v):
    return isinstance(v, int) and not isinstance(v, bool)


def wrap(kind, v, i):
    """The element that carries value v at input position i (0-based) for an item kind."""
    if kind == 'int':
        return v                        # the bare value (an int for the num / perm contents)
    if kind == 'str':
        return str(v) if v else ''
    if kind == 'pair':
        return ((v if sortable_value(v) else i + 1) * 10, v)
    if kind == 'mapping':
        return {'v': v}
    if kind == 'obj':
        return Rec(v)
    raise ValueError(kind)


def shown_text(kind, v):
    """What the body prints for the element carrying v (sequence-item, or the element's own variable v)."""
    if kind == 'str':
        return str(v) if v else ''
    return str(v)


def make_elements(length, kind='int', content='num'):
    return [wrap(kind, v, i) for i, v in enumerate(content_values(content, length))]


def make_seq(length, container, kind='int', content='num'):
    els = make_elements(length, kind, content)
    if container == 'list':
        return els
    if container == 'tuple':
        return tuple(els)
    if container == 'seqobj':
        return SeqObj(els)
    return ProbeIter(length, budget=length + 200, make=els.__getitem__)


def expected_items(length, kind='int', content='num', seqorder=None, rv=None):
    """Model of the shown order: the text printed for element numbers 1..length.  Written from the option
    documentation: sort orders by the element (text order for text elements, the key of (key,value) pairs --
    here 10*value) or by the named key v, ascending, desc inverted; reverse shows the exact reverse of that."""
    vals = content_values(content, length)
    if sorts(seqorder):
        if not all(sortable_value(v) for v in vals):
            raise ValueError('sort order over an unsortable content')
        if kind == 'str':
            vals.sort(key=str)
        else:
            vals.sort()
        if seqorder == 'desc':
            vals.reverse()
    if reverses(seqorder, rv):
        vals.reverse()
    return [shown_text(kind, v) for v in vals]


def draw_content(rng, cfg, p_num=0.4):
    """Content of one render: sortable where the configuration sorts."""
    so = (cfg or {}).get('seqorder')
    salt = rng.randrange(12)
    if sorts(so):
        return 'perm:%d' % salt if rng.random() < 0.8 else 'num'
    r = rng.random()
    if r < p_num:
        return 'num'
    if so and r < p_num + 0.25:
        return 'perm:%d' % salt         # reversing is visible
    return '%s:%d' % (rng.choice(['none', 'falsy', 'falsy', 'holes', 'holes', 'perm']), salt)


def draw_rv(rng, cfg):
    so = (cfg or {}).get('seqorder') or ''
    return rng.choice(RV_VALUES) if 'rexprv' in so else None


def make_value(v, form):
    if form == 'i':
        return v
    if form == 's':
        return str(v)
    if form == 'c':
        return lambda: v
    if form == 'C':
        return lambda: str(v)
    raise ValueError(form)


def namespace(vals, forms, cfg=None, rv=None):
    ns = {VARNAMES[k]: make_value(vals[k], forms[k]) for k in range(5)}
    so = (cfg or {}).get('seqorder') or ''
    if 'rexprv' in so:
        ns['rv'] = rv
    if 'sortx' in so:
        # the computed list of sort options: empty = by the element, else the named key
        ns['sx'] = 'v' if cfg['items'] in ('mapping', 'obj') else ''
    return ns


def split_nested(out):
    """Remove the {..} output of the nested loop; returns (outer text, list of inner outputs)."""
    inner = []
    parts = []
    pos = 0
    while True:
        a = out.find('{', pos)
        if a < 0:
            parts.append(out[pos:])
            break
        b = out.find('}', a)
        if b < 0:
            raise ValueError('unterminated nested-loop output in %r' % out[:80])
        parts.append(out[pos:a])
        inner.append(out[a:b + 1])
        pos = b + 1
    return ''.join(parts), inner


class T:
    """One template as the check uses it: source, compiled object, configuration and the calls made so far."""

    def __init__(self, HTML, src, cfg=None, literal=False, name='main'):
        self.src = src
        self.cfg = cfg
        self.literal = literal
        self.name = name
        self.tmpl = HTML(src)
        self.hist = deque(maxlen=3)
        self.renders = 0
        self.last_text = None               # (vals, forms) of the last render that passed a text value
        self.last_shown_reversed = None     # was the last render of this template shown in reverse?


def random_forms(rng):
    r = rng.random()
    if r < 0.3:
        return 'iiiii'
    if r < 0.55:
        return 'sssss'
    return ''.join(rng.choice('iiisssscC') for _ in range(5))


def random_cfg(rng):
    prefix = rng.choice([None, None, None, 'p', 'b', 'seq_x', 'Pg', 'nextBatch'])     # prefixes are case-sensitive names
    if prefix:
        mask = rng.choice([0, ALL, ALL, FLAG_BITS, rng.getrandbits(NF), rng.getrandbits(NF)])
    else:
        mask = 0
    return {'how': ''.join(rng.choice('LLVVA') for _ in range(5)),
            'quote': rng.random() < 0.3,
            'order': rng.randrange(16),
            'seqform': rng.choice(SEQFORMS),
            'prefix': prefix, 'mask': mask,
            'layout': rng.choice(LAYOUTS),
            'items': rng.choice(ITEMS),
            'nopush': rng.random() < 0.2,
            'seqorder': rng.choice((None,) * (len(SEQORDERS) - 1) + SEQORDERS[1:])}


def designed_cfgs():
    """The long-lived variant templates (all parameters through variables, so values change between renders)."""
    A, F = ALL, FLAG_BITS
    return [
        ('plain-twin', cfg_of()),                                     # same source as the main template: value forms
        ('prefix-all', cfg_of(prefix='p', mask=A)),
        ('prefix-dashed-names', cfg_of(prefix='p', mask=0)),
        ('prefix-flags-only', cfg_of(prefix='b', mask=F)),
        ('prefix-all-but-flags', cfg_of(prefix='Bx', mask=A & ~F)),
        ('prefix-alternating', cfg_of(prefix='p', mask=0x1555 & A)),
        ('sparse', cfg_of(layout='sparse')),
        ('sparse-prefix', cfg_of(layout='sparse', prefix='p', mask=A)),
        ('edge', cfg_of(layout='edge')),
        ('edge-prefix', cfg_of(layout='edge', prefix='p', mask=A, quote=True)),
        ('nested', cfg_of(layout='nested')),
        ('nested-prefix', cfg_of(layout='nested', prefix='p', mask=A)),
        ('nested-fault', cfg_of(layout='nestfault')),
        ('nested-fault-expr', cfg_of(layout='nestfault', seqform='shorthand', prefix='b', mask=F)),
        ('expr-shorthand', cfg_of(seqform='shorthand', order=5)),
        ('expr-attr-mapping', cfg_of(seqform='expr=', items='mapping', quote=True)),
        ('pairs-nopush', cfg_of(items='pair', nopush=True, order=3)),
        ('objects-named', cfg_of(items='obj', seqform='name=', order=8)),
        ('start-size-only', cfg_of(how='VAVAA')),                     # "typically, only start and size"
        ('strings-end-absent', cfg_of(how='VAVVV', items='str')),
        # the order options combined with the batch: the window is over the shown order
        ('reverse', cfg_of(seqorder='reverse')),
        ('reverse-expr-var', cfg_of(seqorder='rexprv', order=2)),       # reversal decided per render
        ('reverse-expr-false-edge', cfg_of(seqorder='rexpr0', layout='edge')),
        ('sort-reverse', cfg_of(seqorder='sort+reverse', order=7)),
        ('sort-strings', cfg_of(seqorder='sort', items='str', quote=True)),
        ('reverse-sparse-prefix', cfg_of(seqorder='rexpr1', layout='sparse', prefix='p', mask=A)),
        ('sort-expr-mapping-reverse-expr', cfg_of(seqorder='sortx+rexprv', items='mapping', seqform='expr=')),
        ('desc-objects', cfg_of(seqorder='desc', items='obj', seqform='name=')),
        ('reverse-start-size-only', cfg_of(seqorder='reverse', how='VAVAA')),
        ('reverse-nested-pairs', cfg_of(seqorder='reverse', layout='nested', items='pair')),
        ('sort-expr-pairs', cfg_of(seqorder='sortx', items='pair', order=4)),
    ]
