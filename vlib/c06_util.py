"""Helpers of check C06 (cooking terminates, polynomially, with a located ParseError only).

Four independent pieces, none of which looks at engine code:

* CPU sandbox     -- ``run_batch``: one grandchild interpreter per measurement batch; before every
                     input the child raises its own soft ``RLIMIT_CPU`` to *now + limit* CPU seconds,
                     measures ``time.process_time()`` around ``cook()`` (min of 3 repeats) and streams
                     the numbers back.  Verdicts are on CPU seconds only.
* growth tests    -- ``growth_verdict``: the three super-polynomial signatures of DESIGN C06.
* template source -- a small generator of VALID templates as token lists (nested tag tree with
                     known tag boundaries), a printer into the three surface syntaxes that returns
                     the offset/text of every tag, classified grammar mutations, and a structural
                     model (``judge``) written from the module docstrings that says whether a token
                     list obeys the tag grammar.
* message oracle  -- ``check_location``: "..., for tag T, on line N of NAME" with T a tag of the
                     source that starts on line N (HTML-quoted for the HTML class).
"""
import json
import os
import re
import signal
import subprocess
import sys
import tempfile
import time

TEMPLATE_NAME = 'TPL'          # __name__ given to every template: no character that needs quoting

# =====================================================================================
# CPU sandbox
# =====================================================================================
CPU_LIMIT = 20                 # CPU seconds per input (soft RLIMIT_CPU, SIGXCPU kills the child)
CPU_HARD = 900                 # hard RLIMIT_CPU of a whole batch (SIGKILL): the child always ends


def _child_main():
    """Grandchild: read {'limit', 'items': [[cls, src], ...]} from stdin, stream results."""
    import resource
    from vlib.worker import assert_repo
    assert_repo()
    from DocumentTemplate.DT_HTML import HTML
    from DocumentTemplate.DT_String import String
    import TreeDisplay.TreeTag  # noqa: F401  registers the tree tag
    classes = {'HTML': HTML, 'String': String}
    job = json.load(sys.stdin)
    limit = int(job['limit'])
    sys.setrecursionlimit(3000)
    soft, hard = resource.getrlimit(resource.RLIMIT_CPU)
    if hard == resource.RLIM_INFINITY or hard > CPU_HARD:
        hard = CPU_HARD
    out = sys.stdout
    for i, (cls, src) in enumerate(job['items']):
        now = time.process_time()
        resource.setrlimit(resource.RLIMIT_CPU, (min(int(now) + 1 + limit, hard), hard))
        out.write('S %d\n' % i)
        out.flush()
        best = None
        outcome = '?'
        for _rep in range(3):
            t = classes[cls](src, __name__=TEMPLATE_NAME)
            t0 = time.process_time()
            try:
                t.cook()
                outcome = 'ok'
            except BaseException as e:      # the type is data for the parent
                outcome = type(e).__name__
            dt = time.process_time() - t0
            best = dt if best is None else min(best, dt)
            if dt > 1.0:                    # one repeat is enough far above the thresholds
                break
        out.write('R %d %.6f %s\n' % (i, best, outcome))
        out.flush()
    out.write('E\n')
    out.flush()


def run_batch(items, limit=CPU_LIMIT, on_result=None):
    """Cook every (cls, src) of ``items`` in ONE sandbox child.

    Returns {'results': {index: (cpu_seconds, outcome)}, 'started': last index started or None,
    'death': None | 'rlimit' | 'other: ...', 'stopped': bool}.  ``on_result(index, cpu, outcome)``
    may return True to stop the batch early (the child is killed)."""
    home = os.environ.get('VERIF_HOME') or os.path.dirname(os.path.dirname(os.path.abspath(__file__)))
    errf = tempfile.TemporaryFile()
    p = subprocess.Popen([sys.executable, '-X', 'faulthandler', '-m', 'vlib.c06_util', '--child'],
                         stdin=subprocess.PIPE, stdout=subprocess.PIPE, stderr=errf,
                         cwd=home, env=dict(os.environ))
    p.stdin.write(json.dumps({'limit': limit, 'items': [list(x) for x in items]}).encode('utf-8'))
    p.stdin.close()
    results = {}
    started = None
    ended = False
    stopped = False
    for raw in p.stdout:
        f = raw.decode('utf-8', 'replace').split()
        if not f:
            continue
        if f[0] == 'S':
            started = int(f[1])
        elif f[0] == 'R':
            i = int(f[1])
            results[i] = (float(f[2]), f[3])
            if on_result is not None and on_result(i, float(f[2]), f[3]):
                stopped = True
                p.kill()
                break
        elif f[0] == 'E':
            ended = True
    p.stdout.close()
    rc = p.wait()
    death = None
    if not stopped and not ended:
        if rc in (-signal.SIGXCPU, -signal.SIGKILL) and started is not None and started not in results:
            death = 'rlimit'
        else:
            errf.seek(0)
            death = 'other: exit %s %s' % (rc, errf.read()[-600:].decode('utf-8', 'replace'))
    errf.close()
    return {'results': results, 'started': started, 'death': death, 'stopped': stopped}


# =====================================================================================
# growth tests (pure functions of the measured points)
# =====================================================================================
ADD_MIN_CPU = 0.005
ADD_RATIO = 2.5
DBL_MIN_CPU = 0.050
DBL_RATIO = 2 ** 3.5


def growth_verdict(points):
    """points: [(n, chars, cpu)] in increasing n.  -> None or a description of the signature.

    (a) additive step n -> n+2 with cpu(n) >= 5 ms and ratio >= 2.5, twice in a row;
    (b) doubling n -> 2n with cpu(n) >= 50 ms and ratio > 2**3.5, twice in a row."""
    run = 0
    for (n1, _c1, t1), (n2, _c2, t2) in zip(points, points[1:]):
        if n2 - n1 == 2 and t1 >= ADD_MIN_CPU and t2 / t1 >= ADD_RATIO:
            run += 1
            if run >= 2:
                return ('additive growth: cpu x%.1f per +2 items twice in a row up to n=%d (%.3fs)'
                        % (t2 / t1, n2, t2))
        else:
            run = 0
    run = 0
    for (n1, _c1, t1), (n2, _c2, t2) in zip(points, points[1:]):
        if n2 == 2 * n1 and t1 >= DBL_MIN_CPU and t2 / t1 > DBL_RATIO:
            run += 1
            if run >= 2:
                return ('doubling growth: cpu x%.1f per doubling twice in a row up to n=%d (%.3fs)'
                        % (t2 / t1, n2, t2))
        else:
            run = 0
    return None


def ladder(tier, cap=None):
    """The sizes of DESIGN C06: 8,10,..,40 and 64,128,..,8192 (thorough: ..,65536)."""
    top = 65536 if tier == 'thorough' else 8192
    sizes = list(range(8, 41, 2))
    n = 64
    while n <= top:
        sizes.append(n)
        n *= 2
    if cap is not None:
        sizes = [s for s in sizes if s < cap] + [cap]
    return sizes


def families(tier):
    """[(label, cls, bounded_cap or None, make(n) -> source)] -- the scaling families."""
    def nest(n, o, c):
        return ''.join(o % i for i in range(n)) + 'x' + c * n

    fam = [
        ('epfs unterminated %(a b*n', 'String', None, lambda n: '%(a ' + 'b' * n),
        ('epfs %(a "*n', 'String', None, lambda n: '%(a "' * n),
        ('epfs %(a b)*n no format', 'String', None, lambda n: '%(a b)' * n),
        ('epfs %(a b*n unterminated openers', 'String', None, lambda n: '%(a b' * n),
        ('epfs %(a b"c" *n unterminated openers', 'String', None, lambda n: '%(a b"c" ' * n),
        ('epfs quote pairs in unterminated tag', 'String', None, lambda n: '%(a ' + 'b"c"' * n),
        ('html <dtml-var " + >*n', 'HTML', None, lambda n: '<dtml-var "' + '>' * n),
        ('html <dtml-var + ">*n', 'HTML', None, lambda n: '<dtml-var ' + '">' * n),
        ('html &dtml-*n', 'HTML', None, lambda n: '&dtml-' * n),
        ('html &dtml-a*n;', 'HTML', None, lambda n: '&dtml-a' * n + ';'),
        ('html <!--#*n', 'HTML', None, lambda n: '<!--#' * n),
        ('html <dtml-*n', 'HTML', None, lambda n: '<dtml-' * n),
        ('html </dtml-*n', 'HTML', None, lambda n: '</dtml-' * n),
        ('html n sibling var tags', 'HTML', None, lambda n: '<dtml-var x>' * n),
        ('html n sibling entities', 'HTML', None, lambda n: '&dtml-x;' * n),
        ('ssi n sibling var tags', 'HTML', None, lambda n: '<!--#var x-->' * n),
        ('epfs n sibling var tags', 'String', None, lambda n: '%(x)s' * n),
        ('html n sibling if blocks', 'HTML', None, lambda n: '<dtml-if x>a</dtml-if>' * n),
        ('html n sibling tags inside one block', 'HTML', None,
         lambda n: '<dtml-if x>' + '<dtml-var y>' * n + '</dtml-if>'),
        ('epfs n sibling if blocks', 'String', None, lambda n: '%(if x)[a%(if x)]' * n),
        ('html n sibling blocks then unclosed block', 'HTML', None,
         lambda n: '<dtml-in x>' + '<dtml-if x>a</dtml-if>' * n),
        ('html one tag with n flags', 'HTML', 200, lambda n: '<dtml-var x' + ' upper' * n + '>'),
        ('html one comment tag with n attributes', 'HTML', 200,
         lambda n: '<dtml-comment' + ''.join(' a%d=%d' % (i, i) for i in range(n)) + '>x</dtml-comment>'),
        ('epfs one tag with n flags', 'String', 200, lambda n: '%(x' + ' upper' * n + ')s'),
        ('html quoted value of length n', 'HTML', None, lambda n: '<dtml-var x null="' + 'a' * n + '">'),
        ('html unquoted value of length n', 'HTML', None, lambda n: '<dtml-var x null=' + 'a' * n + '>'),
        ('html bare word of length n', 'HTML', None, lambda n: '<dtml-var ' + 'a' * n + '>'),
        ('html bare word of length n after a name', 'HTML', None, lambda n: '<dtml-var x ' + 'a' * n + '>'),
        ('html quoted unnamed value of length n', 'HTML', None, lambda n: '<dtml-var x "' + 'a' * n + '">'),
        ('html attribute name of length n', 'HTML', None, lambda n: '<dtml-var x ' + 'a' * n + '=1>'),
        ('html let bare word of length n', 'HTML', None, lambda n: '<dtml-let ' + 'a' * n + '>x</dtml-let>'),
        ('html entity name of length n', 'HTML', None, lambda n: '&dtml-' + 'a' * n + ';'),
        ('html entity name of length n unterminated', 'HTML', None, lambda n: '&dtml-' + 'a' * n + '!;'),
        ('html dotted entity name of length n unterminated', 'HTML', None, lambda n: '&dtml.' + 'a.' * n + '!;'),
        ('html blanks of length n inside a tag', 'HTML', None, lambda n: '<dtml-var x' + ' ' * n + 'y' + ' ' * n + '>'),
        ('epfs bare word of length n', 'String', None, lambda n: '%(var ' + 'a' * n + ')s'),
        ('epfs tag name of length n', 'String', None, lambda n: '%(' + 'a' * n + ' x)['),
        ('epfs format digits of length n', 'String', None, lambda n: '%(x)' + '1' * n + '!'),
        ('epfs quoted value of length n', 'String', None, lambda n: '%(x null="' + 'a' * n + '")s'),
        ('html if nesting depth n', 'HTML', 60,
         lambda n: nest(n, '<dtml-if x%d>', '</dtml-if>')),
        ('html mixed nesting depth n', 'HTML', 60,
         lambda n: ''.join(('<dtml-in s%d>', '<dtml-with w%d>', '<dtml-let a%d=b>')[i % 3] % i
                           for i in range(n)) + 'x' +
         ''.join(('</dtml-in>', '</dtml-with>', '</dtml-let>')[i % 3] for i in reversed(range(n)))),
        ('epfs if nesting depth n', 'String', 60,
         lambda n: nest(n, '%%(if x%d)[', '%(if)]')),
        ('html unclosed nesting depth n', 'HTML', 60,
         lambda n: ''.join('<dtml-if x%d>' % i for i in range(n))),
        ('html let with n bindings', 'HTML', 200,
         lambda n: '<dtml-let' + ''.join(' v%d=w%d' % (i, i) for i in range(n)) + '>x</dtml-let>'),
        ('html let with n expression bindings', 'HTML', 200,
         lambda n: '<dtml-let' + ''.join(' v%d="w%d+1"' % (i, i) for i in range(n)) + '>x</dtml-let>'),
        ('html n newlines before an error', 'HTML', None, lambda n: '\n' * n + '<dtml-foo x>'),
        ('epfs n newlines before an error', 'String', None, lambda n: '\n' * n + '%(foo x)['),
        ('html n lines each with an entity then an error', 'HTML', None,
         lambda n: '&dtml-x;\n' * n + '</dtml-if>'),
        ('html if with n elif branches', 'HTML', None,
         lambda n: '<dtml-if x>' + '<dtml-elif y>a' * n + '</dtml-if>'),
        ('html try with n except branches', 'HTML', None,
         lambda n: '<dtml-try>' + '<dtml-except E>a' * n + '</dtml-try>'),
        ('html text of n characters with lone < and &', 'HTML', None, lambda n: '<&' * n),
        ('epfs text of n percent signs', 'String', None, lambda n: '%' * n),
    ]
    return fam


# =====================================================================================
# message oracle
# =====================================================================================
def hq(s):
    """The HTML quoting of the four characters the HTML class documents for its source."""
    return s.replace('&', '&amp;').replace('<', '&lt;').replace('>', '&gt;').replace('"', '&quot;')


def unhq(s):
    return s.replace('&quot;', '"').replace('&gt;', '>').replace('&lt;', '<').replace('&amp;', '&')


_LOC = re.compile(r', on line (\d+) of %s\Z' % re.escape(TEMPLATE_NAME))
_FORTAG = ', for tag '


def looks_like_tag(t, cls):
    if cls == 'HTML':
        if t.startswith('<dtml-') or t.startswith('</dtml-'):
            return t.endswith('>')
        if t.startswith('<!--#'):
            return t.endswith('-->')
        if t.startswith('&dtml'):
            return t.endswith(';')
        return False
    # the format after ')' is not judged here (which letters count is left to the engine: it
    # matches case-insensitively, so e.g. U+212A KELVIN SIGN passes for 'k')
    return t.startswith('%(') and ')' in t[2:]


def line_of(src, off):
    return src.count('\n', 0, off) + 1


def check_location(cls, src, msg, tags=None):
    """-> (None, named_tag, line) when the message is well located, else (problem, None, None).

    tags: [(offset, text)] when the tag boundaries are known by construction (then T must be one
    of them); otherwise T must look like a tag of this syntax and occur in the source at an
    offset that lies on the reported line."""
    m = _LOC.search(msg)
    if m is None:
        return 'message does not end with ", on line N of %s"' % TEMPLATE_NAME, None, None
    line = int(m.group(1))
    body = msg[:m.start()]
    cands = []
    i = body.find(_FORTAG)
    while i >= 0:
        cands.append(body[i + len(_FORTAG):])
        i = body.find(_FORTAG, i + 1)
    if not cands:
        return 'message has no ", for tag T" part', None, None
    why = []
    for piece in cands:
        if cls == 'HTML':
            t = unhq(piece)
            if hq(t) != piece:
                why.append('tag text %r is not HTML-quoted' % piece[:80])
                continue
        else:
            t = piece
        if not t:
            why.append('empty tag text')
            continue
        if tags is not None:
            same = [o for o, x in tags if x == t]
            if not same:
                why.append('named tag %r is none of the %d tags of the source' % (t[:80], len(tags)))
                continue
            lines = sorted({line_of(src, o) for o in same})
            if line in lines:
                return None, t, line
            why.append('named tag %r starts on line %s, reported line %d' % (t[:80], lines, line))
            continue
        if not looks_like_tag(t, cls):
            why.append('named text %r is not a tag of this syntax' % t[:80])
            continue
        lines = set()
        o = src.find(t)
        while o >= 0:
            lines.add(line_of(src, o))
            o = src.find(t, o + 1)
        if not lines:
            why.append('named tag %r does not occur in the source' % t[:80])
            continue
        if line in lines:
            return None, t, line
        why.append('named tag %r starts on line %s, reported line %d' % (t[:80], sorted(lines)[:6], line))
    return '; '.join(why[:2]), None, None


_EXPR_ATTR = re.compile(r'(?i)(?:sort_|reverse_|branches_)?expr=("[^"]*"|[^\000- "=]+)')


def invalid_expr_attribute(src):
    """The explicit expr=-family attribute values of the source that are not valid Python
    (judged by compile(..., 'eval') here, independently of the engine).  -> list of values."""
    bad = []
    for m in _EXPR_ATTR.finditer(src):
        v = m.group(1)
        if v.startswith('"'):
            v = v[1:-1]
        v = v.strip()
        for cand in (v, v.replace('\n', ' ')):
            try:
                compile(cand, '<c06>', 'eval')
            except (SyntaxError, ValueError):
                bad.append(v)
                break
            except (RecursionError, MemoryError, OverflowError):
                bad.append(v)
                break
    return bad


# =====================================================================================
# valid templates as token lists
# =====================================================================================
# token: {'t': 'text', 's': str} | {'t': 'tag', 'kind': 'start'|'end'|'cont'|'single'|'entity',
#                                    'name': str, 'attrs': [[key|None, value|None, quoted], ...]}
# attrs[0] with key None is the positional (name or, when quoted, the "expr" shorthand);
# value None is a valueless flag.
SIMPLE_NAMES = ('x', 'y', 'item', 'seq', 'title', 'a_b', 'n1', 'obj')
ANY_NAMES = SIMPLE_NAMES + ('sequence-item', 'sequence-var-title', 'x.y')
TEXTS = ('hello', ' ', '\n', 'a b', '<b>bold</b>', '&amp;', '100% ', ' (note) ', 'x = "1"', "it's",
         '\n\n', '<p>', ' -- ', '; ', ' > ', '[1]', '!', 'dtml', 'var x', '\n  ', 'end.', ')s')
ATOMS = ('x', 'y', 'n1', '1', '42', "'s'", 'a.b', 'x[0]', "_['sequence-item']", '_.len(seq)',
         'f(a, b)', 'None', '(a, b)', "{'k': x}", '[i for i in seq]', 'obj.title')
BINOPS = (' + ', ' - ', ' * ', ' > ', ' < ', ' == ', ' and ', ' or ', ' in ', ' != ', ' >= ')
BAD_EXPRS = ('1 +', 'a b', '(x', 'x)', 'lambda', 'x ==', '1 2', 'for', "'abc", 'a,,b', 'x[', '..',
             'if x', 'x = 1', 'not', '*', "'\udc80'", 'x + \udcff', '\u20ac', "b'\xe9'", '0777', '(yield)', '')

VAR_FLAGS = ('lower', 'upper', 'capitalize', 'spacify', 'thousands_commas', 'html_quote',
             'url_quote', 'url_quote_plus', 'url_unquote', 'url_unquote_plus', 'sql_quote',
             'newline_to_br', 'url')
NAME_EXPR = ('name', 'expr')
# attribute tables written from the module docstrings (DT_Var, DT_In, DT_With, DT_Raise, DT_If,
# DT_Return) and, for tree, the Zope Book DTML reference.  value: True = takes a value.
TABLES = {
    'var': dict([(f, False) for f in VAR_FLAGS] +
                [(v, True) for v in NAME_EXPR + ('fmt', 'null', 'missing', 'size', 'etc')]),
    'call': dict((v, True) for v in NAME_EXPR),
    'return': dict((v, True) for v in NAME_EXPR),
    'if': dict((v, True) for v in NAME_EXPR),
    'elif': dict((v, True) for v in NAME_EXPR),
    'unless': dict((v, True) for v in NAME_EXPR),
    'with': dict([(v, True) for v in NAME_EXPR] + [('mapping', False)]),
    'raise': dict((v, True) for v in ('type', 'expr')),
    'in': dict([(v, True) for v in NAME_EXPR + ('sort', 'sort_expr', 'reverse_expr', 'start', 'end',
                                                'size', 'orphan', 'overlap', 'prefix')] +
               [(f, False) for f in ('mapping', 'reverse', 'no_push_item', 'previous', 'next')]),
    'tree': dict([(v, True) for v in NAME_EXPR + ('branches', 'branches_expr', 'id', 'url', 'leaves',
                                                  'header', 'footer', 'sort', 'expand', 'urlparam',
                                                  'prefix')] +
                 [(f, False) for f in ('nowrap', 'reverse', 'single', 'skip_unauthorized',
                                       'assume_children')]),
}
BATCH_GIVERS = ('start', 'end', 'size')
BATCH_ONLY = ('orphan', 'overlap', 'previous', 'next')
CONTINUATIONS = {'if': ('else', 'elif'), 'in': ('else',), 'try': ('except', 'else', 'finally')}
BLOCK_TAGS = ('if', 'unless', 'in', 'with', 'let', 'try', 'raise', 'comment', 'tree', 'else')
SINGLE_TAGS = ('var', 'call', 'return')
_SIMPLE = re.compile(r'[A-Za-z][A-Za-z0-9_]*\Z')


def text(s):
    return {'t': 'text', 's': s}


def tag(kind, name, attrs=()):
    return {'t': 'tag', 'kind': kind, 'name': name, 'attrs': [list(a) for a in attrs]}


def gen_expr(rng, depth=2):
    if depth <= 0 or rng.random() < 0.35:
        return rng.choice(ATOMS)
    k = rng.random()
    if k < 0.15:
        return '(not ' + gen_expr(rng, depth - 1) + ')'
    if k < 0.3:
        return '(' + gen_expr(rng, depth - 1) + ')'
    return gen_expr(rng, depth - 1) + rng.choice(BINOPS) + gen_expr(rng, depth - 1)


def gen_ref(rng, names=ANY_NAMES, name_key='name'):
    """One way of saying which value a tag works on: name, name=, "expr" or expr=."""
    k = rng.random()
    if k < 0.4:
        return [[None, rng.choice(names), False]]
    if k < 0.55:
        return [[name_key, rng.choice(names), rng.random() < 0.4]]
    e = gen_expr(rng)
    if k < 0.8:
        return [[None, e, True]]
    return [['expr', e, True]]


def gen_var(rng):
    attrs = gen_ref(rng)
    for f in rng.sample(VAR_FLAGS, rng.choice((0, 0, 0, 1, 1, 2, 3))):
        attrs.append([f, None, False])
    if rng.random() < 0.25:
        attrs.append(['fmt', rng.choice(('%.2f', 'whole-dollars', 'collection-length', 'x')), rng.random() < 0.5])
    if rng.random() < 0.2:
        attrs.append(['null', rng.choice(('n/a', '', 'none given', '<i>x</i>')), True])
    if rng.random() < 0.15:
        attrs.append(['missing', rng.choice(('0', 'nothing', '-')), rng.random() < 0.5])
    if rng.random() < 0.15:
        attrs.append(['size', str(rng.randint(1, 30)), False])
        if rng.random() < 0.5:
            attrs.append(['etc', rng.choice(('...', ' etc', '>>')), True])
    head, rest = attrs[:1], attrs[1:]
    rng.shuffle(rest)
    return tag('single', 'var', head + rest)


def gen_in_attrs(rng):
    attrs = gen_ref(rng, names=SIMPLE_NAMES)
    rest = []
    if rng.random() < 0.3:
        rest.append(['sort', rng.choice(('title', 'date,time', 'title/nocase/desc')), rng.random() < 0.5])
    elif rng.random() < 0.15:
        rest.append(['sort_expr', gen_expr(rng, 1), True])
    if rng.random() < 0.2:
        rest.append(['reverse', None, False])
    elif rng.random() < 0.1:
        rest.append(['reverse_expr', gen_expr(rng, 1), True])
    if rng.random() < 0.2:
        rest.append(['mapping', None, False])
    if rng.random() < 0.1:
        rest.append(['no_push_item', None, False])
    if rng.random() < 0.45:
        givers = rng.sample(BATCH_GIVERS, rng.choice((1, 1, 2, 3)))
        for g in givers:
            rest.append([g, rng.choice((str(rng.randint(1, 20)), 'batch_start', 'n1')), False])
        for o in rng.sample(BATCH_ONLY, rng.choice((0, 1, 2))):
            if o in ('previous', 'next'):
                rest.append([o, None, False])
            else:
                rest.append([o, str(rng.randint(0, 3)), False])
    if rng.random() < 0.2:
        rest.append(['prefix', rng.choice(('row', 'p1', 'Outer_x')), rng.random() < 0.3])
    rng.shuffle(rest)
    return attrs + rest


def gen_tree_attrs(rng):
    attrs = []
    if rng.random() < 0.7:
        attrs = gen_ref(rng, names=SIMPLE_NAMES)
    rest = []
    for k in rng.sample(('branches', 'id', 'url', 'leaves', 'header', 'footer', 'sort', 'expand',
                         'urlparam'), rng.choice((0, 1, 2, 3))):
        rest.append([k, rng.choice(SIMPLE_NAMES), rng.random() < 0.4])
    if rng.random() < 0.15:
        rest = [r for r in rest if r[0] != 'branches']
        rest.append(['branches_expr', gen_expr(rng, 1), True])
    for f in rng.sample(('nowrap', 'reverse', 'single', 'skip_unauthorized', 'assume_children'),
                        rng.choice((0, 0, 1, 2))):
        rest.append([f, None, False])
    if rng.random() < 0.2:
        rest.append(['prefix', rng.choice(('node', 't_1')), False])
    rng.shuffle(rest)
    if not attrs:
        # with no name/expr the first attribute must not be a bare word (it would be the name)
        rest.sort(key=lambda r: r[1] is None)
        if rest and rest[0][1] is None:
            return []
    return attrs + rest


def gen_body(rng, depth, force=None):
    toks = []
    n = rng.choice((1, 2, 2, 3, 4))
    kinds = []
    for _ in range(n):
        r = rng.random()
        if r < 0.3:
            kinds.append('text')
        elif r < 0.5:
            kinds.append('var')
        elif r < 0.58:
            kinds.append('entity')
        elif r < 0.64:
            kinds.append('call')
        elif r < 0.67:
            kinds.append('return')
        elif depth > 0:
            kinds.append(rng.choice(BLOCK_TAGS[:-1]))
        else:
            kinds.append('text')
    if force:
        kinds[rng.randrange(len(kinds))] = force
    for k in kinds:
        if k == 'text':
            toks.append(text(''.join(rng.choice(TEXTS) for _ in range(rng.randint(1, 3)))))
        elif k == 'var':
            toks.append(gen_var(rng))
        elif k == 'entity':
            mods = rng.sample(('url_quote', 'upper', 'html_quote', 'sql_quote', 'lower'),
                              rng.choice((0, 0, 1, 2)))
            toks.append(tag('entity', 'var', [[None, rng.choice(ANY_NAMES[:-1]), False]] +
                            [[m, None, False] for m in mods]))
        elif k in ('call', 'return'):
            toks.append(tag('single', k, gen_ref(rng)))
        else:
            toks.extend(gen_block(rng, k, depth - 1))
        if rng.random() < 0.5:
            toks.append(text(rng.choice(('\n', ' ', '\n\n', 'ok\n', ' and '))))
    return toks


def gen_block(rng, name, depth):
    toks = []
    if name == 'if':
        ref = gen_ref(rng)
        toks.append(tag('start', 'if', ref))
        toks.extend(gen_body(rng, depth))
        for _ in range(rng.choice((0, 0, 1, 2))):
            toks.append(tag('cont', 'elif', gen_ref(rng)))
            toks.extend(gen_body(rng, depth))
        if rng.random() < 0.6:
            eargs = []
            if len(ref) == 1 and ref[0][0] is None and not ref[0][2] and rng.random() < 0.3:
                eargs = [[None, ref[0][1], False]]      # <dtml-else x> repeating the name of <dtml-if x>
            toks.append(tag('cont', 'else', eargs))
            toks.extend(gen_body(rng, depth))
    elif name == 'unless':
        toks.append(tag('start', 'unless', gen_ref(rng)))
        toks.extend(gen_body(rng, depth))
    elif name == 'in':
        toks.append(tag('start', 'in', gen_in_attrs(rng)))
        toks.extend(gen_body(rng, depth))
        if rng.random() < 0.4:
            toks.append(tag('cont', 'else'))
            toks.extend(gen_body(rng, depth))
    elif name == 'with':
        attrs = gen_ref(rng)
        if rng.random() < 0.3:
            attrs.append(['mapping', None, False])
        toks.append(tag('start', 'with', attrs))
        toks.extend(gen_body(rng, depth))
    elif name == 'let':
        attrs = []
        for _ in range(rng.randint(1, 3)):
            if rng.random() < 0.5:
                attrs.append([rng.choice(SIMPLE_NAMES), rng.choice(ANY_NAMES), False])
            else:
                attrs.append([rng.choice(SIMPLE_NAMES), gen_expr(rng), True])
        toks.append(tag('start', 'let', attrs))
        toks.extend(gen_body(rng, depth))
    elif name == 'try':
        toks.append(tag('start', 'try'))
        toks.extend(gen_body(rng, depth))
        if rng.random() < 0.3:
            toks.append(tag('cont', 'finally'))
            toks.extend(gen_body(rng, depth))
        else:
            for _ in range(rng.choice((1, 1, 2))):
                names = rng.sample(('KeyError', 'ValueError', 'NameError', 'Unauthorized'),
                                   rng.choice((1, 1, 2)))
                toks.append(tag('cont', 'except', [[None, ' '.join(names), False]]))
                toks.extend(gen_body(rng, depth))
            if rng.random() < 0.3:
                toks.append(tag('cont', 'except'))
                toks.extend(gen_body(rng, depth))
            if rng.random() < 0.5:
                toks.append(tag('cont', 'else'))
                toks.extend(gen_body(rng, depth))
    elif name == 'raise':
        k = rng.random()
        if k < 0.4:
            attrs = [[None, rng.choice(('KeyError', 'ValueError', 'BadRequest')), False]]
        elif k < 0.7:
            attrs = [['type', rng.choice(('KeyError', 'Input Error')), True]]
        else:
            attrs = [['expr', gen_expr(rng, 1), True]]
        toks.append(tag('start', 'raise', attrs))
        toks.extend(gen_body(rng, 0))
    elif name == 'comment':
        toks.append(tag('start', 'comment'))
        toks.extend(gen_body(rng, min(depth, 1)))
    elif name == 'tree':
        toks.append(tag('start', 'tree', gen_tree_attrs(rng)))
        toks.extend(gen_body(rng, 0))
    else:
        raise ValueError(name)
    toks.append(tag('end', name))
    return toks


def gen_template(rng, force=None, depth=None):
    """A valid template: token list.  force: a tag kind the template must contain."""
    if depth is None:
        depth = rng.choice((1, 2, 2, 3))
    toks = gen_body(rng, depth, force=force)
    if rng.random() < 0.5:
        toks.insert(0, text(rng.choice(('<html>\n', '\n', 'Dear &amp; co,\n\n', '  '))))
    return toks


def attribute_grid():
    """Small valid templates that use every documented attribute on its own and the documented
    pairs (each batch giver x each batch-only option): [(label, token list)]."""
    out = []

    def block(name, attrs, conts=()):
        toks = [tag('start', name, attrs), text('body\n')]
        for c in conts:
            toks += [tag('cont', c), text('more\n')]
        return toks + [tag('end', name)]

    for f in VAR_FLAGS:
        out.append(('var ' + f, [tag('single', 'var', [[None, 'x', False], [f, None, False]])]))
        out.append(('var expr ' + f, [tag('single', 'var', [['expr', 'x + 1', True], [f, None, False]])]))
    for k, v, q in (('fmt', '%.2f', False), ('fmt', 'dollars-and-cents', True), ('null', 'n/a', True),
                    ('missing', '0', False), ('size', '10', False), ('etc', '...', True)):
        out.append(('var ' + k, [tag('single', 'var', [['name', 'x', False], [k, v, q]])]))
    out.append(('var size etc', [tag('single', 'var', [[None, 'x', False], ['size', '10', False],
                                                       ['etc', '..', True]])]))
    for g in BATCH_GIVERS:
        out.append(('in ' + g, block('in', [[None, 'seq', False], [g, '3', False]])))
        out.append(('in %s by name' % g, block('in', [[None, 'seq', False], [g, 'n1', False]], ('else',))))
        for o in BATCH_ONLY:
            oa = [o, None, False] if o in ('previous', 'next') else [o, '1', False]
            out.append(('in %s %s' % (g, o), block('in', [[None, 'seq', False], [g, '3', False], oa])))
            out.append(('in %s %s' % (o, g), block('in', [['expr', 'seq', True], oa, [g, '3', False]])))
    for k, v, q in (('sort', 'title', False), ('sort', 'a,b/nocase/desc', True), ('sort_expr', "'title'", True),
                    ('reverse_expr', 'x > 1', True), ('prefix', 'row', False)):
        out.append(('in ' + k, block('in', [[None, 'seq', False], [k, v, q]])))
    for f in ('mapping', 'reverse', 'no_push_item'):
        out.append(('in ' + f, block('in', [[None, 'seq', False], [f, None, False]])))
    out.append(('with mapping', block('with', [[None, 'x', False], ['mapping', None, False]])))
    out.append(('with expr', block('with', [['expr', 'x', True]])))
    for k in ('branches', 'id', 'url', 'leaves', 'header', 'footer', 'sort', 'expand', 'urlparam', 'prefix'):
        out.append(('tree ' + k, block('tree', [[None, 'obj', False], [k, 'name1', False]])))
        out.append(('tree only ' + k, block('tree', [[k, 'name1', True]])))
    out.append(('tree branches_expr', block('tree', [['expr', 'obj', True], ['branches_expr', 'obj.items()', True]])))
    for f in ('nowrap', 'reverse', 'single', 'skip_unauthorized', 'assume_children'):
        out.append(('tree ' + f, block('tree', [[None, 'obj', False], [f, None, False]])))
    out.append(('tree bare', block('tree', [])))
    for k in ('type', 'expr'):
        out.append(('raise ' + k, block('raise', [[k, 'KeyError', True]])))
    for n in ('if', 'unless'):
        for ref in ([[None, 'x', False]], [['name', 'x', False]], [['expr', 'x', True]], [[None, 'x', True]]):
            out.append(('%s %r' % (n, ref[0][0]), block(n, ref)))
    out.append(('if elif else', block('if', [[None, 'x', False]], ('else',))[:2] +
                [tag('cont', 'elif', [['expr', 'y', True]]), text('b'), tag('cont', 'else', [[None, 'x', False]]),
                 text('c'), tag('end', 'if')]))
    out.append(('try except else', [tag('start', 'try'), text('a'), tag('cont', 'except', [[None, 'KeyError', False]]),
                                    text('b'), tag('cont', 'except'), text('c'), tag('cont', 'else'), text('d'),
                                    tag('end', 'try')]))
    out.append(('try finally', [tag('start', 'try'), text('a'), tag('cont', 'finally'), text('b'), tag('end', 'try')]))
    out.append(('let', block('let', [['a', 'x', False], ['b', 'a + 1', True], ['a', 'b', False]])))
    out.append(('comment', block('comment', [])))
    for n in ('call', 'return'):
        out.append((n, [tag('single', n, [[None, 'x', False]])]))
        out.append((n + ' expr', [tag('single', n, [['expr', 'x', True]])]))
    for m in ('url_quote', 'html_quote', 'upper', 'sql_quote'):
        out.append(('entity ' + m, [tag('entity', 'var', [[None, 'x', False], [m, None, False]])]))
    out.append(('entity', [tag('entity', 'var', [[None, 'sequence-item', False]])]))
    return out


# =====================================================================================
# printer: token list -> source in one of the three syntaxes, with tag boundaries
# =====================================================================================
SYNTAXES = ('dtml', 'ssi', 'epfs')
CLASS_OF = {'dtml': 'HTML', 'ssi': 'HTML', 'epfs': 'String'}


def _attr_words(attrs, syntax):
    words = []
    for k, v, q in attrs:
        if k is None:
            if q:
                # the bare "expr" shorthand needs two blanks in %(...) syntax (DESIGN C07): spell expr=
                words.append(('expr="%s"' if syntax == 'epfs' else '"%s"') % v)
            else:
                words.append(v)
        elif v is None:
            words.append(k)
        elif q:
            words.append('%s="%s"' % (k, v))
        else:
            words.append('%s=%s' % (k, v))
    return words


def print_tag(tok, syntax, rng):
    kind, name = tok['kind'], tok['name']
    if kind == 'entity':
        ref = tok['attrs'][0][1]
        mods = [a[0] for a in tok['attrs'][1:]]
        if syntax == 'epfs':
            return '%(' + ' '.join([ref] + (mods or ['html_quote'])) + ')s'
        if mods:
            return '&dtml.' + '.'.join(mods) + '-' + ref + ';'
        return '&dtml-' + ref + ';'
    words = _attr_words(tok['attrs'], syntax)
    if kind == 'end':
        words = list(tok.get('endargs', ()))
        if not words and rng.random() < 0.15:
            words = ['x']                        # end-tag arguments are documented and ignored
    sep = rng.choice((' ', ' ', ' ', '  ', '\n', '\t', '\n    '))
    body = sep.join(words)
    tail = rng.choice(('', '', '', ' ', '\n')) if body else ''
    if syntax == 'dtml':
        if kind == 'end':
            return '</dtml-%s%s>' % (name, (' ' + body) if body else '')
        return '<dtml-%s%s%s>' % (name, (rng.choice((' ', ' ', '\n', '  ')) + body) if body else '', tail)
    if syntax == 'ssi':
        if kind == 'end':
            lead = rng.choice(('/', '/', 'end'))
            return '<!--#%s%s%s-->' % (lead, name, (' ' + body) if body else '')
        return '<!--#%s%s%s-->' % (name, (' ' + body) if body else '', tail)
    # epfs
    if kind == 'end':
        return '%%(%s%s)]' % (name, (' ' + body) if body else '')
    if kind == 'single' and name == 'var':
        if not tok['attrs']:
            return None           # %(var)s is a var NAMED var: "no attributes" cannot be spelled
        ref = tok['attrs'][0]
        if ref and ref[0] is None and not ref[2] and rng.random() < 0.5:
            return '%%(%s)%s' % (body, rng.choice(('s', 's', 's', 'd', '.2f', '12s')))
        return '%%(var%s)%s' % ((' ' + body) if body else '', rng.choice(('s', 's', 'd')))
    if kind == 'single':
        return '%%(%s%s)%s' % (name, (' ' + body) if body else '', rng.choice('[!'))
    return '%%(%s%s)[' % (name, (' ' + body) if body else '')


# Text that starts like an entity reference but is none by the documented form &dtml[.mod..]-name; : between the
# opener and the next ';' stands a character that no name or modifier can contain.  It is ordinary literal text, so it
# must change neither the verdict nor the location of anything (a scanner that "resumes after the next ';'" swallows
# the tags in between: seed C06-9).
LOOKALIKES = ('&dtml- ', '&dtml. ', '&dtml-=', '&dtml-a b', '&dtml.a b-c', '&dtml-x=1&y=2', '&dtml-\n', '&dtml.-',
              '&dtml-a,b', '&dtml.x y', '&dtml-x\t', 'Q&dtml-A ', '?a=1&dtml-size=20&sort=', '&dtml-(x)', '&dtml.a+b-c')


def decorate(toks, rng, mutated=None):
    """-> (tokens with entity look-alike text in front of some tags and a ';' text at the very end, new index of the
    token that had index `mutated`)."""
    out = []
    new_mut = None
    n_tags = sum(1 for t in toks if t['t'] == 'tag')
    pick = set(rng.sample(range(n_tags), min(n_tags, rng.choice((1, 1, 2, 3))))) if n_tags else set()
    if mutated is not None and rng.random() < 0.7:
        # the look-alike goes in front of the mutated tag more often than not
        k = sum(1 for t in toks[:mutated] if t['t'] == 'tag')
        pick.add(k)
    k = 0
    for i, t in enumerate(toks):
        if t['t'] == 'tag':
            if k in pick:
                out.append({'t': 'text', 's': rng.choice(LOOKALIKES), 'lookalike': True})
            k += 1
        if i == mutated:
            new_mut = len(out)
        out.append(t)
    out.append({'t': 'text', 's': rng.choice((';', ' ;', ';\n', 'a;b')), 'lookalike': True})
    return out, new_mut


def print_tokens(toks, syntax, rng):
    """-> (source, [(offset, text, token index)]) ; None when a text piece would read as a tag."""
    parts = []
    tags = []
    off = 0
    allowed = []
    for i, tok in enumerate(toks):
        if tok['t'] == 'text':
            s = tok['s']
            if tok.get('lookalike'):
                allowed.append((off - 1, off + len(s)))
        else:
            s = print_tag(tok, syntax, rng)
            if s is None:
                return None
            tags.append((off, s, i))
        parts.append(s)
        off += len(s)
    src = ''.join(parts)
    # generator self-check: the openers of the syntax occur exactly at the tag offsets
    openers = ('%(',) if syntax == 'epfs' else ('<dtml-', '</dtml-', '<!--#', '&dtml')
    starts = {o for o, _s, _i in tags}
    inside = []
    for o, s, _i in tags:
        inside.append((o, o + len(s)))
    for op in openers:
        p = src.find(op)
        while p >= 0:
            if p not in starts and not any(a < p < b for a, b in inside) and not any(a < p < b for a, b in allowed):
                return None
            p = src.find(op, p + 1)
    return src, tags


# =====================================================================================
# structural model of the tag grammar (from the docstrings)
# =====================================================================================
def judge_attrs(name, attrs):
    """-> ('valid'|'invalid'|'unknown', reason) for a tag that declares an attribute table."""
    tbl = TABLES.get(name)
    if tbl is None:
        return 'valid', ''
    n_name = n_expr = 0
    seen = {}
    unknown = None
    name_key = 'type' if name == 'raise' else 'name'
    for i, (k, v, q) in enumerate(attrs):
        if i == 0 and (k is None or v is None):
            # first specification without '=': the unnamed value (a name, or "expr" when quoted)
            if k is None and q:
                n_expr += 1
            else:
                n_name += 1
            continue
        if k is None:
            return 'unknown', 'unnamed value not in first position'
        key = k.lower() if v is not None else k
        if key not in tbl:
            return 'invalid', 'unknown attribute %s' % k
        if v is None:
            if tbl[key]:
                if name == 'tree':
                    return 'invalid', 'attribute %s requires a value' % k
                unknown = 'valueless use of valued attribute %s' % k
            if key in seen:
                unknown = 'duplicated valueless flag %s' % k
            seen[key] = seen.get(key, 0) + 1
            continue
        if not tbl[key]:
            unknown = 'flag %s given a value' % k
        if key in seen:
            return 'invalid', 'duplicate attribute %s' % k
        seen[key] = 1
        if key == name_key:
            n_name += 1
        elif key == 'expr':
            n_expr += 1
    if n_name and n_expr:
        return 'invalid', 'name and expr both'
    if n_name > 1 or n_expr > 1:
        return 'invalid', 'two names / two exprs'
    if not n_name and not n_expr and name != 'tree':
        return 'invalid', 'neither name nor expr'
    if name == 'in':
        if any(b in seen for b in BATCH_ONLY) and not any(g in seen for g in BATCH_GIVERS):
            return 'invalid', 'batch-only option without batch'
    if name in ('in', 'tree') and 'prefix' in seen:
        pv = [v for k, v, q in attrs if k and k.lower() == 'prefix' and v is not None]
        if pv and pv[0] and not _SIMPLE.match(pv[0]):
            return 'invalid', 'non-simple prefix'
    if name == 'tree' and 'branches' in seen and 'branches_expr' in seen:
        return 'invalid', 'branches and branches_expr both'
    for k, v, q in attrs:
        if tok_bad_expr(k, v, q):
            return 'invalid', 'invalid expression'
    if unknown:
        return 'unknown', unknown
    return 'valid', ''


def tok_bad_expr(k, v, q):
    if v is None:
        return False
    is_expr = (k is None and q) or (k is not None and k.lower().endswith('expr'))
    if not is_expr:
        return False
    try:
        compile(v.strip().replace('\n', ' '), '<c06>', 'eval')
        return False
    except (SyntaxError, ValueError):
        return True


def judge(toks):
    """Does the token list obey the tag grammar?  -> ('valid'|'invalid'|'unknown', reason)."""
    stack = []      # frames: [name, start attrs, [(cont name, attrs)]]
    unknown = None
    for tok in toks:
        if tok['t'] == 'text':
            continue
        kind, name, attrs = tok['kind'], tok['name'], tok['attrs']
        if kind == 'entity':
            continue
        if kind == 'single':
            if name not in SINGLE_TAGS:
                return 'invalid', 'unknown tag %s' % name
            v, why = judge_attrs(name, attrs)
            if v == 'invalid':
                return v, why
            if v == 'unknown':
                unknown = why
            continue
        if kind == 'cont':
            top = stack[-1] if stack else None
            if top is not None and name in CONTINUATIONS.get(top[0], ()):
                if name == 'else' and attrs:
                    ref = top[1]
                    same = (top[0] == 'if' and len(ref) == 1 and ref[0][0] is None and not ref[0][2] and
                            len(attrs) == 1 and attrs[0][:2] == [None, ref[0][1]] and not attrs[0][2])
                    if not same:
                        unknown = 'else with arguments other than the name of its if'
                top[2].append((name, attrs))
                continue
            if name == 'else':
                # outside if/in/try: the deprecated else START tag (DT_If docstring)
                if attrs:
                    unknown = 'deprecated else start tag'
                stack.append(['else', attrs, []])
                continue
            return 'invalid', 'misplaced continuation tag %s' % name
        if kind == 'start':
            if name not in BLOCK_TAGS:
                return 'invalid', 'unknown tag %s' % name
            stack.append([name, attrs, []])
            continue
        if kind == 'end':
            if not stack or stack[-1][0] != name:
                return 'invalid', 'end tag %s without matching start' % name
            fname, fattrs, conts = stack.pop()
            v, why = judge_frame(fname, fattrs, conts)
            if v == 'invalid':
                return v, why
            if v == 'unknown':
                unknown = why
    if stack:
        return 'invalid', 'missing end tag for %s' % stack[-1][0]
    if unknown:
        return 'unknown', unknown
    return 'valid', ''


def judge_frame(name, attrs, conts):
    unknown = None
    if name == 'else':
        v, why = judge_attrs('unless', attrs)
    elif name == 'let':
        v, why = 'valid', ''
        for k, val, q in attrs:
            if k is None or val is None:
                return 'unknown', 'let with a bare word'
            if q and tok_bad_expr(None, val, True):
                return 'invalid', 'invalid expression in let'
    else:
        v, why = judge_attrs(name, attrs)
    if v == 'invalid':
        return v, why
    if v == 'unknown':
        unknown = why
    cn = [c[0] for c in conts]
    if name == 'if':
        if cn.count('else') > 1:
            return 'invalid', 'repeated else'
        if 'else' in cn and cn[-1] != 'else':
            return 'invalid', 'elif after else'
        for c, a in conts:
            if c == 'elif':
                v, why = judge_attrs('elif', a)
                if v == 'invalid':
                    return v, why
                if v == 'unknown':
                    unknown = why
    elif name == 'in':
        if len(cn) > 1:
            return 'invalid', 'repeated else'
    elif name == 'try':
        if not cn:
            unknown = 'try without handlers'
        if 'finally' in cn and len(cn) > 1:
            return 'invalid', 'finally mixed with other blocks'
        if cn.count('else') > 1:
            return 'invalid', 'repeated else'
        if 'else' in cn and cn[-1] != 'else':
            return 'invalid', 'except after else'
        if sum(1 for c, a in conts if c == 'except' and not a) > 1:
            return 'invalid', 'two default handlers'
    if unknown:
        return 'unknown', unknown
    return 'valid', ''


# =====================================================================================
# classified mutations: (kind, new token list, index of the mutated tag or None)
# =====================================================================================
MUTATION_KINDS = ('end_deleted', 'end_swapped', 'start_deleted', 'else_duplicated', 'elif_after_else',
                  'except_after_else', 'finally_mixed', 'unknown_tag', 'unknown_attribute',
                  'duplicated_attribute', 'name_and_expr', 'neither_name_nor_expr',
                  'batch_only_without_batch', 'non_simple_prefix', 'valueless_needs_value',
                  'bad_shorthand_expression', 'bad_let_expression', 'bad_explicit_expression',
                  'shorthand_and_name', 'near_continuation_tag', 'garbage_parameter')
ATTR_KINDS = MUTATION_KINDS[8:19] + ('garbage_parameter',)
# letters-only fragments / near misses of the continuation tag names: unknown tags, wherever they stand
NEAR_CONTINUATIONS = ('els', 'lse', 'el', 'ls', 'se', 'e', 'l', 's', 'eli', 'lif', 'elf', 'exc', 'excep', 'cept',
                      'fin', 'final', 'inally', 'elsee', 'eelse', 'elifs', 'excepts', 'finallyy')


def else_with_arguments(toks):
    """An else tag that repeats a name: which tag an error names is then left open (DESIGN Traps)."""
    return any(t['t'] == 'tag' and t['kind'] == 'cont' and t['name'] == 'else' and t['attrs']
               for t in toks)


def _owners(toks):
    """index of cont/end token -> (index of its start token, start name) following the grammar."""
    own = {}
    stack = []
    for i, tok in enumerate(toks):
        if tok['t'] != 'tag':
            continue
        k = tok['kind']
        if k == 'start':
            stack.append(i)
        elif k == 'cont' and stack:
            own[i] = (stack[-1], toks[stack[-1]]['name'])
        elif k == 'end' and stack:
            own[i] = (stack[-1], toks[stack[-1]]['name'])
            stack.pop()
    return own


def _copy(toks):
    return [dict(t, attrs=[list(a) for a in t['attrs']]) if t['t'] == 'tag' else t for t in toks]


def mutations(toks, rng, per_kind=3):
    """Yield (kind, tokens, mutated tag index | None).  At most per_kind sites per kind."""
    own = _owners(toks)
    idx = [i for i, t in enumerate(toks) if t['t'] == 'tag']
    ends = [i for i in idx if toks[i]['kind'] == 'end']
    starts = [i for i in idx if toks[i]['kind'] == 'start']
    conts = [i for i in idx if toks[i]['kind'] == 'cont']

    def pick(seq):
        seq = list(seq)
        rng.shuffle(seq)
        return seq[:per_kind]

    for i in pick(ends):
        yield 'end_deleted', toks[:i] + toks[i + 1:], None
    pairs = [(i, j) for a, i in enumerate(ends) for j in ends[a + 1:] if toks[i]['name'] != toks[j]['name']]
    for i, j in pick(pairs):
        t = _copy(toks)
        t[i], t[j] = t[j], t[i]
        yield 'end_swapped', t, None
    for i in pick(starts):
        yield 'start_deleted', toks[:i] + toks[i + 1:], None
    for i in pick([c for c in conts if toks[c]['name'] == 'else' and c in own]):
        t = _copy(toks)
        t[i + 1:i + 1] = [text(rng.choice(('again', '\n', ' '))), tag('cont', 'else', toks[i]['attrs'])]
        yield 'else_duplicated', t, None
    for i in pick([c for c in conts if toks[c]['name'] == 'else' and own.get(c, (0, ''))[1] == 'if']):
        t = _copy(toks)
        t[i + 1:i + 1] = [text('late'), tag('cont', 'elif', gen_ref(rng))]
        yield 'elif_after_else', t, None
    for i in pick([c for c in conts if toks[c]['name'] == 'else' and own.get(c, (0, ''))[1] == 'try']):
        t = _copy(toks)
        t[i + 1:i + 1] = [text('late'), tag('cont', 'except', [[None, 'KeyError', False]])]
        yield 'except_after_else', t, None
    tries = [e for e in ends if toks[e]['name'] == 'try' and e in own]
    for e in pick(tries):
        s = own[e][0]
        mine = [toks[c]['name'] for c in conts if own.get(c, (None,))[0] == s]
        t = _copy(toks)
        if 'finally' in mine:
            t[s + 1:s + 1] = [text('body'), tag('cont', 'except', [[None, 'ValueError', False]])]
        else:
            t[e:e] = [tag('cont', 'finally'), text('cleanup')]
        yield 'finally_mixed', t, None
    for i in pick(starts + [i for i in idx if toks[i]['kind'] == 'single' and toks[i]['name'] != 'var']):
        t = _copy(toks)
        new = rng.choice(('foo', 'iff', 'elsif', 'vars', 'excepts', 'loop'))
        both = rng.random() < 0.5
        if t[i]['kind'] == 'start' and both:
            for e in ends:
                if own.get(e, (None,))[0] == i:
                    t[e]['name'] = new
        t[i]['name'] = new
        yield 'unknown_tag', t, None
    tabled = [i for i in idx if toks[i]['kind'] in ('start', 'single') and toks[i]['name'] in TABLES]
    for i in pick(tabled):
        t = _copy(toks)
        a = t[i]['attrs']
        new = rng.choice(([rng.choice(('bogus', 'colour', 'sizes', 'exprs', 'default_x')), '1', False],
                          ['bogus', 'a b', True], ['zzz', None, False]))
        a.insert(rng.randint(1, len(a)) if a else 0, new)
        yield 'unknown_attribute', t, i
    for i in pick([i for i in tabled if any(k is not None and v is not None for k, v, q in toks[i]['attrs'])]):
        t = _copy(toks)
        a = t[i]['attrs']
        src = rng.choice([x for x in a if x[0] is not None and x[1] is not None])
        dup = [src[0], src[1] if rng.random() < 0.5 else 'other', src[2]]
        a.insert(rng.randint(1, len(a)), dup)
        yield 'duplicated_attribute', t, i
    for i in pick([i for i in tabled if toks[i]['attrs']]):
        t = _copy(toks)
        a = t[i]['attrs']
        nk = 'type' if t[i]['name'] == 'raise' else 'name'
        first = a[0]
        has_expr = (first[0] is None and first[2]) or any(k == 'expr' for k, v, q in a)
        if has_expr:
            new = [nk, rng.choice(SIMPLE_NAMES), False]
        else:
            # the second giver in every form an attribute can take: a value, an empty value, no value at all
            new = rng.choice((['expr', gen_expr(rng, 1), True], ['expr', gen_expr(rng, 1), True], ['expr', '', True],
                              ['expr', None, False], ['expr', ' ', True]))
        a.insert(rng.randint(1, len(a)), new)
        yield 'name_and_expr', t, i
    for i in pick([i for i in tabled if toks[i]['attrs']]):
        t = _copy(toks)
        nk = 'type' if t[i]['name'] == 'raise' else 'name'
        a = [x for j, x in enumerate(t[i]['attrs'])
             if not ((j == 0 and x[0] is None) or x[0] in (nk, 'expr'))]
        if len(a) == len(t[i]['attrs']):
            continue
        t[i]['attrs'] = a
        yield 'neither_name_nor_expr', t, i
    for i in pick([i for i in starts if toks[i]['name'] == 'in' and
                   not any(k in BATCH_GIVERS for k, v, q in toks[i]['attrs'])]):
        t = _copy(toks)
        t[i]['attrs'] = [x for x in t[i]['attrs'] if x[0] not in BATCH_ONLY]
        o = rng.choice(BATCH_ONLY)
        t[i]['attrs'].append([o, None, False] if o in ('previous', 'next') else [o, '1', False])
        yield 'batch_only_without_batch', t, i
    for i in pick([i for i in starts if toks[i]['name'] in ('in', 'tree')]):
        t = _copy(toks)
        a = [x for x in t[i]['attrs'] if x[0] != 'prefix']
        bad = rng.choice((['prefix', 'a-b', False], ['prefix', '1x', False], ['prefix', 'a b', True],
                          ['prefix', 'sequence-', False], ['prefix', 'a.b', False]))
        if not a:
            continue
        a.append(bad)
        t[i]['attrs'] = a
        yield 'non_simple_prefix', t, i
    for i in pick([i for i in starts if toks[i]['name'] == 'tree' and toks[i]['attrs']]):
        t = _copy(toks)
        have = {x[0] for x in t[i]['attrs']}
        opts = [k for k in ('expand', 'leaves', 'header', 'footer', 'branches', 'id', 'url', 'sort',
                            'urlparam', 'prefix', 'branches_expr') if k not in have and
                not (k.startswith('branches') and ('branches' in have or 'branches_expr' in have))]
        if not opts:
            continue
        a = t[i]['attrs']
        a.insert(rng.randint(1, len(a)), [rng.choice(opts), None, False])
        yield 'valueless_needs_value', t, i
    shorthand = [i for i in tabled if toks[i]['attrs'] and toks[i]['attrs'][0][0] is None and
                 toks[i]['attrs'][0][2]]
    for i in pick(shorthand):
        t = _copy(toks)
        t[i]['attrs'][0][1] = rng.choice(BAD_EXPRS[:-1])
        yield 'bad_shorthand_expression', t, i
    lets = [i for i in starts if toks[i]['name'] == 'let']
    for i in pick(lets):
        t = _copy(toks)
        a = t[i]['attrs']
        j = rng.randrange(len(a))
        a[j] = [a[j][0], rng.choice(BAD_EXPRS[:-1]), True]
        yield 'bad_let_expression', t, i
    explicit = [i for i in tabled if any(k is not None and k.endswith('expr') for k, v, q in toks[i]['attrs'])]
    for i in pick(explicit):
        t = _copy(toks)
        a = rng.choice([x for x in t[i]['attrs'] if x[0] is not None and x[0].endswith('expr')])
        a[1] = rng.choice(BAD_EXPRS)
        yield 'bad_explicit_expression', t, i
    # the unnamed (shorthand) name together with an explicit name= / type=: two names
    named = [i for i in tabled if toks[i]['attrs'] and toks[i]['attrs'][0][0] is None and
             not toks[i]['attrs'][0][2] and toks[i]['attrs'][0][1] is not None]
    for i in pick(named):
        t = _copy(toks)
        a = t[i]['attrs']
        nk = 'type' if t[i]['name'] == 'raise' else 'name'
        if any(x[0] in (nk, 'expr') for x in a):
            continue
        a.insert(rng.randint(1, len(a)), [nk, rng.choice(SIMPLE_NAMES + (a[0][1],)), rng.random() < 0.3])
        yield 'shorthand_and_name', t, i
    # attribute text that is none of name, name=value, name="value", "value": a stray '=' (blank before or after
    # the equals sign of a pair), a value without a name
    for i in pick(tabled):
        t = _copy(toks)
        a = t[i]['attrs']
        if not a:
            continue        # in first position a lone word is the tag's unnamed value, whatever it looks like
        junk = rng.choice(('=', '=v', '="v"', '=1', '=='))
        a.insert(rng.randint(1, len(a)), [junk, None, False])
        yield 'garbage_parameter', t, i
    # an unknown tag named like a fragment of a continuation tag, directly inside a block (or at top level)
    for i in pick(starts + [None]):
        t = _copy(toks)
        at = 0 if i is None else i + 1
        t[at:at] = [tag('single', rng.choice(NEAR_CONTINUATIONS), [])]
        yield 'near_continuation_tag', t, None


# =====================================================================================
# unclassified inputs
# =====================================================================================
SOUP = ('<dtml-', '</dtml-', '<!--#', '-->', '&dtml-', '&dtml.', '&dtml', ';', '>', '"', "'", '=',
        '%(', ')', '[', ']', '!', ')s', ')[', ')]', '/', 'end', ' ', ' ', '  ', '\n', '\t',
        'var', 'in', 'if', 'else', 'elif', 'unless', 'with', 'let', 'try', 'except', 'finally',
        'raise', 'call', 'return', 'comment', 'tree', 'x', 'y', 'name', 'expr', 'sort', 'mapping',
        'prefix', 'size', 'start', 'orphan', 'previous', 'fmt', 'null', 'upper', 'html_quote',
        'expand', 'branches', 'sort_expr', 'type', 'a-b', '1', '+', '1 +', 's', 'd', '.', '-', '<',
        '&', '%', '(', 'x=y', 'x="1"', 'expr="x"', 'expr="1 +"', '"x"', '&dtml-x;', '<dtml-var x>',
        '</dtml-if>', '<dtml-if x>', '<dtml-else>', '%(if x)[', '%(if x)]', '%(else)[', '<dtml-in x>',
        '</dtml-in>', '<dtml-let', '<dtml-try>', '</dtml-try>', '<dtml-except>', '\x00', '#', ',',
        # non-ASCII: letters, blanks, line separators, astral, case-folding look-alikes, a lone surrogate
        '\xe9', '\xa0', '\u2028', '\x85', '\r', '\x0c', '\U0001f600', '\u017f', '\u212a', '\udc80',
        '"\'\udc80\'"', 'expr="\xe9"', '\\', '^', '`', '$', '{', '}', '|', '~', '*', '@', ':', '?', '0')


def gen_soup(rng):
    n = rng.choice((1, 2, 3, 4, 5, 6, 8, 10, 12, 16, 20, 25))
    return ''.join(rng.choice(SOUP) for _ in range(n))


def char_mutants(src, rng, ops=('delete', 'duplicate', 'swap')):
    """One mutation at every position."""
    for i in range(len(src)):
        for op in ops:
            if op == 'delete':
                yield op, i, src[:i] + src[i + 1:]
            elif op == 'duplicate':
                yield op, i, src[:i] + src[i] + src[i:]
            elif op == 'swap' and i + 1 < len(src) and src[i] != src[i + 1]:
                yield op, i, src[:i] + src[i + 1] + src[i] + src[i + 2:]


if __name__ == '__main__':
    if sys.argv[1:2] == ['--child']:
        _child_main()
