"""C10 helpers: element/sequence builders, template source printer, record parser and the
independent model of the documented dtml-in sequence variables.

A *case* is a JSON-able dict (see ``flat_case``/``nested_case``); ``evaluate`` renders it with the
real engine and compares the printed records with the model.  Nothing here looks at engine code:
the expectations come from the DT_In module docstring and the property statement.
"""
import builtins
import keyword
import re as _re
from collections import Counter
from collections.abc import Mapping as _Mapping

from vlib.common import ProbeIter

F = '\x1f'      # between fields of a record
R = '\x1e'      # after every record
G = '\x1d'      # around the dtml-in tag
ELSE = '\x1cELSE\x1c'
ELSE2 = '\x1ce2\x1c'   # second literal of a multi-block else body
SKIP = '\x1b'           # printed instead of a field whose gate is closed on this element
MISSING = '~'

FIXED = ('index', 'number', 'letter', 'Letter', 'roman', 'Roman', 'even', 'odd',
         'start', 'end', 'item', 'key', 'length')
TRUTH = ('even', 'odd', 'start', 'end')
FALSY = ('0', 'False', '', 'None', '0.0')

PART = {'obj': 'obj', 'map': 'map', 'str': 'str', 'int': 'int',
        'tup_obj': 'obj', 'tup_map': 'map', 'tup_str': 'str', 'tup_int': 'int',
        # arbitrary scalars as elements: None, False, 0, '', 0.0 next to true values
        'val': 'val', 'tup_val': 'val'}
KINDS = ('obj', 'map', 'str', 'int', 'tup_obj', 'tup_map', 'tup_str', 'tup_int')
WIDE_KINDS = KINDS + ('val', 'tup_val')
# element values of the kinds val / tup_val (JSON-able, pairwise distinct as text; the empty list
# and dictionary stand for false objects that are no scalars)
VALUE_POOL = (None, 0, '', False, 'a', 0.0, 1, True, [], {})


def is_tuple_kind(kind):
    return kind.startswith('tup_')


def has_x(kind, opts):
    """every element defines x for sequence-var-x / first-x / last-x and the plain name x"""
    p = PART[kind]
    return p == 'obj' or (p == 'map' and bool(opts.get('mapping')))


def sort_modes(kind, opts):
    """sort settings whose meaning is fixed by the documentation / pinned tests for this shape"""
    modes = [None]
    if has_x(kind, opts):
        modes.append('x')                 # sort=x
    if is_tuple_kind(kind):
        modes.append('key')               # valueless sort: by the key of the 2-tuples
    elif PART[kind] in ('str', 'int'):
        modes.append('item')              # sort=sequence-item: default sort of the elements
    return modes


def truthy(tok):
    return tok not in FALSY


def roman(n):
    """independent roman numeral writer (1..3999), upper case"""
    out = []
    for v, s in ((1000, 'M'), (900, 'CM'), (500, 'D'), (400, 'CD'), (100, 'C'), (90, 'XC'),
                 (50, 'L'), (40, 'XL'), (10, 'X'), (9, 'IX'), (5, 'V'), (4, 'IV'), (1, 'I')):
        while n >= v:
            out.append(s)
            n -= v
    return ''.join(out)


def roman_by_digits(n):
    """a second writer (digit by digit), used to cross-check the first one"""
    ones = ('', 'I', 'II', 'III', 'IV', 'V', 'VI', 'VII', 'VIII', 'IX')
    tens = ('', 'X', 'XX', 'XXX', 'XL', 'L', 'LX', 'LXX', 'LXXX', 'XC')
    hundreds = ('', 'C', 'CC', 'CCC', 'CD', 'D', 'DC', 'DCC', 'DCCC', 'CM')
    return 'M' * (n // 1000) + hundreds[n // 100 % 10] + tens[n // 10 % 10] + ones[n % 10]


def roman_selfcheck(top=3999):
    """the two writers of the model agree on 1..top (a flaw in the model must not pass as a
    verdict about the engine)"""
    return all(roman(n) == roman_by_digits(n) for n in range(1, top + 1))


# ------------------------------------------------------------------ probe values
class Obj:
    """instance element: attributes id, x (and kids for the nested family)"""

    def __init__(self, id, x=None, **kw):
        self.id = id
        self.x = x
        self.__dict__.update(kw)

    def __str__(self):
        return self.id
    __repr__ = __str__


class Lazy:
    """lazy sequence: only __getitem__/__len__ (old iteration protocol), reads are logged"""

    def __init__(self, data):
        self._d = list(data)
        self.gets = 0
        self.lens = 0

    def __getitem__(self, i):
        self.gets += 1
        if not isinstance(i, int):
            raise TypeError(i)
        if i < 0 or i >= len(self._d):
            raise IndexError(i)
        return self._d[i]

    def __len__(self):
        self.lens += 1
        return len(self._d)


def key_of(j):
    """distinct, deliberately unsorted keys for the 2-tuple kinds"""
    return 'k%02d' % ((j * 37 + 11) % 101)


def build_elements(kind, xs, vals=None, extras=None, keys=None):
    """-> (elements, descriptors); descriptor: j, text (str of the item part), x, id, key

    ``extras``: per element a dict of further attributes / keys (objects and mappings only);
    ``keys``: the keys of the 2-tuples (any values whose texts are pairwise distinct) instead of
    the default strings."""
    part = PART[kind]
    elements = []
    descs = []
    for j, x in enumerate(xs):
        d = {'j': j, 'id': 'e%d' % j, 'x': None, 'key': None}
        extra = extras[j] if extras else {}
        if part == 'obj':
            item = Obj('e%d' % j, x, **extra)
            d['x'] = x
        elif part == 'map':
            item = {'id': 'e%d' % j, 'x': x}
            item.update(extra)
            d['x'] = x
        else:
            item = vals[j]
            d['value'] = item
        d['text'] = str(item)
        if is_tuple_kind(kind):
            if keys is not None:
                d['key'] = str(keys[j])
                d['keyvalue'] = keys[j]
                elements.append((keys[j], item))
            else:
                d['key'] = key_of(j)
                elements.append((d['key'], item))
        else:
            elements.append(item)
        descs.append(d)
    return elements, descs


class OnlyIter:
    """an iterable that is nothing else (no __getitem__, no __len__)"""

    def __init__(self, data):
        self._d = list(data)

    def __iter__(self):
        return iter(list(self._d))


class OnlyGetitem:
    """the old iteration protocol alone: __getitem__ raising IndexError, no __len__"""

    def __init__(self, data):
        self._d = list(data)

    def __getitem__(self, i):
        if not isinstance(i, int):
            raise TypeError(i)
        if i < 0 or i >= len(self._d):
            raise IndexError(i)
        return self._d[i]


def make_container(name, elements):
    if name == 'list':
        return list(elements)
    if name == 'tuple':
        return tuple(elements)
    if name == 'gen':
        return (e for e in elements)
    if name == 'iter':
        data = list(elements)
        return ProbeIter(len(data), budget=len(data) + 5, make=lambda i: data[i])
    if name == 'lazy':
        return Lazy(elements)
    if name == 'dictitems':
        return dict(elements).items()
    if name == 'listiter':
        return iter(list(elements))
    if name == 'mapobj':
        return map(lambda e: e, list(elements))
    if name == 'dictvalues':
        return dict(enumerate(elements)).values()
    if name == 'iterable':
        return OnlyIter(elements)
    if name == 'getitem':
        return OnlyGetitem(elements)
    if name == 'deque':
        from collections import deque
        return deque(elements)
    raise ValueError(name)


CONTAINERS = ('list', 'tuple', 'gen', 'iter', 'lazy')
# further ways a sequence reaches the tag: other one-pass iterators, a dictionary view, an object
# that is iterable and nothing else, the old iteration protocol alone, another random-access type
MORE_CONTAINERS = ('listiter', 'mapobj', 'dictvalues', 'iterable', 'getitem', 'deque')
ALL_CONTAINERS = CONTAINERS + MORE_CONTAINERS


# ------------------------------------------------------------------ template printer
def var(name, missing=False):
    return '<dtml-var %s%s>' % (name, ' missing=' + MISSING if missing else '')


def iff(name):
    return '<dtml-if %s>T<dtml-else>F</dtml-if>' % name


class Syn:
    """one of the three documented tag spellings: ``<dtml-in ..>`` / ``<!--#in ..-->`` (class HTML)
    and the extended python format ``%(in ..)[`` (class String)"""

    STYLES = ('dtml', 'comment', 'epfs')

    def __init__(self, style='dtml'):
        if style not in self.STYLES:
            raise ValueError(style)
        self.style = style

    def var(self, name, missing=False):
        a = name + (' missing=' + MISSING if missing else '')
        if self.style == 'dtml':
            return '<dtml-var %s>' % a
        if self.style == 'comment':
            return '<!--#var %s-->' % a
        return '%%(%s)s' % a

    def entity(self, name):
        """``&dtml-name;`` = var name html_quote (HTML class only)"""
        return '&dtml-%s;' % name

    def open(self, tag, args=''):
        a = tag + (' ' + args if args else '')
        if self.style == 'dtml':
            return '<dtml-%s>' % a
        if self.style == 'comment':
            return '<!--#%s-->' % a
        return '%%(%s)[' % a

    def close(self, tag, how='plain', name='seq'):
        """how: plain | named (repeats the name) | end (``<!--#endin-->``, comment style only)"""
        a = tag + (' ' + name if how == 'named' else '')
        if self.style == 'dtml':
            return '</dtml-%s>' % a
        if self.style == 'comment':
            return '<!--#end%s-->' % tag if how == 'end' else '<!--#/%s-->' % a
        return '%%(%s)]' % a

    def iff(self, name):
        return self.open('if', name) + 'T' + self.open('else') + 'F' + self.close('if')

    def single(self, tag, args=''):
        """a tag without a body (HTML spellings)"""
        a = tag + (' ' + args if args else '')
        return '<dtml-%s>' % a if self.style == 'dtml' else '<!--#%s-->' % a

    def cond(self, ctype, text):
        """the argument of an if / elif / unless tag: a name or an expression"""
        if ctype == 'name':
            return text
        return '"%s"' % text if self.style == 'dtml' else 'expr="%s"' % text

    def gated(self, expr, inner):
        """inner where the expression is true, the SKIP token elsewhere"""
        cond = '"%s"' % expr if self.style == 'dtml' else 'expr="%s"' % expr
        return self.open('if', cond) + inner + self.open('else') + SKIP + self.close('if')


GROUP = {'first-x': 3, 'if:first-x': 3, 'last-x': 4, 'if:last-x': 4,
         'first-y': 5, 'if:first-y': 5, 'last-y': 6, 'if:last-y': 6,
         'name:x': 7, 'name:id': 7, 'sequence-start': 1, 'sequence-end': 1,
         'if:sequence-start': 1, 'if:sequence-end': 1, 'sequence-item': 2, 'sequence-key': 2,
         'sequence-length': 2, 'sequence-var-x': 2, 'sequence-var-y': 2}
NGROUPS = 9


def field_slots(labels, gran):
    """gate slot of every field of a record: one gate for the whole record, one per family of
    related variables, or one per field"""
    if gran == 'record':
        sl = [0] * len(labels)
    elif gran == 'group':
        sl = [8 if lab.startswith('alias:') else GROUP.get(lab, 0) for lab in labels]
    else:
        sl = list(range(len(labels)))
    return [None if lab == 'ident' else k for lab, k in zip(labels, sl)]   # None: never gated


def nslots(labels, gran):
    return 1 if gran == 'record' else (NGROUPS if gran == 'group' else len(labels))


def body_fields(kind, opts, batched, letters, syn=None, ys=False, entity=False, only=None):
    """ordered [(label, source)] of one record; only variables defined for this shape (``only``:
    of these, the labels listed and what identifies the element)"""
    if syn is None:
        v, cond = var, iff
    else:
        v, cond = syn.var, syn.iff
    f = []
    for nm in FIXED:
        if nm == 'key' and not is_tuple_kind(kind):
            continue            # defined for 2-tuples only
        if nm in ('letter', 'Letter') and not letters:
            continue            # beyond 26 elements the letters are not documented
        f.append(('sequence-' + nm, v('sequence-' + nm)))
    for nm in TRUTH:
        f.append(('if:sequence-' + nm, cond('sequence-' + nm)))
    if has_x(kind, opts):
        f.append(('sequence-var-x', v('sequence-var-x')))
        if ys:
            f.append(('sequence-var-y', v('sequence-var-y')))
        if not batched:
            for a in ('x', 'y') if ys else ('x',):
                f.append(('first-' + a, v('first-' + a)))
                f.append(('last-' + a, v('last-' + a)))
                f.append(('if:first-' + a, cond('first-' + a)))
                f.append(('if:last-' + a, cond('last-' + a)))
        f.append(('name:x', v('x', True)))
        f.append(('name:id', v('id', True)))
    p = opts.get('prefix')
    if p:
        for nm in FIXED:
            if nm == 'key' and not is_tuple_kind(kind):
                continue
            if nm in ('letter', 'Letter') and not letters:
                continue
            f.append(('alias:' + nm, v('%s_%s' % (p, nm))))
    if entity and syn is not None and syn.style != 'epfs':
        # the entity spelling of a plain read (values here contain nothing html_quote changes;
        # the element itself is left to the tag spelling: a mapping prints with quotes)
        out = []
        for k, (lab, src) in enumerate(f):
            if (k % 2 == 0 and not lab.startswith(('if:', 'name:'))
                    and lab not in ('sequence-item', 'alias:item')):
                name = ('%s_%s' % (p, lab[6:]) if lab.startswith('alias:') else lab)
                src = syn.entity(name)
            out.append((lab, src))
        f = out
    if only is not None:
        keep = set(only) | {'sequence-item', 'sequence-key'}
        f = [(lab, src) for lab, src in f if lab in keep]
    return f


def after_names(opts, batched, case=None):
    p = opts.get('prefix') or 'p'
    names = ['sequence-' + nm for nm in FIXED]
    names += ['sequence-var-x', 'first-x', 'last-x', 'x', 'id', 'mapping']
    names += ['%s_%s' % (p, nm) for nm in FIXED]
    if batched:
        names += ['sequence-step-size', 'next-sequence', 'previous-sequence',
                  'sequence-step-start-index']
    if case and case.get('ys'):
        names += ['sequence-var-y', 'first-y', 'last-y', 'y']
    if case and (case.get('gate') or {}).get('by') == 'attr':
        names += ['g']
    return names


def outer_namespace(opts):
    p = opts.get('prefix') or 'p'
    return {'x': 'OX', 'id': 'OID', 'sequence-item': 'OSI', 'sequence-index': 'OSX',
            'sequence-start': 'OSS', 'sequence-end': 'OSE', 'sequence-key': 'OSK',
            'sequence-var-x': 'OSV', 'first-x': 'OFX', 'last-x': 'OLX', 'mapping': 'OMAP',
            'sequence-length': 'OSL', 'sequence-number': 'OSN', p + '_item': 'OPI',
            p + '_index': 'OPX', p + '_start': 'OPS'}


def in_attrs(opts, form='name', seqname='seq', batch=None):
    a = [{'name': seqname, 'name=': 'name=%s' % seqname, 'expr': 'expr="%s"' % seqname,
          'quoted': '"%s"' % seqname}[form]]
    if opts.get('mapping'):
        a.append('mapping')
    if opts.get('no_push_item'):
        a.append('no_push_item')
    if opts.get('prefix'):
        a.append('prefix=%s' % opts['prefix'])
    s = opts.get('sort')
    if s == 'x':
        a.append('sort_expr="\'x\'"' if opts.get('sort_via') == 'expr' else 'sort=x')
    elif s == 'item':
        a.append('sort=sequence-item')
    elif s == 'key':
        a.append('sort')
    if opts.get('reverse_via') == 'expr':       # computed: may also say "do not reverse"
        a.append('reverse_expr="1==1"' if opts.get('reverse') else 'reverse_expr="1==0"')
    elif opts.get('reverse'):
        a.append('reverse')
    for k in ('start', 'size', 'end'):
        if batch and batch.get(k) is not None:
            a.append('%s=%d' % (k, batch[k]))
    return ' '.join(a)


def permuted(fields, seed):
    """the fields of a record in another reading order (own LCG: no hidden random state)"""
    f = list(fields)
    st = (seed * 2654435761 + 12345) & 0xffffffff
    for i in range(len(f) - 1, 0, -1):
        st = (st * 1103515245 + 12345) & 0x7fffffff
        j = st % (i + 1)
        f[i], f[j] = f[j], f[i]
    return f


# ------------------------------------------------------------------ block tags in the body
# What the statement says about the body holds wherever in the body a variable is read: before,
# inside and after any other block tag.  A *block* is a JSON-able spec; it is printed between two
# fields of the record and its own output is a field of the record.
#   ['if', [condition key, ...], else?]     if / elif ... / else chain
#   ['unless', condition key]
#   ['with', 'mapping' | 'only' | 'expr' | 'obj' | 'let']
#   ['try', 'except' | 'raise' | 'else' | 'finally' | 'in-raise' | 'in-name-raise' | 'in-sort-raise'
#           | 'in-reverse-raise']       (in-...: an inner loop failing in its body / when its sequence
#                                        is looked up / sorted / when reverse_expr is evaluated)
#   ['in', 'ints' | 'empty' | 'objs' | 'prefix' | 'expr']      an inner loop over another sequence
#   ['call'], ['comment']
CONDS = {
    'e1': ('expr', '1==1'), 'e0': ('expr', '1==0'),
    'epos': ('expr', "_['sequence-index'] > 0"),
    'etv': ('expr', 'tv==1'), 'efv': ('expr', 'fv==1'),
    'tv': ('name', 'tv'), 'fv': ('name', 'fv'), 'nv': ('name', 'nv'),
    'start': ('name', 'sequence-start'), 'end': ('name', 'sequence-end'),
    'even': ('name', 'sequence-even'), 'index': ('name', 'sequence-index'),
    'x': ('name', 'x'), 'id': ('name', 'id'),      # attributes of a pushed element
    'alias': ('name', '%s_odd'),                   # needs a prefix
}
COND_ANY = ('e1', 'e0', 'epos', 'etv', 'efv', 'tv', 'fv', 'nv', 'start', 'end', 'even', 'index')
BLOCK_VARIANTS = {'with': ('mapping', 'only', 'expr', 'obj', 'let'),
                  'try': ('except', 'raise', 'else', 'finally', 'in-raise', 'in-name-raise',
                          'in-sort-raise', 'in-reverse-raise'),
                  'in': ('ints', 'empty', 'objs', 'prefix', 'expr')}


def conds_for(opts, pushes):
    """condition keys defined for this shape"""
    out = list(COND_ANY)
    if pushes:
        out += ['x', 'id']
    if opts.get('prefix'):
        out.append('alias')
    return out


def cond_type(key):
    return CONDS[key][0]


def cond_text(key, opts):
    ctype, text = CONDS[key]
    if key == 'alias':
        text = text % opts['prefix']
    return ctype, text


def cond_truth(key, env):
    """documented truth of a condition on one shown element; env: a (index in the sequence), i
    (shown position), nrec, d (element descriptor)"""
    a, i = env['a'], env['i']
    if key in ('e1', 'etv', 'tv', 'id'):
        return True
    if key in ('e0', 'efv', 'fv', 'nv'):       # nv: an undefined name is false
        return False
    if key in ('epos', 'index'):
        return a > 0
    if key == 'start':
        return i == 0
    if key == 'end':
        return i == env['nrec'] - 1
    if key == 'even':
        return a % 2 == 0
    if key == 'alias':
        return a % 2 == 1
    if key == 'x':
        return bool(env['d']['x'])
    raise ValueError(key)


def block_kwargs():
    return {'tv': 1, 'fv': 0, 'wd': {'w': 5}, 'wo': Obj('wo', w=5), 'in2': [7, 8], 'in0': [],
            'kobj': [Obj('k0', 'KX')],
            'mixed': [Obj('m0', v=1), Obj('m1', v='one')]}     # sort keys that do not compare


def block_styles(spec):
    """tag spellings a block is generated for (tags without a body: the HTML spellings)"""
    return ('dtml', 'comment') if spec[0] == 'call' else Syn.STYLES


def block_source(syn, spec, opts, pushes=True):
    kind = spec[0]
    num = syn.var('sequence-number')
    if kind == 'if':
        out = []
        for k, ck in enumerate(spec[1]):
            out.append(syn.open('elif' if k else 'if', syn.cond(*cond_text(ck, opts))) + 'abcd'[k] + num)
        if spec[2]:
            out.append(syn.open('else') + 'z' + num)
        return ''.join(out) + syn.close('if')
    if kind == 'unless':
        return (syn.open('unless', syn.cond(*cond_text(spec[1], opts))) + 'u' + num +
                syn.close('unless'))
    if kind == 'with':
        v = spec[1]
        if v == 'let':
            return syn.open('let', 'w="5"') + 'W' + syn.var('w') + num + syn.close('let')
        args = {'mapping': 'wd mapping', 'only': 'wd mapping only', 'obj': 'wo',
                'expr': syn.cond('expr', '_.namespace(w=5)')}[v]
        return (syn.open('with', args) + 'W' + syn.var('w') + ('' if v == 'only' else num) +
                syn.close('with'))
    if kind == 'try':
        v = spec[1]
        o, c = syn.open, syn.close
        if v == 'except':
            return o('try') + 't' + syn.var('nv') + o('except') + 'E' + num + c('try')
        if v == 'raise':
            return (o('try') + o('with', 'wd mapping') + o('raise', 'KeyError') + 'm' + c('raise') +
                    c('with') + o('except', 'KeyError') + 'E' + num + c('try'))
        if v == 'else':
            return o('try') + 't' + o('except') + 'E' + o('else') + 'l' + num + c('try')
        if v == 'finally':
            return o('try') + 't' + num + o('finally') + 'f' + c('try')
        if v.startswith('in-'):
            args, body = {'in-raise': ('in2', syn.var('nv')),
                          'in-name-raise': ('nv', 'q'),
                          'in-sort-raise': ('mixed sort=v', 'q'),
                          'in-reverse-raise': ('in2 reverse_expr="nv"', 'q')}[v]
            return (o('try') + o('in', args) + body + c('in') + o('except') + 'E' + num +
                    c('try'))
    if kind == 'in':
        v = spec[1]
        o, c = syn.open, syn.close
        if v == 'ints':
            return o('in', 'in2') + syn.var('sequence-item') + c('in')
        if v == 'empty':
            return o('in', 'in0') + 'q' + o('else') + 'e' + num + c('in')
        if v == 'objs':
            return o('in', 'kobj') + syn.var('x') + syn.var('id') + c('in')
        if v == 'prefix':
            q = opts.get('prefix') or 'p'
            return o('in', 'in2 prefix=%s' % q) + syn.var(q + '_item') + c('in')
        if v == 'expr':
            return o('in', 'expr="in2" no_push_item') + syn.var('sequence-index') + c('in')
    if kind == 'call':
        return syn.single('call', syn.cond('expr', '1+1'))
    if kind == 'comment':
        return syn.open('comment') + 'zz' + syn.var('nv') + syn.close('comment')
    raise ValueError(spec)


def block_expect(spec, env, opts):
    """the text a block prints on one shown element, from the documentation of the tags"""
    kind = spec[0]
    num = str(env['a'] + 1)
    if kind == 'if':
        for k, ck in enumerate(spec[1]):
            if cond_truth(ck, env):
                return 'abcd'[k] + num
        return 'z' + num if spec[2] else ''
    if kind == 'unless':
        return '' if cond_truth(spec[1], env) else 'u' + num
    if kind == 'with':
        return 'W5' + ('' if spec[1] == 'only' else num)
    if kind == 'try':
        return {'else': 'tl' + num, 'finally': 't' + num + 'f'}.get(spec[1], 'E' + num)
    if kind == 'in':
        return {'ints': '78', 'empty': 'e' + num, 'objs': 'KXk0', 'prefix': '78', 'expr': '01'}[spec[1]]
    if kind in ('call', 'comment'):
        return ''
    raise ValueError(spec)


def block_code(spec, env=None):
    """coverage key of a block (with env: and of the branch taken)"""
    if spec[0] == 'if':
        code = '>'.join(cond_type(ck) for ck in spec[1]) + ('+else' if spec[2] else '')
        if env is not None:
            taken = [k for k, ck in enumerate(spec[1]) if cond_truth(ck, env)]
            code += ':' + ('abcd'[taken[0]] if taken else ('z' if spec[2] else '-'))
        return code
    if spec[0] == 'unless':
        return 'unless ' + cond_type(spec[1])
    return ' '.join(spec)


def expand_case(case):
    """a case that gives the length of its sequence as ``count`` instead of listing it"""
    if 'count' not in case or 'xs' in case:
        return case
    n = case['count']
    c = dict(case)
    c['xs'] = [(j * 7 // 10) % 3 for j in range(n)]
    part = PART[case['kind']]
    if part == 'int':
        c['vals'] = [(j * 7919) % 10007 for j in range(n)]
    elif part == 'str':
        c['vals'] = ['s%d' % ((j * 7919) % 10007) for j in range(n)]
    elif part == 'val':
        c['vals'] = [VALUE_POOL[(j * 5 + j // 8) % len(VALUE_POOL)] for j in range(n)]
    else:
        c['vals'] = None
    if is_tuple_kind(case['kind']) and n > 100 and case.get('keys') is None:
        c['keys'] = ['q%04d' % ((j * 7919) % 10007) for j in range(n)]   # the default keys repeat
    return c


def else_text(case):
    return ELSE + 'EV' + ELSE2 if (case.get('syntax') or {}).get('rich_else') else ELSE


def flat_source(case):
    """-> (source, [(label, source of the field)]) ; optional case keys beyond the basic ones:
    syntax {style, else: plain|named, end: plain|named|end, entity, rich_else}, gate {by: index|attr,
    gran: record|group|field, rows: [bit mask of open slots per position (index) / element (attr)]},
    ys (a second attribute with its own runs), perm (reading order of the fields)"""
    opts = case['opts']
    batch = case.get('batch')
    n = len(case['xs'])
    sx = case.get('syntax') or {}
    syn = Syn(sx.get('style', 'dtml'))
    form = case.get('form', 'name')
    only = case.get('only')
    fields = body_fields(case['kind'], opts, bool(batch),
                         n <= 26 or (only is not None and 'sequence-letter' in only), syn,
                         bool(case.get('ys')), bool(sx.get('entity')), only)
    if case.get('blocks'):
        # block tags between the reads: inserted from the back so that positions refer to the
        # plain record
        pushes = has_x(case['kind'], opts) and not opts.get('no_push_item')
        for k, (pos, spec) in sorted(enumerate(case['blocks']), key=lambda t: -t[1][0]):
            fields.insert(min(pos, len(fields)),
                          ('block:%d' % k, block_source(syn, spec, opts, pushes)))
    if case.get('perm') is not None:
        fields = permuted(fields, case['perm'])
    gate = case.get('gate')
    if gate:
        # what identifies the element is printed on every element; everything else is read only
        # where its gate is open
        fields = [('ident', syn.var('sequence-key' if is_tuple_kind(case['kind'])
                                    else 'sequence-item'))] + fields
        slots = field_slots([lab for lab, _ in fields], gate['gran'])
        pat = "gate[_['sequence-index']][%d]" if gate['by'] == 'index' else 'g[%d]'
        printed = [s if slots[k] is None else syn.gated(pat % slots[k], s)
                   for k, (_, s) in enumerate(fields)]
    else:
        printed = [s for _, s in fields]
    body = F.join(printed) + R
    src = ['B', G, syn.open('in', in_attrs(opts, form, 'seq', batch)), body]
    named = {'name': 'seq', 'name=': 'name=seq'}.get(form)
    if case.get('else'):
        src.append(syn.open('else', named if sx.get('else') == 'named' and named else ''))
        if sx.get('rich_else'):      # an else body of several blocks
            src += [ELSE, syn.var('ev', True), ELSE2]
        else:
            src.append(ELSE)
    src += [syn.close('in', sx.get('end', 'plain') if named else 'plain'), G, 'A']
    src.append(F.join(syn.var(nm, True) for nm in after_names(opts, bool(batch), case)))
    return ''.join(src), fields


def case_extras(case, labels=None):
    """-> (per element extra attributes or None, extra keyword arguments of the rendering)"""
    n = len(case['xs'])
    extras = [dict() for _ in range(n)]
    kw = {}
    ys = case.get('ys')
    if ys:
        for j in range(n):
            extras[j]['y'] = ys[j]
    gate = case.get('gate')
    if gate:
        if labels is None:
            labels = [lab for lab, _ in flat_source(case)[1]]
        k = nslots(labels, gate['gran'])
        rows = [[bool((m >> s) & 1) for s in range(k)] for m in gate['rows']]
        if gate['by'] == 'index':
            kw['gate'] = rows
        else:
            for j in range(n):
                extras[j]['g'] = rows[j]
    if (case.get('syntax') or {}).get('rich_else'):
        kw['ev'] = 'EV'
    if case.get('blocks'):
        kw.update(block_kwargs())
    return (extras if (ys or (gate and gate['by'] == 'attr')) else None), kw


def opts_code(opts):
    return ''.join([
        'M' if opts.get('mapping') else '-',
        'N' if opts.get('no_push_item') else '-',
        'P' if opts.get('prefix') else '-',
        {'x': 'E' if opts.get('sort_via') == 'expr' else 'X', 'item': 'I',
         'key': 'K'}.get(opts.get('sort'), '-'),
        ('T' if opts.get('reverse') else 'F') if opts.get('reverse_via') == 'expr'
        else ('R' if opts.get('reverse') else '-')])


# ------------------------------------------------------------------ the model
def window_of(n, batch):
    """1-based (first, last) of the displayed elements; only shapes the docstring fixes"""
    if not batch:
        return 1, n
    s, k, e = batch.get('start'), batch.get('size'), batch.get('end')
    if s is None and e is None:
        return 1, min(k, n)                     # size only
    if e is None:
        return s, min(s + k - 1, n)             # start + size, 1 <= start <= n
    return s, e                                 # start + end, 1 <= start <= end <= n


NESTED_FIELDS = ['sequence-index', 'sequence-number', 'sequence-start', 'sequence-end',
                 'sequence-item', 'sequence-length', 'sequence-even']
NESTED_ALIAS = ('index', 'number', 'start', 'end', 'item', 'length')


def nested_source(case):
    """-> (source, outer elements, global inner elements) of a nested case"""
    kids = case['kids']                 # inner length per outer element
    op, ip = case.get('oprefix'), case.get('iprefix')
    outer = []
    for a, m in enumerate(kids):
        ks = [Obj('k%d_%d' % (a, b), iid='i%d_%d' % (a, b)) for b in range(m)]
        outer.append(Obj('o%d' % a, oid='oid%d' % a, kids=ks))
    glob = [Obj('g%d' % b, iid='gi%d' % b) for b in range(case.get('gkids', 0))]
    ofields = NESTED_FIELDS
    oalias = ['%s_%s' % (op, nm) for nm in NESTED_ALIAS] if op else []
    ialias = ['%s_%s' % (ip, nm) for nm in NESTED_ALIAS] if ip else []

    def rec(tag, names):
        return tag + F + F.join(var(nm, True) for nm in names) + R
    iname = 'kids' if case.get('inner', 'attr') == 'attr' else 'gk'
    src = ('B' + G + '<dtml-in ' + in_attrs({'prefix': op}, 'name', 'outer') + '>' +
           rec('O1', ofields + oalias) +
           '<dtml-in ' + in_attrs({'prefix': ip}, 'name', iname) + '>' +
           rec('I', ofields + ialias + oalias + ['oid', 'iid']) +
           '</dtml-in>' + rec('O2', ofields + oalias) + '</dtml-in>' + G + 'A' +
           F.join(var(nm, True) for nm in ofields + oalias + ialias + ['oid', 'iid']))
    return src, outer, glob


# ------------------------------------------------------------------ element attribute names
# The names family: what an element exposes is visible in the body *whatever it is called*.
# Names are not restricted to python identifiers (an object can carry any string in its __dict__
# or serve it through __getattr__; a mapping can have any key), and a name may look like a
# sequence variable without being one.

TAG_NAME = _re.compile(r'[A-Za-z][-A-Za-z0-9_]*\Z').match       # written as a bare word in a tag
IDENT_NAME = _re.compile(r'[A-Za-z][A-Za-z0-9_]*\Z').match
SEQ_WORDS = ('sequence', 'first', 'last', 'next', 'previous', 'batch', 'total', 'count', 'min',
             'max', 'median', 'mean', 'variance', 'standard')
SV_SUFFIXES = ('number', 'item', 'length', 'key', 'index', 'start', 'end', 'even', 'odd', 'roman',
               'letter', 'value', 'first', 'last', 'query', 'data', 'items', 'statistics')
NAME_RESERVED = frozenset(('x', 'id', 'y', 'g', 'seq', 'gate', 'ev', 'kids', 'mapping'))
NAME_SOURCES = {'obj': ('dict', 'getattr', 'class', 'prop'), 'map': ('dict', 'cmap', 'udict')}
NAME_FORMS = ('var', 'if', 'entity', 'item', 'getitem', 'has', 'py',
              'svar', 'first', 'last', 'iffirst', 'iflast')
NOT_PY = frozenset(keyword.kwlist) | frozenset(dir(builtins))


def name_class(nm, prefix=None):
    if prefix and nm.startswith(prefix + '_'):
        return 'prefix-like'          # p_foo: looks like an alias of the prefix, is none
    if not TAG_NAME(nm):
        return 'expr-only'            # reachable through _[...] only
    if '-' in nm and nm.split('-')[0] in SEQ_WORDS:
        return 'seq-like'             # sequence-foo, first-q7, total-q7: looks like a sequence variable
    if '-' in nm:
        return 'dashed'
    if nm in SV_SUFFIXES:
        return 'sv-suffix'            # the plain word a sequence variable ends in
    return 'ident'


def name_conflicts(nm, prefix=None):
    """the name is (or may be) bound by the tag itself: two sentences of the statement would
    claim it, so it is not used as an element attribute"""
    if nm in NAME_RESERVED or nm.startswith('_') or not nm:
        return True
    if prefix and nm.startswith(prefix + '_') and nm[len(prefix) + 1:].replace('_', '-') in FIXED:
        return True
    if nm.startswith('sequence-') and nm[9:] in FIXED:
        return True
    return (nm.endswith(('-sequence', '-batches')) or
            nm in ('first-x', 'last-x', 'first-id', 'last-id', 'sequence-var-x', 'sequence-var-id',
                   'sequence-query', 'sequence-step-size', 'sequence-step-start-index'))


def name_seqlike(nm, prefix=None):
    """a name whose lookup, where no element defines it, is a sequence variable computation of
    undocumented outcome: read only where the current element defines it"""
    return name_class(nm, prefix) in ('prefix-like', 'seq-like')


class NBase:
    def __init__(self, id, x):
        self.id = id
        self.x = x

    def __str__(self):
        return self.id
    __repr__ = __str__


class NGet(NBase):
    """serves its extra attributes through __getattr__ (a container exposing children by id)"""

    def __init__(self, id, x, extra):
        NBase.__init__(self, id, x)
        self._extra = dict(extra)

    def __getattr__(self, name):
        if name.startswith('_'):
            raise AttributeError(name)
        try:
            return self._extra[name]
        except KeyError:
            raise AttributeError(name)


class NMap(_Mapping):
    """a mapping that is no dict (collections.abc.Mapping over a private dict)"""

    def __init__(self, d):
        self._d = dict(d)

    def __getitem__(self, k):
        return self._d[k]

    def __iter__(self):
        return iter(self._d)

    def __len__(self):
        return len(self._d)

    def __str__(self):
        return self._d['id']
    __repr__ = __str__


def name_element(part, src, id, x, attrs):
    if part == 'map':
        d = {'id': id, 'x': x}
        d.update(attrs)
        if src == 'cmap':
            return NMap(d)
        if src == 'udict':
            from collections import UserDict
            return UserDict(d)
        return d
    if src == 'getattr':
        return NGet(id, x, attrs)
    if src == 'class':          # attributes of the class of the element
        return type('NCls', (NBase,), dict(attrs))(id, x)
    if src == 'prop':           # computed attributes
        return type('NProp', (NBase,), {k: property(lambda self, v=v: v)
                                        for k, v in attrs.items()})(id, x)
    o = NBase(id, x)
    for k, v in attrs.items():
        setattr(o, k, v)
    return o


def names_pushes(case):
    return not case['opts'].get('no_push_item')


def names_nested(case):
    return bool(case.get('kids')) and names_pushes(case)


def names_plan(case):
    """-> [(name index, effective form)]: the reads of one record.  A requested form that the
    shape of the case does not define falls back to one that it does (has / var); reads of a
    sequence-variable look-alike are dropped where an element does not define it."""
    names, opts = case['names'], case['opts']
    n = len(case['xs'])
    pfx = opts.get('prefix')
    pushes = names_pushes(case)
    nested = names_nested(case)
    style = case.get('style', 'dtml')
    out = []
    for ni, form in case['reads']:
        nm = names[ni]
        on_all = all((case['has'][j] >> ni) & 1 for j in range(n))
        everywhere = bool((case['outer'] >> ni) & 1) or (pushes and on_all)
        if name_seqlike(nm, pfx):
            if not (pushes and on_all) or nested:
                continue
        tag_ok = bool(TAG_NAME(nm))
        ident = bool(IDENT_NAME(nm))
        if form in ('svar', 'first', 'last', 'iffirst', 'iflast'):
            if not (ident and on_all and not name_seqlike(nm, pfx) and not nested
                    and nm not in NAME_RESERVED) or (form != 'svar' and case.get('batch')):
                form = 'var'
        if form == 'py' and not (ident and nm not in NOT_PY):
            form = 'item'
        if form == 'entity' and (not tag_ok or style == 'epfs'):
            form = 'item'
        if form in ('entity', 'item', 'getitem', 'py') and not everywhere:
            form = 'var'
        if form in ('var', 'if') and not tag_ok:
            form = 'has'
        out.append((ni, form))
    return out


def _q(nm):
    return "'%s'" % nm


def names_read_source(syn, nm, form):
    if form == 'var':
        return syn.var(nm, True)
    if form == 'if':
        return syn.iff(nm)
    if form == 'entity':
        return syn.entity(nm)
    if form == 'item':
        return _expr_var(syn, '_[%s]' % _q(nm))
    if form == 'getitem':
        return _expr_var(syn, '_.getitem(%s, 1)' % _q(nm))
    if form == 'py':
        return _expr_var(syn, nm)
    if form == 'has':
        cond = '_.has_key(%s)' % _q(nm)
        cond = '"%s"' % cond if syn.style == 'dtml' else 'expr="%s"' % cond
        return syn.open('if', cond) + 'T' + syn.open('else') + 'F' + syn.close('if')
    if form == 'svar':
        return syn.var('sequence-var-' + nm)
    if form in ('first', 'last'):
        return syn.var('%s-%s' % (form, nm))
    if form in ('iffirst', 'iflast'):
        return syn.iff('%s-%s' % (form[2:], nm))
    raise ValueError(form)


def _expr_var(syn, e):
    if syn.style == 'dtml':
        return '<dtml-var "%s">' % e
    if syn.style == 'comment':
        return '<!--#var expr="%s"-->' % e
    return '%%(var expr="%s")s' % e


def names_after(case):
    """[(name index, form)] of the probe after the end tag"""
    return [(ni, 'var' if TAG_NAME(nm) else 'has') for ni, nm in enumerate(case['names'])]


def names_source(case):
    opts = case['opts']
    kind = case['kind']
    syn = Syn(case.get('style', 'dtml'))
    names = case['names']
    plan = names_plan(case)
    ident = syn.var('sequence-key' if is_tuple_kind(kind) else 'sequence-item')
    reads = [names_read_source(syn, names[ni], form) for ni, form in plan]

    def rec(tag, idsrc, fields):
        return F.join([tag, idsrc] + fields) + R
    body = rec('E', ident, reads)
    if names_nested(case):
        iopts = dict(case.get('iopts') or {}, mapping=opts.get('mapping'))
        body += (syn.open('in', in_attrs(iopts, 'name', 'kids')) +
                 rec('K', syn.var('sequence-item'), reads) +
                 syn.close('in') + rec('L', ident, reads))
    form = case.get('form', 'name')
    if form == 'quoted' and syn.style == 'epfs':
        form = 'expr'               # the "..." shorthand belongs to the HTML spellings
    src = ['B', G, syn.open('in', in_attrs(opts, form, 'seq', case.get('batch'))),
           body, syn.close('in'), G, 'A',
           F.join(names_read_source(syn, names[ni], f) for ni, f in names_after(case))]
    return ''.join(src), plan


def names_elements(case):
    """-> (elements, descriptors); descriptor: j, text, x, key, attrs {name index: value},
    kids [{text, attrs}]"""
    kind = case['kind']
    part = PART[kind]
    names = case['names']
    nested = names_nested(case)
    elements, descs = [], []
    for j, x in enumerate(case['xs']):
        attrs = {ni: case['vals'][ni][j] for ni in range(len(names)) if (case['has'][j] >> ni) & 1}
        named = {names[ni]: v for ni, v in attrs.items()}
        d = {'j': j, 'x': x, 'key': None, 'attrs': attrs, 'kids': []}
        if nested:
            kids = []
            for b, mask in enumerate(case['kids'][j]):
                kattrs = {ni: 'K%d.%d.%d' % (ni, j, b) for ni in range(len(names)) if (mask >> ni) & 1}
                kid = name_element(part, case['src'], 'k%d_%d' % (j, b), b,
                                   {names[ni]: v for ni, v in kattrs.items()})
                kids.append(kid)
                d['kids'].append({'text': str(kid), 'attrs': kattrs})
            named['kids'] = kids
        item = name_element(part, case['src'], 'e%d' % j, x, named)
        d['text'] = str(item)
        if is_tuple_kind(kind):
            d['key'] = key_of(j)
            elements.append((d['key'], item))
        else:
            elements.append(item)
        descs.append(d)
    return elements, descs


def names_outer(case):
    return {nm: 'O%d' % ni for ni, nm in enumerate(case['names']) if (case['outer'] >> ni) & 1}


def py_truth(v):
    return bool(v)


class Tally:
    """local counters, flushed into ctx once per shard"""

    def __init__(self):
        self.count = Counter()
        self.tables = {}

    def c(self, key, n=1):
        self.count[key] += n

    def t(self, name, key, n=1):
        self.tables.setdefault(name, Counter())[key] += n

    def flush(self, ctx):
        for k, v in self.count.items():
            ctx.count(k, v)
        for name, tab in self.tables.items():
            for k, v in tab.items():
                ctx.table(name, k, v)
        self.count.clear()
        self.tables.clear()


def show(s, limit=700):
    s = s.replace(F, '|').replace(R, '\n').replace(G, '#').replace('\x1c', '^')
    return s if len(s) <= limit else s[:limit] + '...(%d)' % len(s)


class Harness:
    def __init__(self, ctx, HTML):
        self.ctx = ctx
        self.HTML = HTML
        self.cache = {}
        self.tally = Tally()

    def template(self, src, style='dtml'):
        t = self.cache.get(src)
        if t is None:
            if len(self.cache) > 3000:
                self.cache.clear()
            if style == 'epfs':
                from DocumentTemplate.DT_String import String
                t = String(src)
            else:
                t = self.HTML(src)
            self.cache[src] = t
            self.tally.c('templates compiled')
        return t

    # -------------------------------------------------------------- flat / batch
    def evaluate(self, case, classify=None):
        if case['family'] == 'nested':
            return self.evaluate_nested(case, classify)
        if case['family'] == 'names':
            return self.evaluate_names(case, classify)
        ctx, T = self.ctx, self.tally
        given = case
        case = expand_case(case)        # reported / replayed in the compact form
        kind, opts = case['kind'], case['opts']
        xs = case['xs']
        n = len(xs)
        batch = case.get('batch')
        src, fields = flat_source(case)
        extras, kwargs = case_extras(case, [lab for lab, _ in fields])
        elements, descs = build_elements(kind, xs, case.get('vals'), extras, case.get('keys'))
        if case.get('ys'):
            for d, y in zip(descs, case['ys']):
                d['y'] = y
        seq = make_container(case['container'], elements)
        ns = {}
        if case.get('outer'):
            ns = outer_namespace(opts)
        desc = (case['family'], kind, case['container'], opts_code(opts), opts.get('prefix'),
                case.get('form'), bool(case.get('else')), bool(case.get('outer')),
                ('count', n) if 'count' in given else tuple(xs),
                () if 'count' in given else tuple(case.get('vals') or ()),
                tuple(sorted((batch or {}).items())))
        sx, gate = case.get('syntax'), case.get('gate')
        if sx or gate or case.get('ys') or case.get('perm') is not None:
            desc += (tuple(sorted((sx or {}).items())),
                     (gate['by'], gate['gran'], tuple(gate['rows'])) if gate else None,
                     tuple(case.get('ys') or ()), case.get('perm'))
        if case.get('blocks') or case.get('only') is not None or case.get('keys') is not None:
            desc += (repr(case.get('blocks')), tuple(case.get('only') or ()),
                     repr(case.get('keys')))
        ctx.case(desc, n >= 1 or bool(case.get('else')))
        style = (sx or {}).get('style', 'dtml')
        if sx:
            T.t('syntax', '%s/else %s/end %s%s%s' % (
                style, sx.get('else', 'plain') if case.get('else') else 'absent',
                sx.get('end', 'plain'), '/entities' if sx.get('entity') else '',
                '/else of several blocks' if sx.get('rich_else') and case.get('else') else ''))
            T.t('syntax styles', style)
        if gate:
            T.t('gates', '%s/%s' % (gate['by'], gate['gran']))
        if case.get('ys'):
            T.c('cases with a second run attribute y')
        if case.get('perm') is not None:
            T.c('cases with a permuted reading order')
        if case.get('blocks'):
            T.c('cases with block tags between the reads')
        if case.get('keys') is not None:
            T.c('cases with arbitrary values as the keys of 2-tuples')
        if case.get('only') is not None:
            T.c('cases reading a part of the variables only')
        T.t('lengths', min(n, 27) if n <= 27 else ('more' if n <= 60 else 'more than 60'))
        T.t('kind x container', '%s/%s' % (kind, case['container']))
        T.t('option subsets', opts_code(opts))
        T.t('form/else/outer', '%s/%s/%s' % (case.get('form'), int(bool(case.get('else'))),
                                             int(bool(case.get('outer')))))
        if batch:
            T.t('batch shapes', '+'.join(sorted(k for k, v in batch.items() if v is not None)))
        problems = []
        out = None
        try:
            tmpl = self.template(src, style)
            out = tmpl(None, ns, seq=seq, **kwargs)
        except Exception as e:
            problems.append(('raise', 'render raised %s: %s' % (type(e).__name__, str(e)[:160])))
        if out is not None:
            if not isinstance(out, str):
                problems.append(('type', 'render returned %s' % type(out).__name__))
            else:
                self.compare_flat(case, descs, fields, ns, out, problems)
        if case['container'] == 'iter' and out is not None:
            T.c('iterator containers: pulls == length' if seq.pulls == n
                else 'iterator containers: pulls != length')
        return self.report(given, problems, out, src, classify)

    def report(self, case, problems, out, src, classify):
        if not problems:
            return True
        labels = sorted(set(p[0] for p in problems))
        mech = classify(case, problems) if classify else None
        n = case['count'] if 'count' in case else len(case.get('xs') or case.get('kids') or ())
        key = '%s_%s_%s_%s_n%d_%s' % (case['family'], case.get('kind', 'obj'),
                                      case.get('container', 'list'),
                                      opts_code(case.get('opts', {})), n,
                                      labels[0].replace(':', '-').replace(' ', ''))
        self.ctx.violation('; '.join(p[1] for p in problems[:4]), case, mech=mech, key=key,
                           detail={'labels': labels, 'source': show(src, 1500),
                                   'output': None if out is None else show(str(out), 1500)})
        return False

    def compare_flat(self, case, descs, fields, ns, out, problems):
        T = self.tally
        kind, opts = case['kind'], case['opts']
        n = len(descs)
        batch = case.get('batch')
        add = problems.append
        parts = out.split(G)
        if len(parts) != 3 or parts[0] != 'B' or not parts[2].startswith('A'):
            add(('frame', 'text around the tag damaged: %r' % show(out, 120)))
            return
        mid, after = parts[1], parts[2][1:]
        # ---- nothing bound after the end tag
        names = after_names(opts, bool(batch), case)
        got = after.split(F)
        if len(got) != len(names):
            add(('after', 'probe after the end tag unparseable: %r' % show(after, 120)))
        else:
            for nm, g in zip(names, got):
                want = ns.get(nm, MISSING)
                T.c('after-end probes compared')
                if g != want:
                    add(('after:' + nm, '%s visible after the end tag as %r (outer value %r)'
                         % (nm, g, want)))
        # ---- else body exactly when empty
        etext = else_text(case)
        if n == 0:
            T.c('empty sequences')
            want = etext if case.get('else') else ''
            if case.get('else'):
                sx = case.get('syntax') or {}
                T.t('else decided on an empty sequence', '%s/else %s/%s' % (
                    sx.get('style', 'dtml'), sx.get('else', 'plain'),
                    'batch' if batch else 'plain'))
            if mid != want:
                add(('else', 'empty sequence rendered %r, expected %r' % (show(mid, 80), show(want))))
            return
        if ELSE in mid or ELSE2 in mid:
            add(('else', 'else body rendered for a non-empty sequence'))
            mid = mid.replace(etext, '').replace(ELSE, '').replace(ELSE2, '')
        if not mid.endswith(R) and mid:
            add(('records', 'body output unparseable: %r' % show(mid, 120)))
            return
        recs = [r.split(F) for r in mid.split(R)[:-1]] if mid else []
        labels = [lab for lab, _ in fields]
        for r in recs:
            if len(r) != len(labels):
                add(('records', 'record with %d fields, expected %d: %r' % (len(r), len(labels), r[:6])))
                return
        first, last = window_of(n, batch)
        want_count = last - first + 1
        col = {lab: i for i, lab in enumerate(labels)}
        items = [r[col['ident' if 'ident' in col else 'sequence-item']] for r in recs]
        T.c('records compared', len(recs))
        if len(recs) != want_count:
            add(('count', 'body rendered %d times for %d displayed elements (%d..%d of %d)'
                 % (len(recs), want_count, first, last, n)))
        # ---- which elements, in which order
        # an element is identified by its key (2-tuples: keys are distinct) or by the text of
        # the item (objects and mappings carry a distinct id; equal scalars are interchangeable)
        tup = is_tuple_kind(kind)
        by_ident = {}
        for d in descs:
            by_ident.setdefault(d['key'] if tup else d['text'], d)
        idents = ([r[col['ident' if 'ident' in col else 'sequence-key']] for r in recs]
                  if tup else items)
        sort = opts.get('sort')
        rev = bool(opts.get('reverse'))
        unknown = [t for t in idents if t not in by_ident]
        if unknown:
            add(('elements', 'sequence-%s shows %r which belongs to no element'
                 % ('key' if tup else 'item', unknown[:3])))
            return
        if sort is None:
            order = [d['key'] if tup else d['text'] for d in descs]
            if rev:
                order.reverse()
            want_idents = order[first - 1:last]
            if idents != want_idents:
                add(('order', 'elements shown %r, expected %r' % (idents[:8], want_idents[:8])))
        else:
            def sk(d):
                return d['x'] if sort == 'x' else (d['key'] if sort == 'key' else d['value'])
            keys = sorted((sk(d) for d in descs), reverse=rev)[first - 1:last]
            got_keys = [sk(by_ident[t]) for t in idents]
            if got_keys != keys:
                add(('order', 'sort keys of the shown elements %r, expected %r' % (got_keys[:8], keys[:8])))
            if tup or PART[kind] in ('obj', 'map'):
                if len(set(idents)) != len(idents):
                    add(('once', 'an element is shown more than once: %r' % idents[:8]))
            elif not batch and Counter(idents) != Counter(d['text'] for d in descs):
                add(('once', 'shown elements %r are not the sequence elements' % idents[:8]))
        # ---- per record variables
        shown = [by_ident[t] for t in idents]
        nrec = len(recs)
        pfx = opts.get('prefix')
        pushes = has_x(kind, opts) and not opts.get('no_push_item')
        gate = case.get('gate')
        slots = field_slots(labels, gate['gran']) if gate else None
        ys = bool(case.get('ys'))

        def mask_at(i):
            """open gate slots of shown record i (None: no gates)"""
            if not gate:
                return None
            return gate['rows'][first - 1 + i if gate['by'] == 'index' else shown[i]['j']]

        def opened(i, label):
            if label not in col:
                return False            # not part of this body
            m = mask_at(i)
            return m is None or slots[col[label]] is None or bool((m >> slots[col[label]]) & 1)
        blocks = case.get('blocks') or ()
        if blocks:
            at = min(col['block:%d' % k] for k in range(len(blocks)))
            T.c('reads after a block tag in the body',
                nrec * sum(1 for lab in labels[at + 1:] if not lab.startswith('block:')))
        if gate:
            T.c('gated cases compared')
        for i, r in enumerate(recs):
            a = first - 1 + i
            exp = {}

            def gate_closed(label):
                """a field behind a closed gate must print the skip token and nothing else"""
                if label not in col:
                    return True             # not part of this body
                if opened(i, label):
                    if gate:
                        T.c('gated fields read')
                    return False
                T.c('gated fields skipped')
                if r[col[label]] != SKIP:
                    add(('gate', '%s printed %r on shown position %d although its gate is closed'
                         % (label, r[col[label]], i)))
                return True

            def chk(label, want, truth=False):
                exp[label] = (want, truth)
                if gate_closed(label):
                    return
                g = r[col[label]]
                if label.startswith('block:'):
                    T.t('blocks compared', block_code(blocks[int(label[6:])][1]))
                else:
                    T.t('variables compared', label)
                if truth:
                    ok = (g == 'T') == want if label.startswith('if:') else truthy(g) == want
                else:
                    ok = g == want
                if not ok:
                    add((label, '%s=%r on shown position %d (index %d), expected %s%r'
                         % (label, g, i, a, 'truth ' if truth else '', want)))
            if blocks:
                env = {'a': a, 'i': i, 'nrec': nrec, 'd': shown[i]}
                for k, (_, spec) in enumerate(blocks):
                    chk('block:%d' % k, block_expect(spec, env, opts))
                    if spec[0] == 'if' and opened(i, 'block:%d' % k):
                        T.t('if chains: kinds of the conditions and branch taken',
                            block_code(spec, env))
            chk('sequence-index', str(a))
            chk('sequence-number', str(a + 1))
            if a >= 60 and (opened(i, 'sequence-roman') or opened(i, 'sequence-Roman')
                            or opened(i, 'alias:roman') or opened(i, 'alias:Roman')):
                T.t('roman numerals compared beyond 60, by hundred', (a + 1) // 100)
            if 'sequence-letter' in col and a < 26:
                chk('sequence-letter', 'abcdefghijklmnopqrstuvwxyz'[a])
                chk('sequence-Letter', 'ABCDEFGHIJKLMNOPQRSTUVWXYZ'[a])
            elif 'sequence-letter' in col:
                gate_closed('sequence-letter')
                gate_closed('sequence-Letter')
            chk('sequence-roman', roman(a + 1).lower())
            chk('sequence-Roman', roman(a + 1))
            for form in ('sequence-', 'if:sequence-'):
                chk(form + 'even', a % 2 == 0, True)
                chk(form + 'odd', a % 2 == 1, True)
                chk(form + 'start', i == 0, True)
                chk(form + 'end', i == nrec - 1, True)
            d = shown[i]
            chk('sequence-item', d['text'])
            if PART[kind] == 'val' and (opened(i, 'sequence-item') or 'ident' in col):
                T.t('scalar elements compared', '%s/%r/%s' % (
                    case['container'], d['value'], 'first' if d['j'] == 0 else 'later'))
            if 'sequence-key' in col:
                chk('sequence-key', d['key'])
            if not batch:
                chk('sequence-length', str(n))
            else:
                gate_closed('sequence-length')
            if has_x(kind, opts):
                for nm in ('x', 'y') if ys else ('x',):
                    chk('sequence-var-' + nm, str(d[nm]))
                    if batch:
                        continue
                    fx = i == 0 or shown[i - 1][nm] != d[nm]
                    lx = i == nrec - 1 or shown[i + 1][nm] != d[nm]
                    chk('first-' + nm, fx, True)
                    chk('if:first-' + nm, fx, True)
                    chk('last-' + nm, lx, True)
                    chk('if:last-' + nm, lx, True)
                    if gate:
                        # the class of executions a per-element memo of the engine would get
                        # wrong: a run boundary read here but not on the neighbouring element
                        f_here = opened(i, 'first-' + nm) or opened(i, 'if:first-' + nm)
                        l_here = opened(i, 'last-' + nm) or opened(i, 'if:last-' + nm)
                        if f_here and i > 0 and not (opened(i - 1, 'first-' + nm)
                                                     or opened(i - 1, 'if:first-' + nm)):
                            T.c('first-x read on an element whose predecessor did not read it')
                        if l_here and i < nrec - 1 and not (opened(i + 1, 'last-' + nm)
                                                            or opened(i + 1, 'if:last-' + nm)):
                            T.c('last-x read on an element whose successor does not read it')
                if pushes:
                    chk('name:x', str(d['x']))
                    chk('name:id', d['id'])
                elif opts.get('no_push_item'):
                    chk('name:x', ns.get('x', MISSING))
                    chk('name:id', ns.get('id', MISSING))
                else:
                    gate_closed('name:x')
                    gate_closed('name:id')
            if pfx:
                for nm in FIXED:
                    lab = 'alias:' + nm
                    if lab not in col:
                        continue
                    if gate_closed(lab):
                        continue
                    base = 'sequence-' + nm
                    if opened(i, base):
                        T.t('variables compared', lab)
                        if r[col[lab]] != r[col[base]]:
                            add((lab, '%s_%s=%r but sequence-%s=%r on shown position %d'
                                 % (pfx, nm, r[col[lab]], nm, r[col[base]], i)))
                    elif base in exp:
                        # the sequence- form is not read on this element: the alias is held
                        # against the documented value itself
                        T.t('variables compared', lab)
                        want, truth = exp[base]
                        g = r[col[lab]]
                        if not ((truthy(g) == want) if truth else g == want):
                            add((lab, '%s_%s=%r on shown position %d (index %d), expected %s%r'
                                 % (pfx, nm, g, i, a, 'truth ' if truth else '', want)))
            if len(problems) > 12:
                break
        else:
            if (n >= 3999 and nrec == n and not gate and 'sequence-roman' in col
                    and 'sequence-Roman' in col):
                T.c('sequences with every numeral 1..3999 compared')

    # -------------------------------------------------------------- nested
    def evaluate_nested(self, case, classify=None):
        ctx, T = self.ctx, self.tally
        kids = case['kids']
        op, ip = case.get('oprefix'), case.get('iprefix')
        inner_src = case.get('inner', 'attr')
        src, outer, glob = nested_source(case)
        ctx.case(('nested', tuple(kids), op, ip, inner_src, case.get('gkids', 0),
                  case.get('container', 'list')), len(kids) >= 1)
        T.c('nested cases')
        problems = []
        add = problems.append
        out = None
        try:
            out = self.template(src)(outer=make_container(case.get('container', 'list'), outer), gk=glob)
        except Exception as e:
            add(('raise', 'nested render raised %s: %s' % (type(e).__name__, str(e)[:160])))
        if out is not None:
            parts = out.split(G)
            if len(parts) != 3:
                add(('frame', 'text around the tag damaged'))
            else:
                tail = parts[2][1:].split(F)
                if any(t != MISSING for t in tail):
                    add(('after', 'bindings visible after the outer end tag: %r' % tail))
                recs = [r.split(F) for r in parts[1].split(R)[:-1]]
                want = []
                no = len(outer)

                def vals(idx, n, item):
                    return [str(idx), str(idx + 1), idx == 0, idx == n - 1, item, str(n), idx % 2 == 0]
                for a, o in enumerate(outer):
                    ov = vals(a, no, o.id)
                    oal = (ov[:6] if op else [])
                    want.append(['O1'] + ov + oal)
                    inner = o.kids if inner_src == 'attr' else glob
                    for b, k in enumerate(inner):
                        iv = vals(b, len(inner), k.id)
                        want.append(['I'] + iv + (iv[:6] if ip else []) + oal + [o.oid, k.iid])
                    want.append(['O2'] + ov + oal)
                if [r[0] for r in recs] != [w[0] for w in want]:
                    add(('order', 'record stream %r, expected %r' % ([r[0] for r in recs][:12],
                                                                     [w[0] for w in want][:12])))
                else:
                    for r, w in zip(recs, want):
                        T.c('nested records compared')
                        if len(r) != len(w):
                            add(('records', 'nested record width %d, expected %d' % (len(r), len(w))))
                            break
                        for g, x in zip(r[1:], w[1:]):
                            ok = (truthy(g) == x) if isinstance(x, bool) else g == x
                            if not ok:
                                add(('nested:' + r[0], 'nested %s record %r, expected %r' % (r[0], r, w)))
                                break
                        if len(problems) > 6:
                            break
        return self.report(case, problems, out, src, classify)

    # -------------------------------------------------------------- element attribute names
    def evaluate_names(self, case, classify=None):
        import json
        ctx, T = self.ctx, self.tally
        src, plan = names_source(case)
        elements, descs = names_elements(case)
        seq = make_container(case['container'], elements)
        ns = names_outer(case)
        ctx.case(('names', json.dumps(case, sort_keys=True)), True)
        style = case.get('style', 'dtml')
        T.t('name sources', '%s/%s' % (case['kind'], case['src']))
        T.t('name cases: options', opts_code(case['opts']) + ('/batch' if case.get('batch') else '') +
            ('/nested' if names_nested(case) else ''))
        T.t('name cases: style', style)
        T.t('name cases: kind x container', '%s/%s' % (case['kind'], case['container']))
        problems = []
        out = None
        try:
            out = self.template(src, style)(None, ns, seq=seq)
        except Exception as e:
            problems.append(('raise', 'render raised %s: %s' % (type(e).__name__, str(e)[:160])))
        if out is not None:
            if not isinstance(out, str):
                problems.append(('type', 'render returned %s' % type(out).__name__))
            else:
                self.compare_names(case, descs, plan, ns, out, problems)
        return self.report(case, problems, out, src, classify)

    def compare_names(self, case, descs, plan, ns, out, problems):
        T = self.tally
        add = problems.append
        kind, opts, names = case['kind'], case['opts'], case['names']
        n = len(descs)
        batch = case.get('batch')
        pfx = opts.get('prefix')
        pushes = names_pushes(case)
        nested = names_nested(case)
        ipushes = not (case.get('iopts') or {}).get('no_push_item')
        shape = 'pair' if is_tuple_kind(kind) else ('mapping' if PART[kind] == 'map' else 'object')
        parts = out.split(G)
        if len(parts) != 3 or parts[0] != 'B' or not parts[2].startswith('A'):
            add(('frame', 'text around the tag damaged: %r' % show(out, 120)))
            return
        mid, after = parts[1], parts[2][1:]
        # ---- nothing of the elements remains visible after the end tag
        probe = names_after(case)
        got = after.split(F)
        if len(got) != len(probe):
            add(('after', 'probe after the end tag unparseable: %r' % show(after, 120)))
        else:
            for (ni, form), g in zip(probe, got):
                nm = names[ni]
                want = ns.get(nm, MISSING) if form == 'var' else ('T' if nm in ns else 'F')
                T.c('name after-end probes compared')
                if g != want:
                    add(('after:name', 'element attribute %r visible after the end tag as %r '
                         '(expected %r)' % (nm, g, want)))
        if not mid.endswith(R):
            add(('records', 'body output unparseable: %r' % show(mid, 120)))
            return
        recs = [r.split(F) for r in mid.split(R)[:-1]]
        width = 2 + len(plan)
        for r in recs:
            if len(r) != width or r[0] not in 'EKL' or len(r[0]) != 1:
                add(('records', 'record %r: expected a tag, the element and %d reads' % (r[:6], len(plan))))
                return
        # ---- the stream: E [K* L] per shown element
        groups = []
        for r in recs:
            if r[0] == 'E':
                groups.append([r, [], None])
            elif not groups or not nested:
                add(('stream', 'record %r outside an element' % r[:3]))
                return
            elif r[0] == 'K':
                groups[-1][1].append(r)
            else:
                groups[-1][2] = r
        tup = is_tuple_kind(kind)
        by_ident = {}
        for d in descs:
            by_ident.setdefault(d['key'] if tup else d['text'], d)
        idents = [g[0][1] for g in groups]
        unknown = [t for t in idents if t not in by_ident]
        if unknown:
            add(('elements', 'the body shows %r which belongs to no element' % unknown[:3]))
            return
        first, last = window_of(n, batch)
        if len(idents) != last - first + 1:
            add(('count', 'body rendered %d times for %d displayed elements (%d..%d of %d)'
                 % (len(idents), last - first + 1, first, last, n)))
        sort, rev = opts.get('sort'), bool(opts.get('reverse'))
        if sort is None:
            order = [d['key'] if tup else d['text'] for d in descs]
            if rev:
                order.reverse()
            if idents != order[first - 1:last]:
                add(('order', 'elements shown %r, expected %r' % (idents[:8], order[first - 1:last][:8])))
        else:
            def sk(d):
                return d['x'] if sort == 'x' else d['key']
            keys = sorted((sk(d) for d in descs), reverse=rev)[first - 1:last]
            got_keys = [sk(by_ident[t]) for t in idents]
            if got_keys != keys:
                add(('order', 'sort keys of the shown elements %r, expected %r' % (got_keys[:8], keys[:8])))
            if len(set(idents)) != len(idents):
                add(('once', 'an element is shown more than once: %r' % idents[:8]))
        shown = [by_ident[t] for t in idents]

        def resolve(ni, d, kid):
            """documented precedence: the innermost element that defines the name, else what was
            visible outside the tag"""
            has_outer = bool((case['outer'] >> ni) & 1)
            if kid is not None and ipushes and ni in kid['attrs']:
                return kid['attrs'][ni], 'inner element value' + (
                    ' (shadows the outer element)' if ni in d['attrs'] else '')
            if pushes and ni in d['attrs']:
                where = 'element value'
                if kid is not None:
                    where = 'outer element value in the inner body' + (
                        ' (inner no_push_item)' if not ipushes and ni in kid['attrs'] else '')
                elif has_outer:
                    where = 'element value (shadows an outer value)'
                return d['attrs'][ni], where
            why = '(no_push_item)' if not pushes else '(element lacks it)'
            if has_outer:
                return 'O%d' % ni, 'outer value ' + why
            return None, 'nothing ' + why

        def check(r, i, d, kid):
            T.c('name records compared')
            for (ni, form), g in zip(plan, r[2:]):
                nm = names[ni]
                cls = name_class(nm, pfx)
                truth = False
                if form in ('svar', 'first', 'last', 'iffirst', 'iflast'):
                    v = d['attrs'][ni]
                    where = 'sequence-var / run boundary of a named attribute'
                    if form == 'svar':
                        want = str(v)
                    else:
                        if form.endswith('first'):
                            b = i == 0 or shown[i - 1]['attrs'][ni] != v
                        else:
                            b = i == len(shown) - 1 or shown[i + 1]['attrs'][ni] != v
                        want, truth = b, True
                        g = (g == 'T') if form.startswith('if') else truthy(g)
                else:
                    v, where = resolve(ni, d, kid)
                    if form == 'has':
                        want = 'F' if where.startswith('nothing') else 'T'
                    elif form == 'if':
                        want = 'T' if (v is not None and py_truth(v)) else 'F'
                    else:
                        want = MISSING if v is None else str(v)
                T.c('name reads compared')
                T.t('name reads by form', form)
                T.t('name visibility', where)
                if 'element value' in where:
                    T.t('name classes seen on the element', '%s/%s' % (cls, shape))
                    T.t('name classes seen through', '%s/%s:%s' % (cls, PART[kind], case['src']))
                elif where.startswith('sequence-var'):
                    T.t('named attribute variables', '%s/%s/%s' % (
                        'sequence-var' if form == 'svar' else form.replace('if', ''), cls, shape))
                if g != want:
                    add(('name:%s:%s' % (cls, form),
                         '%s read (%s) of %r gives %r on the %s record of %s, expected %s%r [%s]'
                         % (cls, form, nm, r[2 + plan.index((ni, form))], r[0], r[1][:30],
                            'truth ' if truth else '', want, where)))

        for i, (e, ks, l_) in enumerate(groups):
            d = shown[i]
            check(e, i, d, None)
            if nested:
                if l_ is None or l_[1] != e[1]:
                    add(('stream', 'no record of %s after its inner loop' % e[1][:30]))
                    break
                if [k[1] for k in ks] != [kd['text'] for kd in d['kids']]:
                    add(('stream', 'inner loop of %s shows %r, expected %r'
                         % (e[1][:30], [k[1] for k in ks][:5], [kd['text'] for kd in d['kids']][:5])))
                    break
                for k, kd in zip(ks, d['kids']):
                    check(k, i, d, kd)
                check(l_, i, d, None)
            if len(problems) > 12:
                break
