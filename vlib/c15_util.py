"""C15 helper: independent model of the documented dtml-var value pipeline.

Written from the DT_Var module docstring and the property statement; nothing here imports
the engine.  A *case* is a JSON-able dict

    {'syntax': 'dtml'|'ssi'|'ent'|'epfs', 'form': 'name'|'expr',
     'value': recipe, 'opts': [[name, text-or-None], ...] (written order), 'cfmt': 's'}

and `predict(case, order, observed_stage)` returns what the statement demands for it.
"""
import re

# the twelve value modifiers, in the order the docstring lists them (the canonical *written*
# order of the workload; the order of *application* is never assumed, see c15.py)
MODS = ('lower', 'upper', 'capitalize', 'spacify', 'thousands_commas', 'html_quote',
        'url_quote', 'url_quote_plus', 'url_unquote', 'url_unquote_plus', 'sql_quote',
        'newline_to_br')
VALUED = ('fmt', 'null', 'missing', 'size', 'etc')


class NotJudged(Exception):
    """The statement does not fix this stage's result for this input."""


class Undefined(Exception):
    """The documented operation is not defined for this value (e.g. %d of text)."""


# ------------------------------------------------------------------ values
class Obj:
    """Object with methods (custom formats, absolute_url)."""

    def Day(self):
        return 'Mon_day of_week'

    def amount(self):
        return 1234567.5

    def code(self):
        return 'a%2541+b'

    def absolute_url(self):
        return 'http://Host/a b_c'

    def __str__(self):
        return 'obj_Str 7654321'

    def __repr__(self):
        return '<%s instance>' % type(self).__name__


class Falsy(Obj):
    """False but not 0, with a non-empty text."""

    def __len__(self):
        return 0

    def __str__(self):
        return 'falsy_Obj'


class Zero(Obj):
    """A user-defined quantity that is zero: false AND equal to 0 (so not a null value)."""

    def __bool__(self):
        return False

    def __eq__(self, other):
        return other == 0

    def __hash__(self):
        return hash(0)

    def __str__(self):
        return 'zero_Qty 0'


class Unset(Obj):
    """False through __bool__ (no length), not equal to 0: a null value with a non-empty text."""

    def __bool__(self):
        return False

    def __str__(self):
        return 'unset_Obj'


class Count(int):
    """int subclass"""


class Ratio(float):
    """float subclass"""


class Text(str):
    """str subclass"""


def build(recipe):
    kind = recipe[0]
    if kind == 'decimal':
        from decimal import Decimal
        return Decimal(recipe[1])
    if kind == 'fraction':
        from fractions import Fraction
        return Fraction(int(recipe[1][0]), int(recipe[1][1]))
    if kind == 'complex':
        return complex(float(recipe[1][0]), float(recipe[1][1]))
    if kind == 'bool':
        return bool(recipe[1])
    if kind == 'intsub':
        return Count(recipe[1])
    if kind == 'floatsub':
        return Ratio(recipe[1])
    if kind == 'strsub':
        return Text(recipe[1])
    if kind == 'set':
        return set(recipe[1])
    if kind == 'frozenset':
        return frozenset(recipe[1])
    if kind == 'range':
        return range(int(recipe[1]))
    if kind == 'bytearray':
        return bytearray(recipe[1].encode('ascii'))
    if kind == 'zero':
        return Zero()
    if kind == 'unset':
        return Unset()
    if kind == 'str':
        return recipe[1]
    if kind == 'bytes':
        return recipe[1].encode('ascii')
    if kind == 'int':
        return int(recipe[1])
    if kind == 'float':
        return float(recipe[1])
    if kind == 'none':
        return None
    if kind == 'list':
        return list(recipe[1])
    if kind == 'tuple':
        return tuple(recipe[1])
    if kind == 'dict':
        return dict(recipe[1])
    if kind == 'obj':
        return Obj()
    if kind == 'falsy':
        return Falsy()
    raise ValueError(recipe)


def text_of(v):
    """The text of a value (str() of it; bytes are text in the template encoding — only
    ASCII bytes are used here so that the encoding, property C19, does not matter)."""
    if isinstance(v, str):
        return v
    if isinstance(v, bytes):
        return v.decode('ascii')
    return str(v)


# ------------------------------------------------------------------ modifier models
def m_lower(s):
    return s.lower()


def m_upper(s):
    return s.upper()


def m_capitalize(s):
    return s.capitalize()


def m_spacify(s):
    return s.replace('_', ' ')


_RUN4 = re.compile('[0-9]{4}')
_NUM = re.compile(r'^([-+]?\$?|\$[-+]?)([0-9]+)((?:\.[0-9]*)?)$')


def m_thousands_commas(s):
    """Judged on numeric text only: [sign][$]digits[.digits]."""
    m = _NUM.match(s)
    if not m:
        if not _RUN4.search(s):
            return s        # no run of more than three digits: nothing to group
        raise NotJudged('thousands_commas on non-numeric text')
    sign, ip, frac = m.groups()
    groups = []
    while len(ip) > 3:
        groups.insert(0, ip[-3:])
        ip = ip[:-3]
    groups.insert(0, ip)
    return sign + ','.join(groups) + frac


def m_html_quote(s):
    if "'" in s:
        # exactness of html_quote (and the single quote in particular) is property C03
        raise NotJudged('html_quote on a single quote (property C03)')
    return s.replace('&', '&amp;').replace('<', '&lt;').replace('>', '&gt;').replace('"', '&quot;')


_UNRESERVED = frozenset('ABCDEFGHIJKLMNOPQRSTUVWXYZabcdefghijklmnopqrstuvwxyz0123456789_.-~')


def _pct(s, safe):
    out = []
    for ch in s:
        if ch in _UNRESERVED or ch in safe:
            out.append(ch)
        else:
            out.extend('%%%02X' % b for b in ch.encode('utf-8'))
    return ''.join(out)


def m_url_quote(s):
    return _pct(s, '/')


def m_url_quote_plus(s):
    return ''.join('+' if ch == ' ' else _pct(ch, '') for ch in s)


_RUN = re.compile('(?:%[0-9A-Fa-f]{2})+')


def m_url_unquote(s):
    return _RUN.sub(lambda m: bytes.fromhex(m.group(0).replace('%', '')).decode('utf-8', 'replace'), s)


def m_url_unquote_plus(s):
    return m_url_unquote(s.replace('+', ' '))


_LONE_CR = re.compile('\r(?!\n)')


def m_newline_to_br(s):
    if _LONE_CR.search(s):
        raise NotJudged('newline_to_br on a lone carriage return')
    return s.replace('\r\n', '\n').replace('\n', '<br />\n')


def m_sql_quote(s):
    for ch in '\x00\x1a\r':
        s = s.replace(ch, '')
    return s.replace("'", "''")


STAGE = {
    'lower': m_lower, 'upper': m_upper, 'capitalize': m_capitalize, 'spacify': m_spacify,
    'thousands_commas': m_thousands_commas, 'html_quote': m_html_quote,
    'url_quote': m_url_quote, 'url_quote_plus': m_url_quote_plus,
    'url_unquote': m_url_unquote, 'url_unquote_plus': m_url_unquote_plus,
    'sql_quote': m_sql_quote, 'newline_to_br': m_newline_to_br,
}


def sql_safe(s):
    """Postcondition of sql_quote: cannot terminate a SQL string literal."""
    if any(ch in s for ch in '\x00\x1a\r'):
        return False
    return all(len(run) % 2 == 0 for run in re.findall("'+", s))


def m_truncate(s, size, etc):
    if len(s) <= size:
        return s
    head = s[:size]
    k = head.rfind(' ')
    if k > size / 2:
        head = head[:k + 1]
    return head + etc


def truncation_clause(s, size, etc, out):
    """Which clause of the truncation sentence an observed output breaks (for messages)."""
    if len(s) <= size:
        return 'value no longer than size was changed' if out != s else None
    if not out.endswith(etc):
        return 'etc text not appended'
    body = out[:len(out) - len(etc)] if etc else out
    if not s.startswith(body):
        return 'emitted text is not a prefix of the value'
    if len(body) > size:
        return 'emits more than size characters of the value'
    if len(body) < size:
        if not body.endswith(' '):
            return 'cut short of size but not at a blank'
        if not (len(body) - 1) > size / 2:
            return 'cut back to a blank that does not lie in the second half'
        if ' ' in s[len(body):size]:
            return 'cut back further than the last blank'
    else:
        k = s[:size].rfind(' ')
        if k > size / 2 and k + 1 != size:
            return 'not cut back to the last blank although it lies in the second half'
    return None


# ------------------------------------------------------------------ fmt= models
def _numeric(v):
    if isinstance(v, bool) or not isinstance(v, (int, float)):
        raise NotJudged('dollar format of a non-number')
    if isinstance(v, float) and (v != v or v in (float('inf'), float('-inf'))):
        raise NotJudged('dollar format of nan/inf')
    return v


def _texty(v):
    if not isinstance(v, (str, bytes)):
        raise NotJudged('text format of a non-text value')
    return text_of(v)


SPECIAL = {
    'whole-dollars': lambda v: '$' + str(int(_numeric(v))),
    'dollars-and-cents': lambda v: '$' + format(_numeric(v), '.2f'),
    'collection-length': lambda v: str(len(v)),
    'comma-numeric': lambda v: m_thousands_commas(text_of(v)),
    'dollars-with-commas': lambda v: m_thousands_commas('$' + str(int(_numeric(v)))),
    'dollars-and-cents-with-commas': lambda v: m_thousands_commas('$' + format(_numeric(v), '.2f')),
    'sql-quote': lambda v: m_sql_quote(_texty(v)),
    'html-quote': lambda v: m_html_quote(text_of(v)),
    'url-quote': lambda v: m_url_quote(text_of(v)),
    'url-quote-plus': lambda v: m_url_quote_plus(text_of(v)),
    'url-unquote': lambda v: m_url_unquote(text_of(v)),
    'url-unquote-plus': lambda v: m_url_unquote_plus(text_of(v)),
    'multi-line': lambda v: m_newline_to_br(text_of(v)),
}
# named formats whose text the docstring does not define: only their *position* in the
# pipeline is judged (the engine's own function supplies the stage result)
POSITION_ONLY = ('structured-text',)


def is_null(v):
    """None, or false but not 0."""
    if isinstance(v, bool):
        raise NotJudged('null-ness of a bool')
    if v is None:
        return True
    return (not v) and v != 0


# ------------------------------------------------------------------ printing a case
_BARE = re.compile(r'^[A-Za-z0-9_./%$:,+*|-]+$')


def _attr(name, val, quote):
    if val is None:
        return name
    if quote or not _BARE.match(val):
        return '%s="%s"' % (name, val)
    return '%s=%s' % (name, val)


def source(case):
    """Template source of a case: the single tag between '[' and ']' sentinels."""
    syntax = case['syntax']
    undefined = case['value'][0] == 'undefined'
    name = 'nope' if undefined else 'x'
    opts = case['opts']
    quote = bool(case.get('quote'))
    attrs = ' '.join(_attr(n, v, quote) for n, v in opts)
    if syntax == 'ent':
        assert opts and all(v is None for n, v in opts) and case['form'] == 'name'
        return '[&dtml.%s-%s;]' % ('.'.join(n for n, v in opts), name)
    var_prefix = syntax == 'epfs' and bool(case.get('var_prefix'))
    if case['form'] == 'expr':
        assert syntax in ('dtml', 'ssi') or var_prefix
        namepart = 'expr="%s"' % name if not case.get('bare_expr') else '"%s"' % name
    else:
        namepart = ('name=%s' % name) if case.get('name_attr') else name
    body = namepart + (' ' + attrs if attrs else '')
    if syntax == 'dtml':
        return '[<dtml-var %s>]' % body
    if syntax == 'ssi':
        return '[<!--#var %s-->]' % body
    if syntax == 'epfs':
        # "%(name args)F" or "%(var name args)F" (the only EPFS spelling that takes expr= / name=)
        return '[%%(%s%s)%s]' % ('var ' if var_prefix else '', body, case.get('cfmt', 's'))
    raise ValueError(syntax)


def simple_form(case):
    """The documented fast forms: the bare tag and the tag with html_quote alone."""
    names = [n for n, v in case['opts']]
    return case.get('cfmt', 's') == 's' and names in ([], ['html_quote'])


# ------------------------------------------------------------------ the pipeline
class Prediction:
    __slots__ = ('status', 'text', 'why', 'stages', 'plain', 'replaced', 'pre_size')

    def __init__(self):
        self.status = 'out'      # 'out' | 'skip'
        self.text = None
        self.why = None
        self.stages = []         # modifier names the trace must show, in order
        self.plain = None
        self.replaced = None     # 'missing' | 'null'
        self.pre_size = None


def predict(case, order, observed_stage=None, sequence=None, position_only=None):
    """What the statement demands for `case`, given the one fixed modifier order `order`.

    observed_stage(name, input_text) -> output text or None: supplies the result of a stage
    the statement does not fix (NotJudged) from the monitor's trace.
    sequence: apply exactly this list of modifier names instead of order∩selected
    (used only by the finding classifier).
    """
    p = Prediction()
    opts = {}
    for n, v in case['opts']:
        opts[n] = v
    selected = [m for m in order if m in opts]
    cfmt = case.get('cfmt', 's')

    def skip(why):
        p.status = 'skip'
        p.why = why
        return p

    # 1. missing
    if case['value'][0] == 'undefined':
        if 'missing' in opts and case['form'] == 'name':
            if opts['missing'] is None:
                return skip('valueless missing (replacement text not stated)')
            p.text = opts['missing']
            p.replaced = 'missing'
            return p
        return skip('undefined name without missing=')
    val = build(case['value'])
    p.plain = text_of(val)
    if 'url' in opts:
        if not hasattr(val, 'absolute_url'):
            return skip('url option on a value without absolute_url')
        val = val.absolute_url()
    # 2. null
    if 'null' in opts:
        try:
            if is_null(val):
                if opts['null'] is None:
                    return skip('valueless null (replacement text not stated)')
                p.text = opts['null']
                p.replaced = 'null'
                return p
        except NotJudged as e:
            return skip(str(e))
    p.stages = list(selected) if sequence is None else list(sequence)
    # 3. fmt=
    if 'fmt' in opts:
        fmt = opts['fmt']
        try:
            if fmt is None:
                return skip('valueless fmt')
            if fmt == '':
                return skip('empty fmt')
            if hasattr(val, fmt):
                val = getattr(val, fmt)()
            elif fmt in SPECIAL:
                val = SPECIAL[fmt](val)
            elif fmt in POSITION_ONLY:
                if position_only is None:
                    return skip('position-only format without engine function')
                val = position_only(fmt, val)
            elif '%' in fmt:
                if isinstance(val, (tuple, bytes)):
                    return skip('%-format of tuple/bytes')
                val = fmt % val
            else:
                return skip('fmt is neither a method, a named format nor a %-format')
        except NotJudged as e:
            return skip(str(e))
        except Exception as e:
            return skip('fmt undefined for the value: %s' % type(e).__name__)
    # 4. C-style format
    if cfmt == 's':
        s = text_of(val)
    else:
        if isinstance(val, bytes) or case['value'][0] == 'bytes':
            return skip('C format of bytes')
        try:
            s = ('%' + cfmt) % (val,)
        except Exception as e:
            return skip('C format undefined for the value: %s' % type(e).__name__)
    # 5. modifiers, each once, in the fixed order
    for name in p.stages:
        try:
            s = STAGE[name](s)
        except NotJudged as e:
            got = observed_stage(name, s) if observed_stage is not None else None
            if got is None:
                return skip(str(e))
            s = got
    p.pre_size = s
    # 6. size / etc
    if 'size' in opts:
        if opts['size'] is None:
            return skip('valueless size')
        try:
            size = int(opts['size'])
        except (TypeError, ValueError):
            return skip('non-integer size')
        if size < 0:
            return skip('negative size')
        etc = opts.get('etc', '...')
        if etc is None:
            if len(s) > size:
                return skip('valueless etc')
            etc = ''
        s = m_truncate(s, size, etc)
    p.text = s
    return p
