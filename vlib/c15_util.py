"""C15 helper: independent model of the documented dtml-var value pipeline.

Written from the DT_Var module docstring and the property statement; nothing here imports
the engine.  A *case* is a JSON-able dict

    {'syntax': 'dtml'|'ssi'|'ent'|'epfs', 'form': 'name'|'expr',
     'value': recipe, 'opts': [[name, text-or-None], ...] (written order), 'cfmt': 's'}

and `predict(case, order, observed_stage)` returns what the statement demands for it.
"""
import re

# the twelve value modifiers, in the order the docstring lists them (the canonical *written*
# order of the workload; the order of *application* is never assumed, see c15.py)
MODS = ('lower', 'upper', 'capitalize', 'spacify', 'thousands_commas', 'html_quote',
        'url_quote', 'url_quote_plus', 'url_unquote', 'url_unquote_plus', 'sql_quote',
        'newline_to_br')
VALUED = ('fmt', 'null', 'missing', 'size', 'etc')


class NotJudged(Exception):
    """The statement does not fix this stage's result for this input."""


class Undefined(Exception):
    """The documented operation is not defined for this value (e.g. %d of text)."""


# ------------------------------------------------------------------ values
class Obj:
    """Object with methods (custom formats, absolute_url)."""

    def Day(self):
        return 'Mon_day of_week'

    def amount(self):
        return 1234567.5

    def code(self):
        return 'a%2541+b'

    def absolute_url(self):
        return 'http://Host/a b_c'

    def __str__(self):
        return 'obj_Str 7654321'

    def __repr__(self):
        return '<%s instance>' % type(self).__name__


class Falsy(Obj):
    """False but not 0, with a non-empty text."""

    def __len__(self):
        return 0

    def __str__(self):
        return 'falsy_Obj'


class Zero(Obj):
    """A user-defined quantity that is zero: false AND equal to 0 (so not a null value)."""

    def __bool__(self):
        return False

    def __eq__(self, other):
        return other == 0

    def __hash__(self):
        return hash(0)

    def __str__(self):
        return 'zero_Qty 0'


class Unset(Obj):
    """False through __bool__ (no length), not equal to 0: a null value with a non-empty text."""

    def __bool__(self):
        return False

    def __str__(self):
        return 'unset_Obj'


class Count(int):
    """int subclass"""


class Ratio(float):
    """float subclass"""


class Text(str):
    """str subclass"""


def build(recipe):
    kind = recipe[0]
    if kind == 'call':
        # a callable bound to the name: looked up by name it is called without arguments and its
        # result is the value ("callable objects ... are called during retrieval")
        result = build(recipe[1])

        def value_of_the_name():
            return result
        return value_of_the_name
    if kind == 'decimal':
        from decimal import Decimal
        return Decimal(recipe[1])
    if kind == 'fraction':
        from fractions import Fraction
        return Fraction(int(recipe[1][0]), int(recipe[1][1]))
    if kind == 'complex':
        return complex(float(recipe[1][0]), float(recipe[1][1]))
    if kind == 'bool':
        return bool(recipe[1])
    if kind == 'intsub':
        return Count(recipe[1])
    if kind == 'floatsub':
        return Ratio(recipe[1])
    if kind == 'strsub':
        return Text(recipe[1])
    if kind == 'set':
        return set(recipe[1])
    if kind == 'frozenset':
        return frozenset(recipe[1])
    if kind == 'range':
        return range(int(recipe[1]))
    if kind == 'bytearray':
        return bytearray(recipe[1].encode('ascii'))
    if kind == 'zero':
        return Zero()
    if kind == 'unset':
        return Unset()
    if kind == 'str':
        return recipe[1]
    if kind == 'bytes':
        return recipe[1].encode('ascii')
    if kind == 'int':
        return int(recipe[1])
    if kind == 'float':
        return float(recipe[1])
    if kind == 'none':
        return None
    if kind == 'list':
        return list(recipe[1])
    if kind == 'tuple':
        return tuple(recipe[1])
    if kind == 'dict':
        return dict(recipe[1])
    if kind == 'obj':
        return Obj()
    if kind == 'falsy':
        return Falsy()
    raise ValueError(recipe)


def text_of(v):
    """The text of a value (str() of it; bytes are text in the template encoding — only
    ASCII bytes are used here so that the encoding, property C19, does not matter)."""
    if isinstance(v, str):
        return v
    if isinstance(v, bytes):
        return v.decode('ascii')
    return str(v)


# ------------------------------------------------------------------ modifier models
def m_lower(s):
    return s.lower()


def m_upper(s):
    return s.upper()


def m_capitalize(s):
    return s.capitalize()


def m_spacify(s):
    return s.replace('_', ' ')


_RUN4 = re.compile('[0-9]{4}')
_NUM = re.compile(r'^([-+]?\$?|\$[-+]?)([0-9]+)((?:\.[0-9]*)?)$')


def m_thousands_commas(s):
    """Judged on numeric text only: [sign][$]digits[.digits]."""
    m = _NUM.match(s)
    if not m:
        if not _RUN4.search(s):
            return s        # no run of more than three digits: nothing to group
        raise NotJudged('thousands_commas on non-numeric text')
    sign, ip, frac = m.groups()
    groups = []
    while len(ip) > 3:
        groups.insert(0, ip[-3:])
        ip = ip[:-3]
    groups.insert(0, ip)
    return sign + ','.join(groups) + frac


def m_html_quote(s):
    if "'" in s:
        # exactness of html_quote (and the single quote in particular) is property C03
        raise NotJudged('html_quote on a single quote (property C03)')
    return s.replace('&', '&amp;').replace('<', '&lt;').replace('>', '&gt;').replace('"', '&quot;')


_UNRESERVED = frozenset('ABCDEFGHIJKLMNOPQRSTUVWXYZabcdefghijklmnopqrstuvwxyz0123456789_.-~')


def _pct(s, safe):
    out = []
    for ch in s:
        if ch in _UNRESERVED or ch in safe:
            out.append(ch)
        else:
            out.extend('%%%02X' % b for b in ch.encode('utf-8'))
    return ''.join(out)


def m_url_quote(s):
    return _pct(s, '/')


def m_url_quote_plus(s):
    return ''.join('+' if ch == ' ' else _pct(ch, '') for ch in s)


_RUN = re.compile('(?:%[0-9A-Fa-f]{2})+')


def m_url_unquote(s):
    return _RUN.sub(lambda m: bytes.fromhex(m.group(0).replace('%', '')).decode('utf-8', 'replace'), s)


def m_url_unquote_plus(s):
    return m_url_unquote(s.replace('+', ' '))


_LONE_CR = re.compile('\r(?!\n)')


def m_newline_to_br(s):
    if _LONE_CR.search(s):
        raise NotJudged('newline_to_br on a lone carriage return')
    return s.replace('\r\n', '\n').replace('\n', '<br />\n')


def m_sql_quote(s):
    for ch in '\x00\x1a\r':
        s = s.replace(ch, '')
    return s.replace("'", "''")


STAGE = {
    'lower': m_lower, 'upper': m_upper, 'capitalize': m_capitalize, 'spacify': m_spacify,
    'thousands_commas': m_thousands_commas, 'html_quote': m_html_quote,
    'url_quote': m_url_quote, 'url_quote_plus': m_url_quote_plus,
    'url_unquote': m_url_unquote, 'url_unquote_plus': m_url_unquote_plus,
    'sql_quote': m_sql_quote, 'newline_to_br': m_newline_to_br,
}


def sql_safe(s):
    """Postcondition of sql_quote: cannot terminate a SQL string literal."""
    if any(ch in s for ch in '\x00\x1a\r'):
        return False
    return all(len(run) % 2 == 0 for run in re.findall("'+", s))


def m_truncate(s, size, etc):
    if len(s) <= size:
        return s
    head = s[:size]
    k = head.rfind(' ')
    if k > size / 2:
        head = head[:k + 1]
    return head + etc


def truncation_clause(s, size, etc, out):
    """Which clause of the truncation sentence an observed output breaks (for messages)."""
    if len(s) <= size:
        return 'value no longer than size was changed' if out != s else None
    if not out.endswith(etc):
        return 'etc text not appended'
    body = out[:len(out) - len(etc)] if etc else out
    if not s.startswith(body):
        return 'emitted text is not a prefix of the value'
    if len(body) > size:
        return 'emits more than size characters of the value'
    if len(body) < size:
        if not body.endswith(' '):
            return 'cut short of size but not at a blank'
        if not (len(body) - 1) > size / 2:
            return 'cut back to a blank that does not lie in the second half'
        if ' ' in s[len(body):size]:
            return 'cut back further than the last blank'
    else:
        k = s[:size].rfind(' ')
        if k > size / 2 and k + 1 != size:
            return 'not cut back to the last blank although it lies in the second half'
    return None


# ------------------------------------------------------------------ fmt= models
def _numeric(v):
    if isinstance(v, bool) or not isinstance(v, (int, float)):
        raise NotJudged('dollar format of a non-number')
    if isinstance(v, float) and (v != v or v in (float('inf'), float('-inf'))):
        raise NotJudged('dollar format of nan/inf')
    return v


def _texty(v):
    if not isinstance(v, (str, bytes)):
        raise NotJudged('text format of a non-text value')
    return text_of(v)


SPECIAL = {
    'whole-dollars': lambda v: '$' + str(int(_numeric(v))),
    'dollars-and-cents': lambda v: '$' + format(_numeric(v), '.2f'),
    'collection-length': lambda v: str(len(v)),
    'comma-numeric': lambda v: m_thousands_commas(text_of(v)),
    'dollars-with-commas': lambda v: m_thousands_commas('$' + str(int(_numeric(v)))),
    'dollars-and-cents-with-commas': lambda v: m_thousands_commas('$' + format(_numeric(v), '.2f')),
    'sql-quote': lambda v: m_sql_quote(_texty(v)),
    'html-quote': lambda v: m_html_quote(text_of(v)),
    'url-quote': lambda v: m_url_quote(text_of(v)),
    'url-quote-plus': lambda v: m_url_quote_plus(text_of(v)),
    'url-unquote': lambda v: m_url_unquote(text_of(v)),
    'url-unquote-plus': lambda v: m_url_unquote_plus(text_of(v)),
    'multi-line': lambda v: m_newline_to_br(text_of(v)),
}
# named formats whose text the docstring does not define: only their *position* in the
# pipeline is judged (the engine's own function supplies the stage result)
POSITION_ONLY = ('structured-text',)


def is_null(v):
    """None, or false but not 0."""
    if isinstance(v, bool):
        raise NotJudged('null-ness of a bool')
    if v is None:
        return True
    return (not v) and v != 0


# ------------------------------------------------------------------ printing a case
_BARE = re.compile(r'^[A-Za-z0-9_./%$:,+*|-]+$')


def _attr(name, val, quote):
    if val is None:
        return name
    if quote or not _BARE.match(val):
        return '%s="%s"' % (name, val)
    return '%s=%s' % (name, val)


def source(case):
    """Template source of a case: the single tag between '[' and ']' sentinels."""
    syntax = case['syntax']
    undefined = case['value'][0] == 'undefined'
    name = case.get('varname') or ('nope' if undefined else 'x')
    opts = case['opts']
    quote = bool(case.get('quote'))
    attrs = ' '.join(_attr(n, v, quote) for n, v in opts)
    if syntax == 'ent':
        assert opts and all(v is None for n, v in opts) and case['form'] == 'name'
        return '[&dtml.%s-%s;]' % ('.'.join(n for n, v in opts), name)
    var_prefix = syntax == 'epfs' and bool(case.get('var_prefix'))
    if case['form'] == 'expr':
        assert syntax in ('dtml', 'ssi') or var_prefix
        namepart = 'expr="%s"' % name if not case.get('bare_expr') else '"%s"' % name
    else:
        namepart = ('name=%s' % name) if case.get('name_attr') else name
    body = namepart + (' ' + attrs if attrs else '')
    if syntax == 'dtml':
        return '[<dtml-var %s>]' % body
    if syntax == 'ssi':
        return '[<!--#var %s-->]' % body
    if syntax == 'epfs':
        # "%(name args)F" or "%(var name args)F" (the only EPFS spelling that takes expr= / name=)
        return '[%%(%s%s)%s]' % ('var ' if var_prefix else '', body, case.get('cfmt', 's'))
    raise ValueError(syntax)


def simple_form(case):
    """The documented fast forms: the bare tag and the tag with html_quote alone."""
    names = [n for n, v in case['opts']]
    return case.get('cfmt', 's') == 's' and names in ([], ['html_quote'])


# ------------------------------------------------------------------ the pipeline
class Prediction:
    __slots__ = ('status', 'text', 'why', 'stages', 'plain', 'replaced', 'pre_size')

    def __init__(self):
        self.status = 'out'      # 'out' | 'skip'
        self.text = None
        self.why = None
        self.stages = []         # modifier names the trace must show, in order
        self.plain = None
        self.replaced = None     # 'missing' | 'null'
        self.pre_size = None


def predict(case, order, observed_stage=None, sequence=None, position_only=None):
    """What the statement demands for `case`, given the one fixed modifier order `order`.

    observed_stage(name, input_text) -> output text or None: supplies the result of a stage
    the statement does not fix (NotJudged) from the monitor's trace.
    sequence: apply exactly this list of modifier names instead of order∩selected
    (used only by the finding classifier).
    """
    p = Prediction()
    opts = {}
    for n, v in case['opts']:
        opts[n] = v
    selected = [m for m in order if m in opts]
    cfmt = case.get('cfmt', 's')

    def skip(why):
        p.status = 'skip'
        p.why = why
        return p

    # 1. missing
    if case['value'][0] == 'undefined':
        if 'missing' in opts and case['form'] == 'name':
            if opts['missing'] is None:
                return skip('valueless missing (replacement text not stated)')
            p.text = opts['missing']
            p.replaced = 'missing'
            return p
        return skip('undefined name without missing=')
    if case['value'][0] == 'call':
        # a callable bound to the name: a lookup by name calls it, the result is the value
        if case['form'] != 'name':
            return skip('callable value read through expr= (not called)')
        if 'url' in opts:
            return skip('url option on a callable')
        val = build(case['value'][1])
    else:
        val = build(case['value'])
    p.plain = text_of(val)
    if 'url' in opts:
        if not hasattr(val, 'absolute_url'):
            return skip('url option on a value without absolute_url')
        val = val.absolute_url()
    # 2. null
    if 'null' in opts:
        try:
            if is_null(val):
                if opts['null'] is None:
                    return skip('valueless null (replacement text not stated)')
                p.text = opts['null']
                p.replaced = 'null'
                return p
        except NotJudged as e:
            return skip(str(e))
    p.stages = list(selected) if sequence is None else list(sequence)
    # 3. fmt=
    if 'fmt' in opts:
        fmt = opts['fmt']
        try:
            if fmt is None:
                return skip('valueless fmt')
            if fmt == '':
                return skip('empty fmt')
            if hasattr(val, fmt):
                val = getattr(val, fmt)()
            elif fmt in SPECIAL:
                val = SPECIAL[fmt](val)
            elif fmt in POSITION_ONLY:
                if position_only is None:
                    return skip('position-only format without engine function')
                val = position_only(fmt, val)
            elif '%' in fmt:
                if isinstance(val, (tuple, bytes)):
                    return skip('%-format of tuple/bytes')
                val = fmt % val
            else:
                return skip('fmt is neither a method, a named format nor a %-format')
        except NotJudged as e:
            return skip(str(e))
        except Exception as e:
            return skip('fmt undefined for the value: %s' % type(e).__name__)
    # 4. C-style format
    if cfmt == 's':
        s = text_of(val)
    else:
        if isinstance(val, bytes) or case['value'][0] == 'bytes':
            return skip('C format of bytes')
        try:
            s = ('%' + cfmt) % (val,)
        except Exception as e:
            return skip('C format undefined for the value: %s' % type(e).__name__)
    # 5. modifiers, each once, in the fixed order
    for name in p.stages:
        try:
            s = STAGE[name](s)
        except NotJudged as e:
            got = observed_stage(name, s) if observed_stage is not None else None
            if got is None:
                return skip(str(e))
            s = got
    p.pre_size = s
    # 6. size / etc
    if 'size' in opts:
        if opts['size'] is None:
            return skip('valueless size')
        try:
            size = int(opts['size'])
        except (TypeError, ValueError):
            return skip('non-integer size')
        if size < 0:
            return skip('negative size')
        etc = opts.get('etc', '...')
        if etc is None:
            if len(s) > size:
                return skip('valueless etc')
            etc = ''
        s = m_truncate(s, size, etc)
    p.text = s
    return p


# ------------------------------------------------------------------ the tag inside enclosing blocks
# The statement makes the text of a dtml-var tag a function of the tag and of the value bound to its
# name.  The wrappers below place ONE tag source T (written between its '[' ']' sentinels) in the
# sections of the block tags; every wrapper is built so that the number of times T is rendered does not
# depend on anything this property does not fix: either T stands in every alternative (the output is
# the same whichever branch the engine takes), or the wrapper is marked optional (the output is T or the
# marker text of the alternative).  Helper names of the namespace: yes (1), no (0), nix (never defined),
# seq1 (one item), seq2 (two items), empty, nsempty ({}), ns / maps / inst / v (hold the value).
OTHER = '(other)'
BLOCK_SYNTAXES = ('dtml', 'ssi', 'epfs')


class Holder:
    """Instance whose attributes are the namespace (dtml-with on an object, client argument)."""


def _writers(syn):
    if syn == 'dtml':
        return (lambda t, a='': '<dtml-%s%s>' % (t, ' ' + a if a else ''),
                lambda t: '</dtml-%s>' % t,
                lambda t, a: '<dtml-%s %s>' % (t, a))
    if syn == 'ssi':
        return (lambda t, a='': '<!--#%s%s-->' % (t, ' ' + a if a else ''),
                lambda t: '<!--#/%s-->' % t,
                lambda t, a: '<!--#%s %s-->' % (t, a))
    if syn == 'epfs':
        return (lambda t, a='': '%%(%s%s)[' % (t, ' ' + a if a else ''),
                lambda t: '%%(%s)]' % t,
                lambda t, a: '%%(%s %s)%s' % (t, a, 's' if t == 'var' else '!'))     # '!': a non-block command
    raise ValueError(syn)


def _block_table():
    """[(key, family, place, n, alt, needs, build(o, c, s, T, N) -> source)]

    n: how often the tag is rendered (1, 2, 'len' = once per item of the value, once if it is empty),
    'opt' = once or the text `alt` instead, 'lead' = once, possibly after `alt`.
    needs: None, or what the wrapper itself demands of the name: 'defined', 'seq' (a list / tuple),
    'dict' (a mapping)."""
    W = []

    def add(key, family, fn, n=1, place='outer', alt=None, needs=None):
        W.append((key, family, place, n, alt, needs, fn))

    def cond(o, c, branches, els=None):
        out = []
        for i, (a, body) in enumerate(branches):
            out.append(o('if' if i == 0 else 'elif', a) + body)
        if els is not None:
            out.append(o('else') + els)
        return ''.join(out) + c('if')

    def unless(o, c, a, body):
        return o('unless', a) + body + c('unless')

    def blk(o, c, t, a, body):
        return o(t, a) + body + c(t)

    # ---- dtml-if / elif / else / unless testing the SAME name as a plain name
    add('if-same/both', 'if-same', lambda o, c, s, T, N: cond(o, c, [(N, T)], T))
    add('if-same/else-only', 'if-same', lambda o, c, s, T, N: cond(o, c, [(N, OTHER)], T), n='opt', alt=OTHER)
    add('if-same/then-only', 'if-same', lambda o, c, s, T, N: cond(o, c, [(N, T)], OTHER), n='opt', alt=OTHER)
    add('if-same/no-else', 'if-same', lambda o, c, s, T, N: cond(o, c, [(N, T)]), n='opt', alt='')
    add('if-same/name-attr', 'if-same', lambda o, c, s, T, N: cond(o, c, [('name=' + N, T)], T))
    add('elif-same', 'if-same', lambda o, c, s, T, N: cond(o, c, [('nix', OTHER), (N, T)], T))
    add('if-same/elif-other', 'if-same', lambda o, c, s, T, N: cond(o, c, [(N, T), ('nix', OTHER)], T))
    add('if-same/elif-same', 'if-same', lambda o, c, s, T, N: cond(o, c, [(N, T), (N, T)], T))
    add('if-same/elif-false-else', 'if-same', lambda o, c, s, T, N: cond(o, c, [(N, T), ('no', OTHER)], T))
    add('unless-same', 'unless-same', lambda o, c, s, T, N: unless(o, c, N, T), n='opt', alt='')
    add('unless-same+if-same', 'unless-same', lambda o, c, s, T, N: unless(o, c, N, T) + cond(o, c, [(N, T)]))
    add('if-same+unless-same', 'unless-same', lambda o, c, s, T, N: cond(o, c, [(N, T)]) + unless(o, c, N, T))
    # ---- second nesting level, other names in between
    add('nest/else(if-other)', 'nested', lambda o, c, s, T, N: cond(o, c, [(N, T)], cond(o, c, [('nix', OTHER)], T)))
    add('nest/other(if-same)', 'nested', lambda o, c, s, T, N: cond(o, c, [('nix', OTHER)], cond(o, c, [(N, T)], T)))
    add('nest/same(unless-same)', 'nested',
        lambda o, c, s, T, N: cond(o, c, [(N, T)], unless(o, c, N, T) + cond(o, c, [(N, T)])))
    add('nest/unless-other(if-same)', 'nested', lambda o, c, s, T, N: unless(o, c, 'no', cond(o, c, [(N, T)], T)))
    add('nest/3-levels', 'nested',
        lambda o, c, s, T, N: cond(o, c, [('nix', OTHER)], cond(o, c, [('no', OTHER)], cond(o, c, [(N, T)], T))))
    add('nest/same(same)', 'nested',
        lambda o, c, s, T, N: cond(o, c, [(N, cond(o, c, [(N, T)], T))], cond(o, c, [(N, T)], T)))
    # ---- conditions that are expressions, conditions on other names
    add('if-expr-has_key', 'if-expr',
        lambda o, c, s, T, N: cond(o, c, [('expr="_.has_key(\'%s\')"' % N, T)], T))
    add('if-expr-other', 'if-expr', lambda o, c, s, T, N: cond(o, c, [('expr="yes + 1 == 2"', T)], OTHER))
    add('if-other-true', 'if-other', lambda o, c, s, T, N: cond(o, c, [('yes', T)], OTHER))
    add('if-other-false', 'if-other', lambda o, c, s, T, N: cond(o, c, [('no', OTHER)], T))
    add('if-other-undefined', 'if-other', lambda o, c, s, T, N: cond(o, c, [('nix', OTHER)], T))
    add('unless-other', 'if-other', lambda o, c, s, T, N: unless(o, c, 'no', T))
    add('unless-other-undefined', 'if-other', lambda o, c, s, T, N: unless(o, c, 'nix', T))
    # ---- the tag before / after / in two blocks of one template
    add('before+if-same', 'sequence', lambda o, c, s, T, N: T + cond(o, c, [(N, T)], T), n=2)
    add('if-same+after', 'sequence', lambda o, c, s, T, N: cond(o, c, [(N, T)], T) + T, n=2)
    add('if-same twice', 'sequence', lambda o, c, s, T, N: cond(o, c, [(N, T)], T) + cond(o, c, [(N, T)], T), n=2)
    add('unless-same+after', 'sequence', lambda o, c, s, T, N: unless(o, c, N, OTHER) + T, n='lead', alt=OTHER)
    # ---- dtml-in
    add('in/one-item', 'in', lambda o, c, s, T, N: blk(o, c, 'in', 'seq1', T))
    add('in/two-items', 'in', lambda o, c, s, T, N: blk(o, c, 'in', 'seq2', T), n=2)
    add('in/else', 'in', lambda o, c, s, T, N: o('in', 'empty') + OTHER + o('else') + T + c('in'))
    add('in/mapping-item', 'in', lambda o, c, s, T, N: blk(o, c, 'in', 'maps mapping', T), place='inmap')
    add('in/if-same', 'in', lambda o, c, s, T, N: blk(o, c, 'in', 'seq2', cond(o, c, [(N, T)], T)), n=2)
    add('if-same/in', 'in',
        lambda o, c, s, T, N: cond(o, c, [(N, blk(o, c, 'in', 'seq1', T))], blk(o, c, 'in', 'seq1', T)))
    # the block tag itself reads the name (a sequence): once per item, or once in the else section
    add('in-same', 'in', lambda o, c, s, T, N: o('in', N) + T + o('else') + T + c('in'), n='len', needs='seq')
    add('in-same/if-same', 'in',
        lambda o, c, s, T, N: o('in', N) + cond(o, c, [(N, T)], T) + o('else') + T + c('in'), n='len', needs='seq')
    add('in/mapping-item/if-same', 'in',
        lambda o, c, s, T, N: blk(o, c, 'in', 'maps mapping', cond(o, c, [(N, T)], T)), place='inmap')
    # ---- dtml-with
    add('with/mapping-holds', 'with', lambda o, c, s, T, N: blk(o, c, 'with', 'ns mapping', T), place='withmap')
    add('with/mapping-empty', 'with', lambda o, c, s, T, N: blk(o, c, 'with', 'nsempty mapping', T))
    add('with/expr-mapping', 'with', lambda o, c, s, T, N: blk(o, c, 'with', 'expr="nsempty" mapping', T))
    add('with/instance', 'with', lambda o, c, s, T, N: blk(o, c, 'with', 'inst', T), place='inst')
    add('with/only', 'with', lambda o, c, s, T, N: blk(o, c, 'with', 'ns mapping only', T), place='withmap')
    add('with/if-same', 'with',
        lambda o, c, s, T, N: blk(o, c, 'with', 'ns mapping', cond(o, c, [(N, T)], T)), place='withmap')
    add('with-same/mapping', 'with', lambda o, c, s, T, N: blk(o, c, 'with', N + ' mapping', T), needs='dict')
    add('if-same/with', 'with',
        lambda o, c, s, T, N: cond(o, c, [(N, blk(o, c, 'with', 'nsempty mapping', T))],
                                   blk(o, c, 'with', 'nsempty mapping', T)))
    # ---- dtml-let
    add('let/other', 'let', lambda o, c, s, T, N: blk(o, c, 'let', 'q=yes', T))
    add('let/bind-name', 'let', lambda o, c, s, T, N: blk(o, c, 'let', N + '=v', T), place='let', needs='defined')
    add('let/bind-expr', 'let', lambda o, c, s, T, N: blk(o, c, 'let', N + '="v"', T), place='let', needs='defined')
    add('let/from-same', 'let', lambda o, c, s, T, N: blk(o, c, 'let', 'q=' + N, T), needs='defined')
    add('let/rebind-same', 'let', lambda o, c, s, T, N: blk(o, c, 'let', '%s=%s' % (N, N), T), needs='defined')
    add('let/rebind-same/if-same', 'let',
        lambda o, c, s, T, N: blk(o, c, 'let', '%s=%s' % (N, N), cond(o, c, [(N, T)], T)), needs='defined')
    add('let/if-same', 'let', lambda o, c, s, T, N: blk(o, c, 'let', 'q="1"', cond(o, c, [(N, T)], T)))
    add('if-same/let', 'let',
        lambda o, c, s, T, N: cond(o, c, [(N, blk(o, c, 'let', 'q=no', T))], blk(o, c, 'let', 'q=no', T)))
    # ---- dtml-try
    rais = lambda o, c: o('raise', 'KeyError') + 'k' + c('raise')      # noqa: E731
    add('try/body', 'try', lambda o, c, s, T, N: o('try') + T + o('except') + OTHER + c('try'))
    add('try/handler', 'try', lambda o, c, s, T, N: o('try') + rais(o, c) + o('except') + T + c('try'))
    add('try/named-handler', 'try',
        lambda o, c, s, T, N: o('try') + rais(o, c) + o('except', 'KeyError') + T + c('try'))
    add('try/else', 'try', lambda o, c, s, T, N: o('try') + o('except') + OTHER + o('else') + T + c('try'))
    add('try/finally-body', 'try', lambda o, c, s, T, N: o('try') + T + o('finally') + c('try'))
    add('try/lookup-same', 'try',
        lambda o, c, s, T, N: (o('try') + s('call', 'expr="_[\'%s\']"' % N) + o('except') + T + o('else') + T
                               + c('try')))
    add('try/handler/if-same', 'try',
        lambda o, c, s, T, N: o('try') + rais(o, c) + o('except') + cond(o, c, [(N, T)], T) + c('try'))
    add('if-same/try', 'try',
        lambda o, c, s, T, N: cond(o, c, [(N, o('try') + T + o('except') + OTHER + c('try'))],
                                   o('try') + rais(o, c) + o('except') + T + c('try')))
    # ---- the tag in a template of its own, called by name from the block
    add('sub/plain', 'sub-template', lambda o, c, s, T, N: s('var', 'sub'), place='sub')
    add('sub/if-same', 'sub-template',
        lambda o, c, s, T, N: cond(o, c, [(N, s('var', 'sub'))], s('var', 'sub')), place='sub')
    add('sub/in', 'sub-template', lambda o, c, s, T, N: blk(o, c, 'in', 'seq2', s('var', 'sub')), place='sub', n=2)
    return W


BLOCKS = _block_table()
BLOCK_KEYS = tuple(w[0] for w in BLOCKS)
BLOCK_FAMILIES = tuple(sorted(set(w[1] for w in BLOCKS)))
_BLOCK_BY_KEY = dict((w[0], w) for w in BLOCKS)


def block_info(key):
    """(family, place, n, alt, needs) of a wrapper."""
    w = _BLOCK_BY_KEY[key]
    return w[1], w[2], w[3], w[4], w[5]


def block_source(key, wsyntax, tag_source, name='x'):
    """Template source of wrapper `key` written in `wsyntax` around the tag source (with sentinels)."""
    o, c, s = _writers(wsyntax)
    return _BLOCK_BY_KEY[key][6](o, c, s, tag_source, name)


def block_namespace(place, defined, value, name='x', sub=None):
    """The names a wrapper needs; the value is bound where the wrapper's `place` says."""
    ns = {'yes': 1, 'no': 0, 'seq1': [7], 'seq2': ['a', 'b'], 'empty': [], 'nsempty': {}}
    if place in ('outer', 'sub'):
        if defined:
            ns[name] = value
        if place == 'sub':
            ns['sub'] = sub
    elif place == 'withmap':
        ns['ns'] = {name: value} if defined else {}
    elif place == 'inmap':
        ns['maps'] = [{name: value} if defined else {}]
    elif place == 'inst':
        h = Holder()
        if defined:
            setattr(h, name, value)
        ns['inst'] = h
    elif place == 'let':
        assert defined
        ns['v'] = value
    else:
        raise ValueError(place)
    return ns


def block_admits(needs, state):
    """Can the wrapper be rendered at all with the name in this state?"""
    kind = state[0]
    inner = state[1][0] if kind == 'call' else kind
    if needs is None:
        return True
    if kind == 'undefined':
        return False
    if needs == 'seq':
        return inner in ('list', 'tuple')
    if needs == 'dict':
        return kind == 'dict'
    return True


def block_expected(n, alt, tagtext, value=None):
    """The texts the wrapper may print when the tag prints `tagtext` (with its sentinels)."""
    if n == 'len':
        return (tagtext * (len(value) or 1),)
    if n == 'opt':
        return (tagtext, alt)
    if n == 'lead':
        return (tagtext, alt + tagtext)
    return (tagtext * n,)
