"""C17 helpers: caller-owned data (picklable module-level classes), deep fingerprints with
identities, the namespace world of one operation history, the template catalogue, the
shared-state write log and the pickle scanner.

Imported only inside worker children (needs the package under test on sys.path).
"""
import io
import pickle
import types

from DocumentTemplate.DT_HTML import HTML
from DocumentTemplate.DT_HTML import HTMLFile
from DocumentTemplate.DT_String import File
from DocumentTemplate.DT_String import String


# ------------------------------------------------------------------ caller-owned data
class Item:
    """Plain element / client object with public attributes."""
    __allow_access_to_unprotected_subobjects__ = 1

    def __init__(self, **kw):
        self.__dict__.update(kw)

    def __repr__(self):
        return 'Item(%s)' % ', '.join('%s=%r' % kv for kv in sorted(self.__dict__.items()))


class Fn:
    """A callable namespace value (called on lookup); pure."""
    __allow_access_to_unprotected_subobjects__ = 1

    def __init__(self, v):
        self.v = v

    def __call__(self, *args):
        if args:
            return '%s(%s)' % (self.v, ','.join(str(a) for a in args))
        return self.v

    def __repr__(self):
        return 'Fn(%r)' % (self.v,)


class MarkedStr(str):
    """A text value of a str SUBCLASS: carries an attribute and its own upper()."""
    __allow_access_to_unprotected_subobjects__ = 1

    def __new__(cls, v='', mark=''):
        s = str.__new__(cls, v)
        s.mark = mark
        return s

    def __getnewargs__(self):
        return (str.__str__(self), self.mark)

    def upper(self):
        return 'UP(%s)' % str.upper(self)


class Renders:
    """A value that is rendered with the namespace when it is looked up by name."""
    __allow_access_to_unprotected_subobjects__ = 1

    def __init__(self, n):
        self.n = n

    def __render_with_namespace__(self, md):
        return 'RN%s[x=%s]' % (self.n, md['x'])

    def __repr__(self):
        return 'Renders(%r)' % (self.n,)


def cmp_asc(a, b):
    return (a > b) - (a < b)


def cmp_desc(a, b):
    return (b > a) - (b < a)


def cmp_len(a, b):
    return (len(str(a)) - len(str(b))) or cmp_asc(str(a), str(b))


def _doc(i, tag):
    """A sub-template the tree tag calls for its header / footer / leaves (differs per namespace)."""
    return HTML('<dtml-var standard_html_header>[%s%d x=<dtml-var x> id=<dtml-var id missing=noid>]'
                '<dtml-var standard_html_footer>' % (tag, i))


class Node:
    """Tree node whose tpValues() hands out a copy of its child list."""

    def __init__(self, id, kids=()):
        self.id = id
        self.kids = list(kids)

    def tpId(self):
        return self.id

    def tpURL(self):
        return self.id

    def tpValues(self):
        return list(self.kids)

    def __repr__(self):
        return 'Node(%r)' % (self.id,)


class NodeOwn(Node):
    """Tree node whose tpValues() returns the caller's own child list object."""

    def tpValues(self):
        return self.kids


class Resp:
    """RESPONSE stand-in; the cookies set are part of the render's observable result."""
    _fp_skip = ('cookies',)

    def __init__(self):
        self.cookies = []

    def setCookie(self, name, value, **kw):
        self.cookies.append((name, value, tuple(sorted(kw.items()))))


class GuardedHTML(HTML):
    """HTML with permissive guards: expressions are compiled lazily in restricted mode."""

    def guarded_getattr(self, ob, name, *default):
        return getattr(ob, name, *default)

    def guarded_getitem(self, ob, index):
        return ob[index]


class RefusingHTML(GuardedHTML):
    """Guards that refuse some elements (tree nodes whose id starts with 'cb', rows whose c ends in '-1'):
    what skip_unauthorized removes must be removed from the engine's own copy, not from the caller's list."""

    def guarded_getitem(self, ob, index):
        from zExceptions import Unauthorized
        v = ob[index]
        if str(getattr(v, 'id', '')).startswith('cb') or str(getattr(v, 'c', '')).endswith('-1'):
            raise Unauthorized('refused element %r' % (index,))
        return v


CLASSES = {'HTML': HTML, 'String': String, 'HTMLFile': HTMLFile, 'File': File,
           'GuardedHTML': GuardedHTML, 'RefusingHTML': RefusingHTML}
TEMPLATE_CLASS_MODULES = ('DocumentTemplate.DT_HTML', 'DocumentTemplate.DT_String')

ABSENT = object()
_SCALARS = (int, float, str, bytes, bool, type(None))


# ------------------------------------------------------------------ deep fingerprint
def fingerprint(root):
    """(structure, identities): a canonical nested description of every object reachable from
    `root` plus the id() of every non-scalar in traversal order.  Volatile (_v_) attributes of
    templates and attributes named in a class's _fp_skip are left out."""
    ids = []
    memo = {}

    def fpitems(pairs):
        items = [(fp(k), fp(v)) for k, v in pairs]
        items.sort(key=lambda kv: repr(kv[0]))
        return ('dict',) + tuple(items)

    def fp(o):
        t = type(o)
        if t in _SCALARS:
            return (t.__name__, o)
        i = id(o)
        if i in memo:
            return ('@', memo[i])
        memo[i] = len(memo)
        ids.append(i)
        if t is list or t is tuple:
            return (t.__name__,) + tuple(fp(x) for x in o)
        if t is dict:
            return fpitems(o.items())
        if t in (set, frozenset):
            return (t.__name__,) + tuple(sorted(repr(fp(x)) for x in o))
        if isinstance(o, types.GeneratorType):
            return ('generator',)
        if getattr(o, 'isDocTemp', 0) and isinstance(o, String):
            return ('template', t.__name__,
                    fpitems((k, v) for k, v in o.__dict__.items() if k[:3] not in ('_v_', '_p_')))
        if isinstance(o, (types.FunctionType, types.BuiltinFunctionType, type)):
            return ('callable', getattr(o, '__qualname__', repr(o)))
        d = getattr(o, '__dict__', None)
        for base in (str, bytes, int, float):
            if isinstance(o, base):        # subclass of a scalar: its plain value counts too
                return ('sub', t.__name__, base.__name__, base(o) if base is not str else str.__str__(o),
                        fpitems((d or {}).items()))
        if d is not None:
            skip = getattr(o, '_fp_skip', ())
            return ('obj', t.__name__, fpitems((k, v) for k, v in d.items() if k not in skip))
        return ('repr', t.__name__, repr(o))

    return fp(root), ids


def first_difference(a, b, path=''):
    """Human-readable location of the first difference of two fingerprint structures."""
    if a == b:
        return None
    if isinstance(a, tuple) and isinstance(b, tuple) and a and b and a[0] == b[0] \
            and isinstance(a[0], str):
        tag = a[0]
        if tag in ('list', 'tuple'):
            if len(a) != len(b):
                return '%s: length %d -> %d' % (path, len(a) - 1, len(b) - 1)
            for n in range(1, len(a)):
                if a[n] != b[n]:
                    return first_difference(a[n], b[n], '%s[%d]' % (path, n - 1))
        elif tag == 'dict':
            da, db = dict(a[1:]), dict(b[1:])
            for k in da:
                if k not in db:
                    return '%s: key %r removed' % (path, k[-1])
            for k in db:
                if k not in da:
                    return '%s: key %r added (%s)' % (path, k[-1], repr(db[k])[:120])
            for k in da:
                if da[k] != db[k]:
                    kk = k[-1]
                    sub = ('.%s' % kk) if path.endswith('>') else ('[%r]' % (kk,))
                    return first_difference(da[k], db[k], path + sub)
        elif tag in ('obj', 'template') and a[1] == b[1]:
            return first_difference(a[2], b[2], '%s<%s>' % (path, a[1]))
    return '%s: %s -> %s' % (path, repr(a)[:160], repr(b)[:160])


def sort_own_kids(st):
    """The structure with every NodeOwn.kids list ordered by the nodes' id (classifier helper)."""
    if not isinstance(st, tuple):
        return st
    if len(st) == 3 and st[0] == 'obj' and st[1] == 'NodeOwn':
        entries = []
        for k, v in st[2][1:]:
            v = sort_own_kids(v)
            if k == ('str', 'kids') and v[0] == 'list':
                v = ('list',) + tuple(sorted(v[1:], key=lambda n: repr(dict(n[2][1:]).get(('str', 'id')))))
            entries.append((k, v))
        return ('obj', 'NodeOwn', ('dict',) + tuple(entries))
    return tuple(sort_own_kids(x) for x in st)


# ------------------------------------------------------------------ namespace values
NLEN = {1: 5, 2: 6, 3: 4}


def rows(i):
    n = NLEN[i]
    return [{'a': (j * 3 + i) % n, 'b': 'bB'[(j + i) % 2] + str((j * 2 + i) % n),
             'c': 'c%d-%d' % (i, j), 'n': j + i, 'g': 'g%d' % ((j + i) // 2)} for j in range(n)]


def tree(i, cls):
    k = str(i)
    return cls('r' + k, [cls('c' + k, [cls('cb' + k), cls('ca' + k)]),
                         cls('a' + k, [cls('ab' + k, [cls('abx' + k)])]),
                         cls('b' + k)])


def _gen(i):
    for r in rows(i):
        yield Item(**r)


def _tree_e(i):
    from TreeDisplay.TreeTag import encode_seq
    return encode_seq(['r%d' % i, 'a%d' % i])


def pick(i, a, b, c):
    return (a, b, c)[i - 1]


VAL = {
    'x': lambda i: pick(i, 3, 12, 0),
    'y': lambda i: pick(i, 4, -7, 1000),
    's': lambda i: pick(i, 'a<b', 'Tom & "Jerry"', 'plain words here and more of them'),
    'flag': lambda i: pick(i, 1, 0, ABSENT),
    'other': lambda i: pick(i, ABSENT, 'oth', ''),
    'opt': lambda i: pick(i, 'given', ABSENT, None),
    'nul': lambda i: pick(i, '', 5, 0),
    'z': lambda i: pick(i, 2, 0, 1),
    'bad': lambda i: pick(i, 0, 0, 1),
    'k': lambda i: pick(i, 'a', 'b', 'c'),
    'k2': lambda i: pick(i, 'b', 'a', 'b'),
    'rev': lambda i: pick(i, 0, 1, 0),
    'ks': lambda i: pick(i, '', 'zz', ''),
    'bs': lambda i: pick(i, 'Zo\xeb'.encode('utf-8'), b'plain', 'na\xefve \u20ac <b>'.encode('utf-8')),
    'st': lambda i: pick(i, 1, 3, 2),
    'sz': lambda i: pick(i, 2, 3, 2),
    'seq': rows,
    'objs': lambda i: [Item(**r) for r in rows(i)],
    'tup': lambda i: tuple(Item(**r) for r in rows(i)),
    'pairs': lambda i: [('key%d' % r['n'], Item(**r)) for r in rows(i)],
    'nums': lambda i: pick(i, [5, 3, 9, 1], [2, 2, 7, 0, 4], [8]),
    'words': lambda i: pick(i, ['pear', 'Apple', 'fig'], ['kiwi', 'Date', 'cherry', 'banana'], ['solo']),
    'empty': lambda i: [],
    'maybe': lambda i: pick(i, [1, 2], [], [3]),
    'gen': _gen,
    'outer': lambda i: [dict(r, inner=rows(1 + (i + j) % 3)[:3]) for j, r in enumerate(rows(i)[:3])],
    'obj': lambda i: Item(name='name%d' % i, age=30 + i, inner=Item(name='inner%d' % i, tags=['t%d' % i, 'u'])),
    'd': lambda i: {'name': 'dname%d' % i, 'age': 70 + i, 'x': 'dx%d' % i},
    'fn0': lambda i: Fn('called%d' % i),
    'fn1': lambda i: Fn('f%d' % i),
    'sub': lambda i: HTML('[nsub%d x=<dtml-var x> s=<dtml-var s html_quote>]' % i),
    'root': lambda i: tree(i, Node),
    'rootown': lambda i: tree(i, NodeOwn),
    'URL': lambda i: 'http://host/p%d/doc' % i,
    'RESPONSE': lambda i: Resp(),
    'tree-e': lambda i: pick(i, ABSENT, _tree_e(2), ABSENT),
    # names that OPTION VALUES refer to: comparison functions of sort="key/function", the documents of the tree
    # tag's header= / footer= / leaves=, the query string the batch links are made from
    'cmpf': lambda i: pick(i, cmp_asc, cmp_desc, cmp_len),
    'cmpg': lambda i: pick(i, cmp_desc, cmp_len, ABSENT),
    'hdr': lambda i: _doc(i, 'H'),
    'ftr': lambda i: pick(i, _doc(1, 'F'), ABSENT, _doc(3, 'F')),
    'lv': lambda i: pick(i, ABSENT, _doc(2, 'L'), _doc(3, 'L')),
    'QUERY_STRING': lambda i: pick(i, 'a=1&st=3&b=2', ABSENT, 'st=1&z=9'),
    # one name, values of different TYPES from render to render
    # ns1: valid in iso-8859-15 only; ns2: ASCII; ns3: valid in both encodings, but another text in each
    'bl9': lambda i: pick(i, 'Zo\xeb \u20ac<'.encode('iso-8859-15'), b'plain<', 'na\xefve \u0153'.encode('utf-8')),
    'poly': lambda i: pick(i, 7, 'seven<&', Fn('fn<7')),
    'polyseq': lambda i: pick(i, [3, 1, 2], ('b', 'a', 'c'), [('k2', 'v2'), ('k1', 'v1')]),
    'polyobj': lambda i: pick(i, Item(name='pname', x='px'), {'name': 'dn'}, Item(name=Fn('called-name'))),
    'expand_all': lambda i: pick(i, ABSENT, ABSENT, 1),
}


class World:
    """The caller's data of one history.  persistent=True keeps one container object per name
    (and one mapping dict, one client object) for the whole history and refills it in place for
    each namespace, so object identities repeat while contents change; persistent=False builds
    everything anew for each render."""

    def __init__(self, keys, persistent):
        self.keys = keys
        self.persistent = persistent
        self.store = {}
        self.mapping = {}
        self.client = Item()
        self.kw = {}
        self.resp = None

    def value(self, name, i):
        v = VAL[name](i)
        if v is ABSENT or not self.persistent:
            return v
        old = self.store.get(name)
        if old is not None and type(old) is type(v):
            if type(v) is list:
                old[:] = v
                return old
            if type(v) is dict:
                old.clear()
                old.update(v)
                return old
            if type(v) is Item:
                old.__dict__.clear()
                old.__dict__.update(v.__dict__)
                return old
        self.store[name] = v
        return v

    def apply(self, i):
        """Build namespace i; returns (client, mapping, kw) in the call form of that namespace:
        1 keyword arguments, 2 mapping argument, 3 client object (+ mapping for other names)."""
        vals = {}
        for name in self.keys:
            v = self.value(name, i)
            if v is not ABSENT:
                vals[name] = v
        self.resp = vals.get('RESPONSE')
        if self.persistent:
            mapping, client, kw = self.mapping, self.client, self.kw
            mapping.clear()
            client.__dict__.clear()
            kw.clear()
        else:
            mapping, client, kw = {}, Item(), {}
            self.mapping, self.client, self.kw = mapping, client, kw
        if i == 1:
            kw.update(vals)
            return None, None, kw
        if i == 2:
            mapping.update(vals)
            return None, mapping, kw
        for name, v in vals.items():
            if name.isidentifier() and not name.startswith('_'):
                setattr(client, name, v)
            else:
                mapping[name] = v
        return client, (mapping or None), kw

    def roots(self):
        return [self.mapping, self.client, self.kw]


# ------------------------------------------------------------------ template catalogue
def MK(name, j):
    return '@@%s.%d@@' % (name, j)


def defaults_plain(j):
    """(constructor mapping, constructor keyword defaults) of defaults set j (1 or 2)."""
    if j == 1:
        return {'dm': 'map1', 'both': 'map-loses', 'flag': 'dflag', '_hidden': 'never'}, \
               {'dk': 'kw1', 'both': 'kw-wins', 'dl': [1, 2, 3]}
    return {'dm': 'MAP2', 'other': 'dother2'}, {'dk': 'KW2', 'dl': [9, 8], 'opt': 'dopt2'}


def defaults_sub(j):
    if j == 1:
        return None, {'sub': HTML('[dsub1 x=<dtml-var x> <dtml-in nums><dtml-var sequence-item>,</dtml-in>'
                                  + MK('dsub', 1) + ']', inner='i1'),
                      'x': 77}
    return None, {'sub': HTML('[dsub2 y=<dtml-var y>' + MK('dsub', 2) + ']'), 'y': 55}


def defaults_special(j):
    """Defaults of special value types that can be pickled: a str subclass, bytes, an object rendered with the
    namespace, a callable, None, a float, a tuple, a nested mapping."""
    if j == 1:
        return {'ms': MarkedStr('m<s', 'MK1'), 'rn': Renders(1)}, \
               {'bd': 'Zo\xeb<'.encode('utf-8'), 'dfn': Fn('dfn1'), 'nn': None, 'fl': 2.5,
                'tp': (1, 'a', None), 'dd': {'q': MarkedStr('qq', 'Q1'), 'b': b'in<ner'}}
    return {'ms': MarkedStr('M2&', 'MK2'), 'bd': b'plain bytes'}, \
           {'rn': Renders(2), 'dfn': Fn('dfn2'), 'nn': 0, 'fl': -0.125, 'tp': ('z', 2), 'dd': {'q': 'plainq', 'b': b''}}


def defaults_tainted(j):
    """Defaults that are tainted (request-derived) values; such a value refuses to be pickled or deep-copied
    itself, so of the persistence operations only a shallow copy / a transfer of the state is possible."""
    from AccessControl.tainted import TaintedString
    if j == 1:
        return {'tx': TaintedString('a<b>c'), 'plain': 'p<1>'}, \
               {'tv': TaintedString('<script>v</script>'), 'tl': [TaintedString('<i>'), 'j']}
    return {'tv': TaintedString('T<2>')}, {'tx': TaintedString('second & <tx>'), 'plain': 'p2', 'tl': ['k', TaintedString('<l>')]}


def defaults_tainted_flat(j):
    """Tainted defaults at the top level only, next to a plain list."""
    mapping, kw = defaults_tainted(j)
    kw['tl'] = ['k%d' % j, 'plain<%d>' % j]
    return mapping, kw


def vars_special(j):
    """Variables set with var() after construction (same names in both sets)."""
    return {'v1': MarkedStr('var<%d' % j, 'V%d' % j), 'x': 'var-x%d' % j, 'vb': ('vb%d<' % j).encode('ascii')}


def vars_tainted(j):
    from AccessControl.tainted import TaintedString
    return {'v1': TaintedString('<v%d>' % j), 's': 'var-s%d' % j}


def defaults_latin(j):
    """A constructor argument other than source and defaults: the template's encoding (here not the default one),
    with a byte-string default in that encoding.  (Used only where munge leaves the defaults alone.)"""
    return {'dl9': 'd\xe9f \u20ac'.encode('iso-8859-15')}, {'encoding': 'iso-8859-15', 'dtext': 'd\xe9f'}


def defaults_utf8_twin(j):
    """For the twins of the 'latin' templates: the very same source text, but the default encoding (given
    explicitly) and other defaults."""
    return {'dl9': 'twin d\xe9f \u20ac'.encode('utf-8')}, {'encoding': 'utf-8', 'dtext': 'twin-d\xe9f'}


DEFAULTS = {'plain': defaults_plain, 'sub': defaults_sub, 'special': defaults_special, 'tainted': defaults_tainted,
            'tainted_flat': defaults_tainted_flat, 'latin': defaults_latin, 'utf8_twin': defaults_utf8_twin}
VARS = {'special': vars_special, 'tainted': vars_tainted, 'tainted_flat': vars_tainted}
# families whose defaults are of special value types (evidence counters)
SPECIAL_DEFAULTS = {'special': 'special', 'tainted': 'tainted', 'tainted_flat': 'tainted'}

ROW = '<dtml-var a>/<dtml-var b>/<dtml-var c>;'
BATCHV = ('[<dtml-var sequence-number>:<dtml-var c>:<dtml-var previous-sequence>:<dtml-var next-sequence>:'
          '<dtml-var previous-sequence-start-number missing=->:<dtml-var next-sequence-start-number missing=->:'
          '<dtml-var next-sequence-size missing=->]')

# (name, class, src1, src2, namespace keys, defaults recipe or None, munge2 replaces defaults?)
_T = [
    ('text', 'HTML', 'Just text, no tags & nothing < else', 'Other text', ['x'], None, 0),
    ('samelen', 'HTML', 'A<dtml-var x>B<dtml-if flag>F</dtml-if>', 'B<dtml-var y>A<dtml-if bad>!G</dtml-if>',
     ['x', 'y', 'flag', 'bad'], None, 0),
    ('var_simple', 'HTML', 'A<dtml-var x>B<dtml-var s>C<dtml-var s html_quote>',
     'a&dtml-x;b&dtml-s;c<dtml-var y>', ['x', 'y', 's'], None, 0),
    ('var_fmt', 'HTML', '<dtml-var x fmt="%05d">|<dtml-var s upper>|<dtml-var s size=9 etc="..">|<dtml-var y thousands_commas>',
     '<dtml-var s lower url_quote>|<dtml-var s capitalize spacify>|<dtml-var x fmt=dollars-and-cents>',
     ['x', 'y', 's'], None, 0),
    ('var_expr', 'HTML', '<dtml-var "x + y">|<dtml-var expr="s[:3]" html_quote>|<dtml-var "_.len(s)">',
     '<dtml-var "x * 2 - y">|<dtml-var "_[\'s\'] + _.str(x)">', ['x', 'y', 's'], None, 0),
    ('var_missing_null', 'HTML',
     '<dtml-var opt missing="-">|<dtml-var nul null="nil">|<dtml-var flag missing=noflag>|<dtml-var other missing>',
     '<dtml-var other missing="none">|<dtml-var opt null="NULL" missing="MISS">', ['opt', 'nul', 'flag', 'other'], None, 0),
    ('var_keyerror', 'HTML', 'before <dtml-var opt> after', 'before <dtml-var flag> <dtml-var other> after',
     ['opt', 'flag', 'other'], None, 0),
    ('entity', 'HTML', '&dtml-s;|&dtml.url_quote-s;|&dtml.upper.html_quote-s;', '&dtml.lower-s;|&dtml-x;', ['s', 'x'], None, 0),
    ('if_name', 'HTML', '<dtml-if flag>F<dtml-var flag><dtml-elif other>O<dtml-var other><dtml-else>E</dtml-if>',
     '<dtml-if other>O<dtml-else>N</dtml-if><dtml-if flag>F</dtml-if>', ['flag', 'other'], None, 0),
    ('if_expr', 'HTML', '<dtml-if "x > 5">big<dtml-elif "x > 1">mid<dtml-else>small</dtml-if>',
     '<dtml-if expr="y < 0">neg<dtml-else>pos</dtml-if><dtml-if "x">X</dtml-if>', ['x', 'y'], None, 0),
    ('unless', 'HTML', '<dtml-unless flag>noflag</dtml-unless><dtml-unless "x">nox</dtml-unless>',
     '<dtml-unless other>noother</dtml-unless>', ['flag', 'other', 'x'], None, 0),
    ('in_plain', 'HTML', '<dtml-in nums><dtml-var sequence-item>,<dtml-else>NONE</dtml-in>|<dtml-in maybe>m<dtml-var sequence-item><dtml-else>EMPTY</dtml-in>',
     '<dtml-in words>(<dtml-var sequence-item>)</dtml-in><dtml-in empty>x<dtml-else>E</dtml-in>',
     ['nums', 'words', 'maybe', 'empty'], None, 0),
    ('in_mapping', 'HTML', '<dtml-in seq mapping>' + ROW + '</dtml-in>',
     '<dtml-in seq mapping><dtml-var n>=<dtml-var g> </dtml-in>', ['seq'], None, 0),
    ('in_objects', 'HTML', '<dtml-in objs>' + ROW + '</dtml-in>', '<dtml-in tup><dtml-var c>.</dtml-in>', ['objs', 'tup'], None, 0),
    ('in_sort', 'HTML', '<dtml-in seq mapping sort=a>' + ROW + '</dtml-in>|<dtml-in objs sort=b>' + ROW + '</dtml-in>',
     '<dtml-in seq mapping sort=b>' + ROW + '</dtml-in>|<dtml-in nums sort><dtml-var sequence-item> </dtml-in>',
     ['seq', 'objs', 'nums'], None, 0),
    ('in_sort_multi', 'HTML', '<dtml-in seq mapping sort="g,a/cmp/desc">' + ROW + '</dtml-in>',
     '<dtml-in seq mapping sort="b/nocase,a"><dtml-var b> </dtml-in>|<dtml-in objs sort="g/cmp/desc,b">' + ROW + '</dtml-in>',
     ['seq', 'objs'], None, 0),
    ('in_sort_expr', 'HTML', '<dtml-in seq mapping sort_expr="k">' + ROW + '</dtml-in>',
     '<dtml-in objs sort_expr="k2">' + ROW + '</dtml-in>', ['seq', 'objs', 'k', 'k2'], None, 0),
    # a sort_expr that evaluates to the empty sort (order by the element itself) or to a key no element has,
    # combined with reversing, over the caller's own lists and the template's default list
    ('in_sort_expr_empty', 'HTML',
     '<dtml-in nums sort_expr="ks" reverse><dtml-var sequence-item>,</dtml-in>|<dtml-in words sort_expr="ks" reverse_expr="rev"><dtml-var sequence-item>,</dtml-in>',
     '<dtml-in dl sort_expr="ks" reverse><dtml-var sequence-item></dtml-in>|<dtml-in nums sort_expr="ks" reverse_expr="not rev"><dtml-var sequence-item>,</dtml-in>',
     ['nums', 'words', 'ks', 'rev'], 'plain', 0),
    ('in_sort_expr_batch', 'HTML', '<dtml-in seq mapping sort_expr="k" size=sz start=st>' + ROW + '</dtml-in>',
     '<dtml-in seq mapping sort_expr="k2" reverse_expr="rev" size=3>' + ROW + '</dtml-in>',
     ['seq', 'k', 'k2', 'rev', 'st', 'sz'], None, 0),
    ('in_reverse', 'HTML', '<dtml-in nums reverse><dtml-var sequence-item>,</dtml-in>|<dtml-in seq mapping reverse>' + ROW + '</dtml-in>',
     '<dtml-in objs reverse><dtml-var c>,</dtml-in>|<dtml-in words reverse size=2><dtml-var sequence-item>,</dtml-in>',
     ['nums', 'seq', 'objs', 'words'], None, 0),
    ('in_reverse_expr', 'HTML', '<dtml-in nums reverse_expr="rev"><dtml-var sequence-item>,</dtml-in>',
     '<dtml-in seq mapping reverse_expr="not rev">' + ROW + '</dtml-in>', ['nums', 'seq', 'rev'], None, 0),
    ('in_sort_reverse', 'HTML', '<dtml-in seq mapping sort=b reverse>' + ROW + '</dtml-in>',
     '<dtml-in objs sort=a reverse_expr="rev">' + ROW + '</dtml-in>', ['seq', 'objs', 'rev'], None, 0),
    ('in_batch', 'HTML', '<dtml-in seq mapping start=st size=sz orphan=1 overlap=1>' + BATCHV + '</dtml-in>',
     '<dtml-in seq mapping size=2 orphan=0>' + BATCHV + '</dtml-in>', ['seq', 'st', 'sz'], None, 0),
    ('in_batch_prevnext', 'HTML',
     '<dtml-in seq mapping start=st size=2 previous>P<dtml-var previous-sequence-start-number>-<dtml-var previous-sequence-end-number><dtml-else>noprev</dtml-in>|'
     '<dtml-in seq mapping start=st size=2 next>N<dtml-var next-sequence-start-number>-<dtml-var next-sequence-end-number><dtml-else>nonext</dtml-in>',
     '<dtml-in objs start=st size=sz next>N<dtml-var next-sequence-size></dtml-in>', ['seq', 'objs', 'st', 'sz'], None, 0),
    ('in_batches', 'HTML',
     '<dtml-in seq mapping start=st size=2><dtml-if sequence-end><dtml-in next-batches mapping>{<dtml-var batch-start-index>-<dtml-var batch-end-index>}</dtml-in></dtml-if>'
     '<dtml-if sequence-start><dtml-in previous-batches mapping>(<dtml-var batch-start-index>-<dtml-var batch-size>)</dtml-in></dtml-if></dtml-in>',
     '<dtml-in seq mapping size=1 start=st><dtml-var sequence-step-size>/<dtml-var sequence-step-start>/<dtml-var sequence-step-end></dtml-in>',
     ['seq', 'st'], None, 0),
    ('in_stats', 'HTML',
     '<dtml-in seq mapping><dtml-if sequence-end><dtml-var total-n>,<dtml-var count-n>,<dtml-var min-n>,<dtml-var max-n>,<dtml-var mean-a>,<dtml-var max-c></dtml-if></dtml-in>',
     '<dtml-in objs><dtml-if sequence-start><dtml-var total-a>,<dtml-var median-n>,<dtml-var count-b>,<dtml-var min-b></dtml-if></dtml-in>',
     ['seq', 'objs'], None, 0),
    ('in_seqvars', 'HTML',
     '<dtml-in objs sort=g><dtml-var sequence-index>.<dtml-var sequence-number>.<dtml-var sequence-letter>.<dtml-var sequence-Roman>.'
     '<dtml-if sequence-even>e<dtml-else>o</dtml-if><dtml-if first-g>[</dtml-if><dtml-var g><dtml-if last-g>]</dtml-if>'
     '<dtml-if sequence-start>S</dtml-if><dtml-if sequence-end>E</dtml-if>;</dtml-in>',
     '<dtml-in seq mapping><dtml-var sequence-roman>=<dtml-var sequence-var-c>/<dtml-var sequence-length>;</dtml-in>',
     ['objs', 'seq'], None, 0),
    ('in_prefix', 'HTML', '<dtml-in nums prefix=p><dtml-var p_index>:<dtml-var p_item>:<dtml-var p_number>;</dtml-in>',
     '<dtml-in pairs prefix=q><dtml-var q_key>=<dtml-var c>;</dtml-in>', ['nums', 'pairs'], None, 0),
    ('in_nested', 'HTML',
     '<dtml-in outer mapping sort_expr="k"><dtml-var c>(<dtml-in inner mapping sort_expr="k2" reverse_expr="rev"><dtml-var c>,</dtml-in>)</dtml-in>',
     '<dtml-in outer mapping reverse><dtml-var c>(<dtml-in inner mapping size=2 start=st><dtml-var c>,</dtml-in>)</dtml-in>',
     ['outer', 'k', 'k2', 'rev', 'st'], None, 0),
    ('in_expr', 'HTML', '<dtml-in "_.range(x)"><dtml-var sequence-item></dtml-in>|<dtml-in expr="nums[:2]"><dtml-var sequence-item>,</dtml-in>',
     '<dtml-in "seq[1:]" mapping sort=a>' + ROW + '</dtml-in>', ['x', 'nums', 'seq'], None, 0),
    ('in_pairs', 'HTML', '<dtml-in pairs><dtml-var sequence-key>=<dtml-var c>,</dtml-in>',
     '<dtml-in pairs sort=b reverse><dtml-var sequence-key>=<dtml-var b>,</dtml-in>', ['pairs'], None, 0),
    ('in_generator', 'HTML', '<dtml-in gen>' + ROW + '</dtml-in>', '<dtml-in gen size=2 start=st>' + ROW + '</dtml-in>',
     ['gen', 'st'], None, 0),
    ('with_obj', 'HTML', '<dtml-with obj><dtml-var name>:<dtml-var age><dtml-with inner>/<dtml-var name>/<dtml-in tags><dtml-var sequence-item></dtml-in></dtml-with></dtml-with>',
     '<dtml-with "obj.inner"><dtml-var name>+<dtml-var x></dtml-with>', ['obj', 'x'], None, 0),
    ('with_mapping', 'HTML', '<dtml-with d mapping><dtml-var name>:<dtml-var age>:<dtml-var x>:<dtml-var y></dtml-with>',
     '<dtml-with d mapping only><dtml-var name>:<dtml-var y missing=onlyd></dtml-with>', ['d', 'x', 'y'], None, 0),
    ('let', 'HTML', '<dtml-let a=x b="a * 2" c="b + y"><dtml-var a>,<dtml-var b>,<dtml-var c></dtml-let>:<dtml-var a missing=gone>',
     '<dtml-let s="s.upper()" x=y><dtml-var s>|<dtml-var x></dtml-let><dtml-var x>', ['x', 'y', 's'], None, 0),
    ('try_except', 'HTML', '<dtml-try>v=<dtml-var "x / z"><dtml-except ZeroDivisionError>div0 <dtml-var error_type><dtml-else> fine</dtml-try>',
     '<dtml-try><dtml-var opt><dtml-except KeyError NameError>missing:<dtml-var error_value><dtml-except>other</dtml-try>',
     ['x', 'z', 'opt'], None, 0),
    ('try_finally', 'HTML', '<dtml-try>a<dtml-var "y / z">b<dtml-finally>FIN<dtml-var x></dtml-try>',
     '<dtml-try><dtml-in nums><dtml-var "10 / (_[\'sequence-item\'] - 2)">,</dtml-in><dtml-finally>F</dtml-try>',
     ['x', 'y', 'z', 'nums'], None, 0),
    ('raise', 'HTML', 'head<dtml-if bad><dtml-raise ValueError>bad value <dtml-var x></dtml-raise></dtml-if>tail<dtml-var x>',
     '<dtml-try><dtml-raise type="KeyError">kk<dtml-var y></dtml-raise><dtml-except KeyError>caught <dtml-var error_value></dtml-try>',
     ['bad', 'x', 'y'], None, 0),
    ('return', 'HTML', 'ignored<dtml-if flag><dtml-return nums></dtml-if>text<dtml-var x>',
     '<dtml-return "x + y">', ['flag', 'nums', 'x', 'y'], None, 0),
    ('call_comment', 'HTML', 'a<dtml-call "fn1(x)"><dtml-comment>hidden <dtml-var nope></dtml-comment>b<dtml-var fn0>c<dtml-var "fn1(y, x)">',
     '<dtml-var fn0 upper>|<dtml-call fn0>|<dtml-var "fn0()">', ['fn0', 'fn1', 'x', 'y'], None, 0),
    ('defaults', 'HTML', '<dtml-var dm>|<dtml-var dk>|<dtml-var both>|<dtml-var flag>|<dtml-in dl><dtml-var sequence-item></dtml-in>|<dtml-var x>|<dtml-var _hidden missing=nohidden>',
     '<dtml-var dm>|<dtml-var dk>|<dtml-var other missing=noother>|<dtml-var opt missing=noopt null=nullopt>|<dtml-in dl reverse><dtml-var sequence-item></dtml-in>',
     ['x', 'flag', 'other', 'opt'], 'plain', 1),
    ('defaults_kept', 'HTML', '<dtml-var dm>|<dtml-var x>', '<dtml-var dk>|<dtml-var both>|<dtml-in dl sort reverse><dtml-var sequence-item></dtml-in>|<dtml-var y>',
     ['x', 'y'], 'plain', 0),
    ('sub_default', 'HTML', 'outer <dtml-var sub> <dtml-var x> <dtml-var "sub(x=5, nums=[0])">',
     'outer2 <dtml-var sub><dtml-var sub>', ['nums', 'x', 'y'], 'sub', 1),
    ('sub_namespace', 'HTML', '<dtml-in nums><dtml-var sub>;</dtml-in><dtml-var sub>',
     '<dtml-with obj><dtml-var sub></dtml-with>', ['sub', 'nums', 'x', 's', 'obj'], None, 0),
    ('tree', 'HTML', '<dtml-tree root branches=tpValues><dtml-var id>:<dtml-var tree-level>:<dtml-var tree-item-expanded></dtml-tree>',
     '<dtml-tree root reverse nowrap><dtml-var id></dtml-tree>', ['root', 'URL', 'RESPONSE', 'tree-e', 'expand_all'], None, 0),
    ('tree_sort', 'HTML', '<dtml-tree rootown sort=id><dtml-var id></dtml-tree>',
     '<dtml-tree rootown sort=id reverse single><dtml-var id>.<dtml-var tree-level></dtml-tree>',
     ['rootown', 'URL', 'RESPONSE', 'tree-e', 'expand_all'], None, 0),
    ('tree_expr', 'HTML', '<dtml-tree expr="root" branches_expr="tpValues()" sort=id><dtml-var id></dtml-tree>',
     '<dtml-tree root branches_expr="kids[:2]" reverse><dtml-var id>/<dtml-var tree-level></dtml-tree>',
     ['root', 'URL', 'RESPONSE', 'tree-e', 'expand_all'], None, 0),
    # expressions that mention names some namespaces do not define (short-circuited, tested with has_key, or a
    # caught NameError): what one render lacked must not be remembered by the compiled expression
    ('expr_optional', 'HTML',
     '<dtml-var "x or other">|<dtml-var "_.has_key(\'other\') and other or \'no\'">|<dtml-if "z and opt">ZO<dtml-else>nzo</dtml-if>',
     '<dtml-let v="nul or opt"><dtml-var v missing=none null=nil></dtml-let>|<dtml-in "maybe or other"><dtml-var sequence-item></dtml-in>',
     ['x', 'z', 'nul', 'other', 'opt', 'maybe'], None, 0),
    ('expr_nameerror', 'HTML',
     '<dtml-try><dtml-var "opt.upper()"><dtml-except NameError>NE</dtml-try>|<dtml-var "flag + 1">',
     '<dtml-try><dtml-if "other"><dtml-var other><dtml-else>empty</dtml-if><dtml-except>undefined</dtml-try>',
     ['opt', 'flag', 'other'], None, 0),
    # renders that FAIL part-way through a loop (the 3rd, the 5th or no element, depending on the namespace): what
    # an aborted rendering has already produced must not show up in the next one
    ('in_fault_midway', 'HTML',
     'A<dtml-in nums>[<dtml-var sequence-item>:<dtml-var "10 / (_[\'sequence-item\'] - 9)">]</dtml-in>B',
     'A<dtml-in words>(<dtml-var sequence-item>)<dtml-if "_[\'sequence-item\'] == \'cherry\'"><dtml-raise ValueError>no cherries</dtml-raise></dtml-if></dtml-in>B'
     '<dtml-in nums size=3>[<dtml-var sequence-item>:<dtml-var "10 / (_[\'sequence-item\'] - 7)">]</dtml-in>C',
     ['nums', 'words'], None, 0),
    ('in_fault_caught', 'HTML',
     '<dtml-in maybe><dtml-try><dtml-in nums>[<dtml-var sequence-item>:<dtml-var "10 / (_[\'sequence-item\'] - 9)">]</dtml-in><dtml-except>!</dtml-try>;</dtml-in>'
     '<dtml-in nums>(<dtml-var sequence-item>)</dtml-in>',
     '<dtml-try><dtml-in seq mapping><dtml-var c>/<dtml-var "10 / (n - 2)">,</dtml-in><dtml-except ZeroDivisionError>div0</dtml-try>'
     '|<dtml-in seq mapping><dtml-var c>.</dtml-in>',
     ['nums', 'maybe', 'seq'], None, 0),
    ('guarded_expr_optional', 'GuardedHTML',
     '<dtml-var "x or other">|<dtml-if "z and opt">ZO<dtml-else>nzo</dtml-if>',
     '<dtml-let v="nul or opt"><dtml-var v missing=none null=nil></dtml-let>',
     ['x', 'z', 'nul', 'other', 'opt'], None, 0),
    # byte strings in the template's (default) encoding, joined with text and html-quoted: a restored or copied
    # template must decode them exactly as a new one does
    ('bytes_values', 'HTML',
     '<dtml-var bs>, welcome &dtml-bs;|<dtml-var bs html_quote>|<dtml-in nums><dtml-var bs>;</dtml-in>',
     '<dtml-with d mapping>[<dtml-var bs>]</dtml-with><dtml-let z=x>(<dtml-var bs upper>)</dtml-let>'
     '<dtml-try><dtml-var opt><dtml-except>{<dtml-var bs>}</dtml-try>',
     ['bs', 'nums', 'd', 'x', 'opt'], None, 0),
    ('bytes_values_epfs', 'String', '%(bs)s, welcome %(bs html_quote)s|%(in nums)[%(bs)s;%(in nums)]', 'x %(bs)s y',
     ['bs', 'nums'], None, 0),
    # OPTION VALUES THAT NAME NAMESPACE ENTRIES: the option text is constant, what the name is bound to is not
    ('in_sort_func', 'HTML',
     '<dtml-in seq mapping sort="c/cmpf">' + ROW + '</dtml-in>|<dtml-in words sort="/cmpf"><dtml-var sequence-item> </dtml-in>',
     '<dtml-in objs sort="b/cmpf/desc,a/cmpg" size=3>' + ROW + '</dtml-in>|<dtml-in seq mapping sort="g/cmpg,b/cmpf/desc,a/nocase"><dtml-var c> </dtml-in>',
     ['seq', 'objs', 'words', 'cmpf', 'cmpg'], None, 0),
    ('in_sort_func_epfs', 'String',
     '%(in seq mapping sort="c/cmpf")[%(c)s %(in seq)]|%(in nums sort="/cmpf/desc")[%(sequence-item)s,%(in nums)]',
     '%(in objs sort="g/nocase,b/cmpf" reverse)[%(b)s %(in objs)]', ['seq', 'objs', 'nums', 'cmpf'], None, 0),
    ('in_query', 'HTML',
     '<dtml-in seq mapping size=2 start=st><dtml-var sequence-query>;</dtml-in>|'
     '<dtml-in seq mapping size=2 start=st previous><dtml-var previous-sequence-start-number>:<dtml-var sequence-query><dtml-else>noprev</dtml-in>',
     '<dtml-in objs size=sz start=st next><dtml-var sequence-query>:<dtml-var next-sequence-start-number><dtml-else>nonext</dtml-in>'
     '|<dtml-in nums size=1 start=sz><dtml-var sequence-query></dtml-in>',
     ['seq', 'objs', 'nums', 'st', 'sz', 'QUERY_STRING'], None, 0),
    ('tree_docs', 'HTML', '<dtml-tree root header=hdr footer=ftr><dtml-var id></dtml-tree>',
     '<dtml-tree root leaves=lv footer=hdr reverse><dtml-var id></dtml-tree>',
     ['root', 'URL', 'RESPONSE', 'tree-e', 'expand_all', 'hdr', 'ftr', 'lv', 'x'], None, 0),
    # one name bound to values of different types from render to render
    ('poly', 'HTML',
     '<dtml-var poly>|<dtml-var poly html_quote>|<dtml-if poly>T<dtml-else>F</dtml-if>|<dtml-in polyseq><dtml-var sequence-item>,</dtml-in>|<dtml-var "poly">',
     '<dtml-in polyseq sort><dtml-var sequence-item>;</dtml-in><dtml-let p=poly><dtml-var p size=4></dtml-let>|<dtml-with polyobj><dtml-var name></dtml-with>',
     ['poly', 'polyseq', 'polyobj'], None, 0),
    # DEFAULTS / VARIABLES OF SPECIAL VALUE TYPES: a restored or copied template must hold the very same kinds of values
    ('defaults_special', 'HTML',
     '<dtml-var ms>|<dtml-var ms upper>|<dtml-var "ms.mark">|<dtml-var rn>|<dtml-var bd>|&dtml-bd;|<dtml-var dfn>|<dtml-var nn null=NIL>|'
     '<dtml-var fl fmt="%.3f">|<dtml-in tp><dtml-var sequence-item null=->,</dtml-in>|<dtml-with dd mapping><dtml-var q upper>/<dtml-var b></dtml-with>|'
     '<dtml-var v1>|<dtml-var "v1.mark">|<dtml-var x>|<dtml-var vb>',
     '<dtml-var "ms.mark + ms">|<dtml-var rn html_quote>|<dtml-var bd upper>|<dtml-var "dfn(1)">|<dtml-var nn>|<dtml-var "_.len(tp)">|'
     '<dtml-var v1 upper>|<dtml-var vb html_quote>|<dtml-let y=x><dtml-var y></dtml-let>',
     ['x', 's'], 'special', 1),
    ('defaults_special_epfs', 'String', '%(ms)s|%(ms upper)s|%(rn)s|%(bd)s|%(dfn)s|%(fl).1f|%(v1)s|%(vb html_quote)s|%(x)s',
     '%(in tp)[%(sequence-item)s.%(in tp)]%(with dd mapping)[%(q)s%(with dd)]%(v1 upper)s', ['x'], 'special', 0),
    ('defaults_tainted', 'HTML',
     '<dtml-var tx>|&dtml-tx;|<dtml-var tx upper>|<dtml-var "tx">|<dtml-var tv>|<dtml-var plain>|<dtml-var x>|<dtml-var v1>|<dtml-var s>',
     '<dtml-var tx size=5>|<dtml-var tx html_quote>|<dtml-let q=tx><dtml-var q></dtml-let>|<dtml-in tl><dtml-var sequence-item>,</dtml-in>|'
     '&dtml.upper-v1;|<dtml-var "v1">|<dtml-var tv url_quote>',
     ['x', 's'], 'tainted', 1),
    ('defaults_tainted_epfs', 'String', '%(tx)s|%(tx html_quote)s|%(tx)8s|%(tv)s|%(v1)s|%(s)s',
     '%(tv upper)s|%(in tl)[%(sequence-item)s;%(in tl)]%(v1 lower)s', ['x', 's'], 'tainted_flat', 0),
    # a template built with a non-default encoding: byte strings are decoded with it, also after a restore
    ('encoding_latin', 'HTML',
     '<dtml-var bl9>|<dtml-var bl9 html_quote>|&dtml-bl9;|<dtml-in nums><dtml-var bl9>;</dtml-in><dtml-var dtext>|<dtml-var dl9>',
     '<dtml-with d mapping>[<dtml-var bl9>]</dtml-with><dtml-let z=x>(<dtml-var dl9 upper>)</dtml-let><dtml-try><dtml-var opt><dtml-except>{<dtml-var bl9>}</dtml-try>',
     ['bl9', 'nums', 'd', 'x', 'opt'], 'latin', 0),
    ('encoding_latin_epfs', 'String', '%(bl9)s|%(bl9 html_quote)s|%(dl9)s|%(in nums)[%(bl9)s;%(in nums)]', 'x %(dl9)s %(bl9)s y',
     ['bl9', 'nums'], 'latin', 0),
    # TWINS: other templates of the same class with the SAME source text (same markers) but another encoding and other
    # defaults, living in the same process; each must render as it does when it is alone in a process (their pristine
    # reference comes from a child interpreter that builds no 'latin' template)
    ('encoding_utf8_twin', 'HTML', None, None, ['bl9', 'nums', 'd', 'x', 'opt'], 'utf8_twin', 0, 'encoding_latin'),
    ('encoding_utf8_twin_epfs', 'String', None, None, ['bl9', 'nums'], 'utf8_twin', 0, 'encoding_latin_epfs'),
    ('skip_unauthorized', 'RefusingHTML',
     '<dtml-tree rootown skip_unauthorized><dtml-var id></dtml-tree>|<dtml-in objs skip_unauthorized><dtml-var c>,</dtml-in>',
     '<dtml-tree rootown skip_unauthorized sort=id reverse><dtml-var id></dtml-tree>|<dtml-in objs skip_unauthorized size=3 start=st><dtml-var c>,</dtml-in>'
     '<dtml-in tup skip_unauthorized reverse><dtml-var c>.</dtml-in>',
     ['rootown', 'objs', 'tup', 'st', 'URL', 'RESPONSE', 'tree-e', 'expand_all'], None, 0),
    ('guarded_expr', 'GuardedHTML', '<dtml-var "obj.name"> <dtml-var "x + 1"><dtml-in objs sort_expr="k"><dtml-var "c"> </dtml-in><dtml-if "x > 2">big</dtml-if>',
     '<dtml-let v="obj.age + x"><dtml-var v></dtml-let><dtml-with "obj.inner"><dtml-var name></dtml-with>',
     ['obj', 'x', 'objs', 'k'], None, 0),
    ('string_syntax', 'String', 'x=%(x)s y=%(y)05d %(in nums)[%(sequence-item)s,%(in nums)]%(if flag)[F%(else)[nf%(if flag)]',
     '%(s)s %(in seq mapping sort=b)[%(c)s;%(in seq)]%(var x)s', ['x', 'y', 'nums', 'flag', 's', 'seq'], None, 0),
    ('old_syntax', 'HTML', '<!--#in nums--><!--#var sequence-item-->,<!--#/in--><!--#if flag-->F<!--#else-->nf<!--#/if-->',
     '<!--#with obj--><!--#var name--><!--#/with-->', ['nums', 'flag', 'obj'], None, 0),
    ('htmlfile', 'HTMLFile', 'file <dtml-var x>: <dtml-in seq mapping sort_expr="k">' + ROW + '</dtml-in><dtml-var dk>',
     'file2 <dtml-var s html_quote> <dtml-in nums reverse><dtml-var sequence-item></dtml-in><dtml-var dm>',
     ['x', 's', 'seq', 'k', 'nums'], 'plain', 0),
    ('file', 'File', 'file %(x)s %(in nums)[%(sequence-item)s.%(in nums)]', 'file2 %(s)s %(y)s', ['x', 'y', 's', 'nums'], None, 0),
]


class Spec:
    def __init__(self, name, cls, src1, src2, keys, defaults, munge_defaults, twin_of=None):
        self.name = name
        self.cls = cls
        self.twin_of = twin_of
        if twin_of:                      # the same source text, marker included, as an earlier catalogue entry
            first = [t for t in _T if t[0] == twin_of][0]
            assert first[1] == cls
            src1, src2 = first[2], first[3]
        self.markers = {1: MK(twin_of or name, 1), 2: MK(twin_of or name, 2)}
        self.src = {0: '', 1: src1 + self.markers[1], 2: src2 + self.markers[2]}      # 0: the empty source
        self.keys = keys
        self.defaults = defaults
        self.munge_defaults = munge_defaults
        self.is_file = cls in ('HTMLFile', 'File')
        self.paths = {}


SPECS = [Spec(*t) for t in _T]
BYNAME = dict((s.name, s) for s in SPECS)
assert len(BYNAME['samelen'].src[1]) == len(BYNAME['samelen'].src[2])


def construct(spec, src_idx, def_idx):
    """A new template object for the current (source, defaults)."""
    cls = CLASSES[spec.cls]
    source = spec.paths[src_idx] if spec.is_file else spec.src[src_idx]
    if spec.defaults:
        mapping, kw = DEFAULTS[spec.defaults](def_idx)
        t = cls(source, mapping, **kw)
        set_vars(t, spec, def_idx)
        return t, mapping
    return cls(source), None


def set_vars(t, spec, def_idx):
    """The variables (var()) that go with defaults set def_idx, for the families that have some."""
    if spec.defaults in VARS:
        t.var(**VARS[spec.defaults](def_idx))


def own_refusal(t, operation):
    """(type name, message) of the exception `operation` raises when applied to one of the template's default /
    variable values ON ITS OWN, or None when every value accepts it.  A template cannot be asked to pickle or
    deep-copy a value that itself refuses to be."""
    for holder in (getattr(t, 'globals', None), getattr(t, '_vars', None)):
        if not isinstance(holder, dict):
            continue
        for k in sorted(holder, key=repr):
            try:
                operation(holder[k])
            except Exception as e:
                return type(e).__name__, str(e)
    return None


# ------------------------------------------------------------------ shared-state write log
class WriteLog:
    """Which attributes of compiled tag objects are assigned while a render is running
    (assignments made while cook() is compiling are not counted).  Diagnosis only."""

    def __init__(self):
        self.rendering = 0
        self.cooking = 0
        self.log = []
        self.total = 0
        self.installed = []

    def install(self):
        from DocumentTemplate import DT_If, DT_In, DT_Let, DT_Raise, DT_Return, DT_String, DT_Try
        from DocumentTemplate import DT_Util, DT_Var, DT_With
        from TreeDisplay import TreeTag
        classes = [DT_In.InClass, DT_Var.Var, DT_Var.Call, DT_Var.Comment, DT_With.With, DT_Let.Let,
                   DT_Try.Try, DT_If.If, DT_If.Unless, DT_If.Else, DT_Raise.Raise,
                   DT_Return.ReturnTag, DT_Util.Eval, TreeTag.Tree]
        me = self

        def make(cls):
            def __setattr__(self, name, value):
                if me.rendering and not me.cooking:
                    me.total += 1
                    if len(me.log) < 200:
                        me.log.append('%s.%s' % (type(self).__name__, name))
                object.__setattr__(self, name, value)
            return __setattr__
        for cls in classes:
            if '__setattr__' in cls.__dict__:
                continue
            cls.__setattr__ = make(cls)
            self.installed.append(cls.__name__)
        real_cook = DT_String.String.cook

        def cook(self):
            me.cooking += 1
            try:
                return real_cook(self)
            finally:
                me.cooking -= 1
        cook.__wrapped__ = real_cook
        DT_String.String.cook = cook
        return real_cook


# ------------------------------------------------------------------ pickle scanner
class RecordingUnpickler(pickle.Unpickler):
    def __init__(self, data):
        pickle.Unpickler.__init__(self, io.BytesIO(data))
        self.classes = []

    def find_class(self, module, name):
        self.classes.append((module, name))
        return pickle.Unpickler.find_class(self, module, name)


def scan_pickle(data, spec, src_idx):
    """Problems found in a template's pickled bytes, and the object loaded from them."""
    problems = []
    up = RecordingUnpickler(data)
    new = up.load()
    for module, name in up.classes:
        root = module.split('.')[0]
        if root in ('DocumentTemplate', 'TreeDisplay', 'RestrictedPython') and \
           module not in TEMPLATE_CLASS_MODULES:
            problems.append('pickle refers to compiled-data class %s.%s' % (module, name))
        elif module in TEMPLATE_CLASS_MODULES and name not in ('HTML', 'String', 'File', 'HTMLFile', 'HTMLDefault'):
            problems.append('pickle refers to non-template class %s.%s' % (module, name))
    if b'_v_' in data:
        problems.append('pickled bytes contain a volatile (_v_) attribute name')
    seen = set()

    def walk(o):
        if id(o) in seen or type(o) in _SCALARS:
            return
        seen.add(id(o))
        if isinstance(o, String):
            for k in o.__dict__:
                if k[:3] == '_v_':
                    problems.append('restored %s carries volatile attribute %s' % (type(o).__name__, k))
        if isinstance(o, dict):
            for v in o.values():
                walk(v)
        elif isinstance(o, (list, tuple)):
            for v in o:
                walk(v)
        elif hasattr(o, '__dict__'):
            walk(o.__dict__)
    walk(new)
    for j in (1, 2):
        n = data.count(spec.markers[j].encode('ascii'))
        if spec.is_file:
            if n:
                problems.append('pickle of a file template contains the content marker of file %d (%d times)' % (j, n))
        else:
            want = 1 if j == src_idx else 0
            if n != want:
                problems.append('pickle contains the source-%d marker %d times, expected %d (current source %d)'
                                % (j, n, want, src_idx))
    if spec.is_file and spec.paths[src_idx].encode('utf-8') not in data:
        problems.append('pickle of a file template does not contain its file name')
    return problems, new


def scan_state(state, new, spec):
    """Problems in the state a template hands out for copying (None: not seen, copy.copy took it) and in the
    copy made from it: no volatile (_v_) entries, and for a file template none of the files' content."""
    problems = []
    if state is not None and not isinstance(state, dict):
        problems.append('__getstate__ returned a %s, not a dict' % type(state).__name__)
        state = None
    for what, d in (('state', state), ('copy', getattr(new, '__dict__', None))):
        if d is None:
            continue
        for k in d:
            if str(k)[:3] == '_v_':
                problems.append('%s made for copying carries the volatile attribute %s' % (what, k))
        if spec.is_file:
            seen = set()
            found = set()

            def walk(o):
                if isinstance(o, (str, bytes)):
                    for j in (1, 2):
                        m = spec.markers[j]
                        if (m if isinstance(o, str) else m.encode('ascii')) in o:
                            found.add(j)
                    return
                if id(o) in seen or type(o) in _SCALARS:
                    return
                seen.add(id(o))
                if isinstance(o, dict):
                    for v in o.values():
                        walk(v)
                elif isinstance(o, (list, tuple)):
                    for v in o:
                        walk(v)
                elif hasattr(o, '__dict__'):
                    walk(o.__dict__)
            walk(d)
            for j in sorted(found):
                problems.append('%s of a file template contains the content marker of file %d' % (what, j))
    return problems


# ------------------------------------------------------------------ pristine reference children
def normal_call(t, world, args):
    """One call of a template, normalised to a comparable tuple."""
    client, mapping, kw = args
    try:
        if mapping is None:
            v = t(client, **kw)
        else:
            v = t(client, mapping, **kw)
    except Exception as e:
        res = ('exc', type(e).__name__, str(e))
    else:
        res = ('ok', type(v).__name__, fingerprint(v)[0])
    cookies = tuple(world.resp.cookies) if world.resp is not None else ()
    return res + (cookies,)


def make_files(tmpdir):
    import os
    for spec in SPECS:
        if spec.is_file:
            for j in (0, 1, 2):
                p = os.path.join(tmpdir, '%s_%d.dtml' % (spec.name, j))
                with open(p, 'w') as f:
                    f.write(spec.src[j])
                spec.paths[j] = p


def reference_table(i, twins=False):
    """Results of every (template, source, defaults) on namespace i, each from a new template, in
    an interpreter that has never rendered anything with another namespace.  The twins (same source text as
    another catalogue entry) are left out, or with twins=True are the only ones built: a reference interpreter
    never holds two templates with the same source."""
    import shutil
    import tempfile
    tmpdir = tempfile.mkdtemp(prefix='c17-ref-')
    table = {}
    try:
        make_files(tmpdir)
        for spec in SPECS:
            if bool(spec.twin_of) != bool(twins):
                continue
            for src_idx in (1, 2):
                for def_idx in ((1, 2) if spec.munge_defaults else (1,)):
                    t, _ = construct(spec, src_idx, def_idx)
                    w = World(spec.keys, False)
                    table['%s|%d|%d|%d' % (spec.name, src_idx, def_idx, i)] = repr(normal_call(t, w, w.apply(i)))
    finally:
        shutil.rmtree(tmpdir, ignore_errors=True)
    return table


if __name__ == '__main__':
    import json
    import sys
    json.dump(reference_table(int(sys.argv[1]), sys.argv[2:3] == ['twins']), sys.stdout)
