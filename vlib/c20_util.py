"""Helpers of check C20 (dtml-tree state): tree recipes, the expanded-set model, an
independent decoder of the cookie/URL form, a page parser and a browser-like session.

Nothing here is copied from TreeDisplay/TreeTag.py.  The model is the statement of the
property: a set of expanded paths; expand adds a path, collapse removes the path and its
extensions, expand_all = every node that has children, collapse_all = nothing.  The decoder
is written from the tpRender docstring ("compressed and base64ed string") only.

Guarded template classes (the documented way to add access control: a subclass that supplies
guarded_getattr / guarded_getitem) and the skip_unauthorized option: when both are present the
children the guard refuses are left out, so "the children" of the statement are the accessible
children; the model tree then simply does not contain the refused nodes (nor anything below).
"""
import base64
import hashlib
import json
import re
import struct
import zlib
from urllib.parse import parse_qsl
from urllib.parse import unquote
from urllib.parse import unquote_plus
from urllib.parse import urlsplit


# ------------------------------------------------------------------ tree shapes
def _forests(m, memo={}):
    """All ordered forests with m nodes; a tree is the tuple of its child trees."""
    if m == 0:
        return [()]
    if m in memo:
        return memo[m]
    out = []
    for k in range(1, m + 1):
        for first in _forests(k - 1):
            for rest in _forests(m - k):
                out.append((first,) + rest)
    memo[m] = out
    return out


def shapes(n):
    """All ordered rooted trees with exactly n nodes (Catalan(n-1) of them)."""
    return list(_forests(n - 1))


def shape_depth(t):
    return 0 if not t else 1 + max(shape_depth(c) for c in t)


def shape_key(t):
    return '(' + ''.join(shape_key(c) for c in t) + ')'


# ------------------------------------------------------------------ id schemes
MIXED = [0, '0', '', 1, '1', ' ', 'x']
UNI = ['\xe4', 'Ωmega', '日本語', '\U0001f600', 'é', '‮abc', '\xdf']
URLISH = ['a b', 'c+d', 'e%2Ff', 'g&h=i', 'j#k', 'l?m', "n'o;p"]
SCHEMES = ('ascii', 'same', 'int', 'mixed', 'long', 'uni', 'urlish', 'oid', 'py')
# "any node ids": the rest of the value space of str -- code points that are legal in a Python
# str but that a serialiser may refuse or rewrite: unpaired surrogates (os.fsdecode() makes them
# from undecodable file names), control characters, separators, non-characters, text that looks
# like an escape sequence.  No < > " [ ] (the page parser needs them, see ASCII_ALPHA) and never
# a high surrogate directly followed by a low one (see has_pair).
SURR = ['\ud800', 'file\udcff.txt', '\udc00\ud800', '\udbff\udbff', 'a\ud83d', '\ude00b',
        '\U0001f600\ud83d']
CTRL = ['\x00', 'a\nb\r\n', '\t\x0b\x0c', '\x7f\x80\x9f', '\u2028\u2029\x85',
        '\ufeff\ufffe\uffff\U0010ffff', "\\b'\\u0041\\ud800\\"]
SCHEMES_WILD = ('surr', 'ctrl')

_PAIR = re.compile('[\ud800-\udbff][\udc00-\udfff]')
_LONE = re.compile('[\ud800-\udfff]')
_CTRL = re.compile('[\x00-\x1f\x7f-\x9f\u2028\u2029\ufeff\ufffe\uffff]')


def has_pair(s):
    """A high surrogate directly followed by a low surrogate inside ONE id.  JSON text spells
    that exactly like the astral character the two would form in UTF-16, so it is kept out of
    the general workload and examined by a dedicated probe (checks/c20.py pair_probe)."""
    return isinstance(s, str) and _PAIR.search(s) is not None


def has_lone(s):
    return isinstance(s, str) and _LONE.search(s) is not None


def has_ctrl(s):
    return isinstance(s, str) and _CTRL.search(s) is not None


def ids_of(state):
    """Every id (scalar) of a nested state / path, depth first."""
    if isinstance(state, (list, tuple)):
        for x in state:
            yield from ids_of(x)
    else:
        yield state


def merge_pairs(x):
    """The same value with every adjacent high+low surrogate read as one astral character
    (what UTF-16 and JSON text do); unpaired surrogates stay."""
    if isinstance(x, (list, tuple)):
        return [merge_pairs(y) for y in x]
    if isinstance(x, str) and _PAIR.search(x):
        return x.encode('utf-16-le', 'surrogatepass').decode('utf-16-le', 'surrogatepass')
    return x


def _noise(idx, n):
    out = ''
    i = 0
    while len(out) < n:
        out += base64.b64encode(hashlib.sha256(b'%d/%d' % (idx, i)).digest()).decode('ascii')
        i += 1
    return out[:n].replace('=', '.')


def scheme_id(scheme, idx, k, d):
    """Id recipe of the node with pre-order index idx, sibling position k, depth d."""
    if scheme == 'ascii':
        return ['v', 'n%d' % idx]
    if scheme == 'same':
        return ['v', 'abcdefgh'[k % 8]]
    if scheme == 'int':
        return ['v', k]
    if scheme == 'mixed':
        return ['v', MIXED[k % 7]]
    if scheme == 'long':
        return ['v', 'L%d_' % idx + _noise(idx, 70)]
    if scheme == 'uni':
        return ['v', UNI[k % 7] + ('' if d < 2 else str(d))]
    if scheme == 'urlish':
        return ['v', URLISH[k % 7] + ('/%d' % d)]
    if scheme == 'surr':
        return ['v', SURR[(k + d) % 7] + ('' if d < 2 else str(d))]
    if scheme == 'ctrl':
        return ['v', CTRL[(k + d) % 7] + ('' if d < 2 else str(d))]
    if scheme == 'oid':
        return ['oid', idx + 1]
    if scheme == 'py':
        return ['py']
    raise ValueError(scheme)


def secret_sets(shape):
    """Every set of non-root nodes (pre-order indices) in which no member lies below another
    member: the distinct ways to make parts of the tree inaccessible (what lies below an
    inaccessible node is out of sight anyway).  The empty set comes first."""
    def below(t, idx):
        # (list of sets for the subtree rooted at idx, next free index)
        nxt = idx + 1
        combos = [frozenset()]
        for c in t:
            sub, nxt = below(c, nxt)
            combos = [a | b for a in combos for b in sub]
        return combos + [frozenset([idx])], nxt
    nxt = 1
    combos = [frozenset()]
    for c in shape:
        sub, nxt = below(c, nxt)
        combos = [a | b for a in combos for b in sub]
    return sorted(combos, key=lambda x: (len(x), sorted(x)))


def alternate_secrets(shape):
    """Every second non-root node (pre-order)."""
    n = [0]

    def size(t):
        n[0] += 1
        for c in t:
            size(c)
    size(shape)
    return frozenset(range(2, n[0], 2))


def sprinkle_secrets(spec, rng, p):
    """Mark non-root nodes of a recipe inaccessible with probability p each (in place)."""
    count = 0
    stack = list(spec['ch'] or [])
    while stack:
        node = stack.pop()
        if rng.random() < p:
            node['sec'] = rng.choice([1, 1, 2])
            count += 1
        stack.extend(node['ch'] or [])
    return count


def spec_from_shape(shape, scheme, leafstyle, secrets=()):
    """JSON-able tree recipe: {'t': token index, 'id': recipe, 'ch': None|[...], 'rank': n}
    plus 'sec': 1|2 on the nodes a guard refuses (1: Unauthorized, 2: a subclass of it).

    leafstyle: 'missing' (leaf objects have no branches attribute), 'empty' (the branches
    method returns []), 'mixed' (alternating).
    """
    counter = [0]

    def build(t, k, d):
        idx = counter[0]
        counter[0] += 1
        node = {'t': idx, 'id': scheme_id(scheme, idx, k, d), 'rank': -k}
        if idx in secrets:
            node['sec'] = 1 + idx % 2
        if t:
            node['ch'] = [build(c, i, d + 1) for i, c in enumerate(t)]
        elif d == 0:
            node['ch'] = []
        elif leafstyle == 'empty' or (leafstyle == 'mixed' and idx % 2):
            node['ch'] = []
        else:
            node['ch'] = None
        return node
    return build(shape, 0, 0)


ASCII_ALPHA = ('abcdefghijklmnopqrstuvwxyzABCDEFGHIJKLMNOPQRSTUVWXYZ0123456789'
               " !#$%&'()*+,-./:;=?@\\^_`{|}~")       # no < > " [ ] and no control characters
UNI_RANGES = [(0xa1, 0xff), (0x391, 0x3c9), (0x410, 0x44f), (0x4e00, 0x4eff), (0x1f600, 0x1f64f),
              (0x300, 0x30f), (0x5d0, 0x5ea), (0x20, 0x7e)]


def random_id(rng, style):
    if style == 'int':
        return rng.choice([rng.randint(-5, 5), rng.randint(-10 ** 18, 10 ** 18), rng.randint(0, 99)])
    if style == 'long':
        n = rng.choice([1, 3, 20, 57, 76, 120, 200])
        return ''.join(rng.choice(ASCII_ALPHA) for _ in range(n))
    if style == 'uni':
        n = rng.choice([1, 2, 5, 20, 60])
        out = []
        for _ in range(n):
            lo, hi = rng.choice(UNI_RANGES)
            c = chr(rng.randint(lo, hi))
            if c in '<>"[]':
                c = '_'
            out.append(c)
        return ''.join(out)
    if style == 'short':
        return ''.join(rng.choice('abc') for _ in range(rng.randint(0, 2)))
    if style in ('wild', 'surr', 'ctrl'):
        n = rng.choice([1, 1, 2, 3, 5, 20, 60])
        out = ''
        while len(out) < n:
            if style == 'wild':
                r = rng.random()
                c = chr(rng.randint(0, 0x10ffff) if r < 0.4 else rng.randint(0, 0xffff) if r < 0.7
                        else rng.randint(0xd800, 0xdfff) if r < 0.8 else rng.randint(0, 0xa0))
            elif style == 'surr':
                r = rng.random()
                c = (chr(rng.randint(0xd800, 0xdfff)) if r < 0.5 else rng.choice(ASCII_ALPHA) if r < 0.8
                     else chr(rng.randint(0x10000, 0x10ffff)))
            else:
                c = rng.choice(WILD_CTRL) if rng.random() < 0.6 else rng.choice(ASCII_ALPHA)
            if c in '<>"[]' or has_pair(out[-1:] + c):
                continue
            out += c
        return out
    raise ValueError(style)


WILD_CTRL = (''.join(map(chr, range(0x20))) + ''.join(map(chr, range(0x7f, 0xa1))) +
             '\u2028\u2029\ufeff\ufffe\uffff\ufffd\u200b\u200e\u202e\U0010ffff\U0001fffe\\')
WILD_STYLES = [['wild'], ['surr'], ['ctrl'], ['wild', 'surr', 'ctrl'], ['surr', 'short', 'int'],
               ['wild', 'long', 'uni'], ['ctrl', 'uni']]


def random_spec(rng, nmax=60, pools=None):
    """A random tree recipe with up to nmax nodes, long / non-ASCII / int ids (pools: other
    lists of id styles to choose from, e.g. WILD_STYLES)."""
    n = rng.randint(2, nmax)
    styles = rng.choice(pools or [['long'], ['uni'], ['long', 'uni'], ['long', 'uni', 'int', 'short'],
                                  ['short', 'int'], ['oid'], ['py'], ['uni', 'short']])
    deep = rng.random()
    nodes = [{'t': 0, 'ch': [], 'rank': 0}]
    depth = {0: 0}
    for i in range(1, n):
        if rng.random() < deep:
            lo = max(0, len(nodes) - 3)
            p = rng.randint(lo, len(nodes) - 1)
        else:
            p = rng.randint(0, len(nodes) - 1)
        node = {'t': i, 'ch': None, 'rank': 0}
        depth[i] = depth[p] + 1
        if nodes[p]['ch'] is None:
            nodes[p]['ch'] = []
        nodes[p]['ch'].append(node)
        nodes.append(node)
    leaf_empty = rng.random()
    for node in nodes:
        if node['ch'] is None and rng.random() < leaf_empty:
            node['ch'] = []
        kids = node['ch'] or []
        ranks = list(range(len(kids)))
        rng.shuffle(ranks)
        seen = []
        for k, kid in enumerate(kids):
            kid['rank'] = ranks[k]
            st = rng.choice(styles)
            if st == 'oid':
                kid['id'] = ['oid', kid['t'] + 1]
            elif st == 'py':
                kid['id'] = ['py']
            else:
                for _ in range(50):
                    v = random_id(rng, st)
                    if v not in seen:
                        break
                else:
                    v = 'u%d' % kid['t']
                seen.append(v)
                kid['id'] = ['v', v]
    st = rng.choice(styles)
    nodes[0]['id'] = (['oid', 1] if st == 'oid' else ['py'] if st == 'py'
                      else ['v', random_id(rng, st)])
    return nodes[0]


def spec_size(spec):
    return 1 + sum(spec_size(c) for c in (spec['ch'] or []))


# ------------------------------------------------------------------ variants
URL_DEFAULT = 'http://host.example/folder/index_html'
VARIANTS = {
    'default': {},
    'assume': {'assume': 1},
    'expr-kids-nid': {'how': 'expr', 'branches': 'named', 'idattr': 'nid'},
    'this-brexpr': {'how': 'this', 'branches': 'expr'},
    'reverse': {'reverse': 1},
    'sort': {'sort': 1},
    'sort-reverse-param': {'sort': 1, 'reverse': 1, 'urlparam': 'x=1&y=2'},
    'urlparam': {'urlparam': 'a=b%20c&d=e+f'},
    'prefix': {'prefix': 'tr'},
    'rooturl': {'url': '/'},
    'assume-kids-rev-nid': {'assume': 1, 'branches': 'named', 'reverse': 1, 'idattr': 'nid'},
    'assume-brexpr': {'assume': 1, 'branches': 'expr', 'how': 'expr'},
    'tpurl-noslash': {'tpurl': 1, 'url': 'index_html'},
}


# Guarded template class + skip_unauthorized: the security filter of the tag is ACTIVE (the guard
# refuses the nodes marked 'sec' in the recipe and the tag has to leave them out).
#   guard: None | 'both' (guarded_getattr and guarded_getitem) | 'attr' (guarded_getattr only)
#   skip: 0 | 1 (valueless where the grammar allows it) | 2 (always skip_unauthorized=1)
#   container: what the branches method hands out -- 'copy' (a fresh list per call), 'own' (the
#   object's own list, the same one every time), 'tuple', 'lazy' (a sequence with only __len__ and
#   __getitem__, like Zope's Lazy results)
VARIANTS_GUARD = {
    'g-skip': {'guard': 'both', 'skip': 1},
    'g-skip-this': {'guard': 'both', 'skip': 1, 'how': 'this'},
    'g-skip-sort-rev-own': {'guard': 'both', 'skip': 1, 'sort': 1, 'reverse': 1, 'container': 'own'},
    'g-skip-assume': {'guard': 'both', 'skip': 1, 'assume': 1},
    'g-skip-brexpr-tuple': {'guard': 'both', 'skip': 2, 'how': 'expr', 'branches': 'expr', 'container': 'tuple'},
    'g-skip-kids-nid-rev-lazy': {'guard': 'both', 'skip': 1, 'branches': 'named', 'idattr': 'nid', 'reverse': 1,
                                 'container': 'lazy'},
    'g-skip-prefix-param': {'guard': 'both', 'skip': 2, 'prefix': 'tr', 'urlparam': 'x=1&y=2'},
}
# Option spellings / combinations in which nothing is filtered (the marks of the recipe must not
# matter), other containers, and the decoration options (header / footer / leaves documents).
VARIANTS_OPT = {
    'g-noskip': {'guard': 'both'},                  # guard present, nothing refused (marks not applied)
    'g-attr-skip': {'guard': 'attr', 'skip': 1},    # no guarded_getitem hook: nothing to ask
    'skip-unguarded': {'skip': 1},                  # plain template class: nobody refuses anything
    'name-nowrap': {'how': 'name=', 'nowrap': 1},
    'header-footer': {'header': 1, 'footer': 1},
    'leaves': {'leaves': 1},
    'leaves-footer-sort': {'leaves': 1, 'footer': 1, 'sort': 1},
    'own-reverse': {'container': 'own', 'reverse': 1},
    'own-sort': {'container': 'own', 'sort': 1},
    'tuple-reverse-assume': {'container': 'tuple', 'reverse': 1, 'assume': 1},
    'lazy-sort': {'container': 'lazy', 'sort': 1},
}


def variant(name):
    v = {'name': name, 'how': 'name', 'branches': 'default', 'idattr': 'tpId', 'assume': 0,
         'reverse': 0, 'sort': 0, 'urlparam': None, 'prefix': None, 'url': URL_DEFAULT, 'tpurl': 0,
         'guard': None, 'skip': 0, 'container': 'copy', 'nowrap': 0, 'header': 0, 'footer': 0, 'leaves': 0}
    for table in (VARIANTS, VARIANTS_GUARD, VARIANTS_OPT):
        if name in table:
            v.update(table[name])
            break
    else:
        raise KeyError(name)
    # the filter is active when the guard can refuse items and the tag was told to skip them
    v['filter'] = bool(v['guard'] == 'both' and v['skip'])
    # guard present without skip_unauthorized: a refusal would (rightly) end the request, so the
    # marks of the recipe are not put on the objects at all
    v['strip'] = bool(v['guard'] == 'both' and not v['skip'])
    v['decor'] = bool(v['header'] or v['footer'] or v['leaves'])
    return v


BODY = '[[T<dtml-var tok>]]'


def template_source(v):
    parts = ['<dtml-tree']
    if v['how'] == 'name':
        parts.append('root')
    elif v['how'] == 'name=':
        parts.append('name="root"')
    elif v['how'] == 'expr':
        parts.append('expr="root"')
    if v['branches'] == 'named':
        parts.append('branches=kids')
    elif v['branches'] == 'expr':
        parts.append('branches_expr="kids()"')
    if v['idattr'] != 'tpId':
        parts.append('id=%s' % v['idattr'])
    if v['assume']:
        parts.append('assume_children')
    if v['sort']:
        parts.append('sort=rank')
    if v['reverse']:
        parts.append('reverse')
    if v['urlparam']:
        parts.append('urlparam="%s"' % v['urlparam'])
    if v['prefix']:
        parts.append('prefix=%s' % v['prefix'])
    if v.get('skip'):
        # a valueless first attribute would be read as the name of the root object
        parts.append('skip_unauthorized' if v['skip'] == 1 and len(parts) > 1 else 'skip_unauthorized=1')
    if v.get('nowrap'):
        parts.append('nowrap' if len(parts) > 1 else 'nowrap=1')
    if v.get('header'):
        parts.append('header=hdr')
    if v.get('footer'):
        parts.append('footer=ftr')
    if v.get('leaves'):
        parts.append('leaves=lvs')
    return ' '.join(parts) + '>' + BODY + '</dtml-tree>'


# ------------------------------------------------------------------ objects handed to the engine
class Node:
    """A plain object; the attributes the tree tag reads are set per instance."""

    def __init__(self, tok):
        self.tok = tok


class MNode:
    """Model-side view of a node.  children: the children the model shows (the accessible ones
    when the filter is active); allchildren: every child of the recipe; secret: refused by the
    guard (only set when the filter is active)."""
    __slots__ = ('tok', 'mid', 'children', 'rank', 'obj', 'missing', 'allchildren', 'secret')


class Lazy:
    """A sequence that is not a list: length and integer index only."""

    def __init__(self, objs):
        self._objs = list(objs)

    def __len__(self):
        return len(self._objs)

    def __getitem__(self, i):
        return self._objs[i]


_CLASSES = {}


def template_class(guard):
    """HTML, or a subclass with the security hooks the DocumentTemplate docstring describes."""
    from DocumentTemplate.DT_HTML import HTML
    if not guard:
        return HTML
    if guard in _CLASSES:
        return _CLASSES[guard]
    from zExceptions import Unauthorized

    class Denied(Unauthorized):
        pass

    class GuardedAttr(HTML):
        def guarded_getattr(self, *args):      # ob, name [, default]
            return getattr(*args)

    class GuardedBoth(GuardedAttr):
        def guarded_getitem(self, ob, index):
            item = ob[index]
            sec = getattr(item, 'secret', 0)
            if sec:
                raise (Denied if sec == 2 else Unauthorized)('not allowed')
            return item
    _CLASSES['attr'] = GuardedAttr
    _CLASSES['both'] = GuardedBoth
    return _CLASSES[guard]


DECOR_SOURCE = '<dtml-var standard_html_header>%s<dtml-var standard_html_footer>'
DECOR_MARKS = {'hdr': 'HDR', 'ftr': 'FTR', 'lvs': 'LVS'}
DECOR_ROW = re.compile(r'<tr>(?:<td[^<>]*></td>)+<td[^<>]*>(HDR|FTR|LVS)</td></tr>')


def strip_decor(out):
    """The page without the rows of the header / footer / leaves documents, and their marks."""
    if not isinstance(out, str):
        return out, []
    marks = DECOR_ROW.findall(out)
    return DECOR_ROW.sub('', out), marks


def build(spec, v):
    """Build engine objects and the model tree from a recipe.  Returns (root object, MNode)."""
    branches = 'tpValues' if v['branches'] == 'default' else 'kids'
    force_attr = v['branches'] == 'expr'     # a name lookup would find the parent's method
    filt = v.get('filter', False)
    strip = v.get('strip', False)
    cont = v.get('container', 'copy')

    def make(s):
        ob = Node(s['t'])
        m = MNode()
        m.tok = s['t']
        m.rank = s.get('rank', 0)
        m.obj = ob
        ob.rank = m.rank
        sec = s.get('sec', 0)
        if sec and not strip:
            ob.secret = sec
        m.secret = bool(sec) and filt
        kind = s['id'][0]
        if kind == 'v':
            val = s['id'][1]
            m.mid = val
            if v['idattr'] == 'tpId':
                ob.tpId = (lambda val=val: val)
            else:
                setattr(ob, v['idattr'], val)
        elif kind == 'oid':
            raw = struct.pack('>Q', s['id'][1])
            ob._p_oid = raw
            m.mid = base64.b64encode(raw).decode('ascii')
        else:
            m.mid = id(ob)
        if v['tpurl']:
            ob.tpURL = 'u%d' % s['t']
        ch = s['ch']
        m.missing = ch is None and not force_attr
        kids = [make(c) for c in (ch or [])]
        m.allchildren = [k[1] for k in kids]
        m.children = [k[1] for k in kids if not k[1].secret]
        if not m.missing:
            objs = [k[0] for k in kids]
            if cont == 'own':
                f = (lambda objs=objs: objs)
            elif cont == 'tuple':
                f = (lambda objs=tuple(objs): objs)
            elif cont == 'lazy':
                f = (lambda objs=Lazy(objs): objs)
            else:
                f = (lambda objs=objs: list(objs))
            setattr(ob, branches, f)
        return ob, m
    return make(spec)


# ------------------------------------------------------------------ model
class Model:
    def __init__(self, mroot, v):
        self.root = mroot
        self.v = v
        self.expanded = set()
        self.by_tok = {}
        self.path_of = {}

        def walk(n, path):
            self.by_tok[n.tok] = n
            self.path_of[n.tok] = path
            for c in n.children:
                walk(c, path + (c.mid,))
        walk(mroot, ())

    def order(self, kids):
        kids = list(kids)
        if self.v['sort']:
            kids.sort(key=lambda n: n.rank)
        if self.v['reverse']:
            kids.reverse()
        return kids

    def rows(self):
        out = []

        def walk(n, path):
            for c in self.order(n.children):
                p = path + (c.mid,)
                out.append(c)
                if p in self.expanded and c.children:
                    walk(c, p)
        walk(self.root, ())
        return out

    def internal_paths(self):
        return {p for t, p in self.path_of.items() if p and self.by_tok[t].children}

    def expand(self, path):
        self.expanded.add(path)

    def collapse(self, path):
        n = len(path)
        self.expanded = {q for q in self.expanded if q[:n] != path}

    def has_expanded_descendants(self, path):
        n = len(path)
        return any(len(q) > n and q[:n] == path for q in self.expanded)

    def full(self, path):
        return [self.root.mid] + list(path)


# ------------------------------------------------------------------ independent decoder
B64 = re.compile(r'[A-Za-z0-9+/\-]*={0,2}\Z')


class FormError(Exception):
    pass


def indep_raw(value):
    """Compressed bytes behind an encoded value ('-' stands for '+', padding optional)."""
    if isinstance(value, bytes):
        value = value.decode('ascii')
    if not isinstance(value, str):
        raise FormError('encoded value is %s, not text' % type(value).__name__)
    if not B64.match(value):
        raise FormError('characters outside the base64 alphabet in %r' % value[:60])
    value = value.replace('-', '+')
    value += '=' * (-len(value) % 4)
    try:
        return base64.b64decode(value, validate=True)
    except Exception as e:
        raise FormError('not base64: %s' % e)


def indep_decode(value):
    raw = indep_raw(value)
    try:
        # surrogatepass: a form that writes an unpaired surrogate of an id as its three UTF-8-style
        # bytes is as good as one that writes a JSON escape; what is judged is the decoded state
        text = zlib.decompress(raw).decode('utf-8', 'surrogatepass')
    except Exception as e:
        raise FormError('not a zlib stream of UTF-8 text: %s' % e)
    try:
        return json.loads(text), len(raw)
    except Exception as e:
        raise FormError('not JSON: %s' % e)


def transport_safe(value):
    """The value must come back unchanged from URL query decoding and cookie unquoting."""
    return isinstance(value, str) and unquote_plus(value) == value and unquote(value) == value \
        and not re.search(r'[\s;,"&#?]', value)


def paths_of(state):
    """Set of id paths named by a nested [[id, [children...]], ...] state."""
    out = set()

    def walk(entries, prefix):
        if not isinstance(entries, (list, tuple)):
            raise FormError('state level is %r, not a list' % (entries,))
        for e in entries:
            if not isinstance(e, (list, tuple)) or not 1 <= len(e) <= 2:
                raise FormError('state entry %r is not [id] or [id, children]' % (e,))
            p = prefix + (e[0],)
            out.add(p)
            if len(e) == 2:
                walk(e[1], p)
    walk(state, ())
    return out


def same_ids(a, b):
    """Equality that keeps 1 and '1' apart (types must agree); tuples and lists are alike."""
    la = isinstance(a, (list, tuple))
    lb = isinstance(b, (list, tuple))
    if la or lb:
        return la and lb and len(a) == len(b) and all(same_ids(x, y) for x, y in zip(a, b))
    return type(a) is type(b) and a == b


# ------------------------------------------------------------------ page parser
TOKEN = re.compile(r'\[\[T(\d+)\]\]')
LINK = re.compile(r'<a name="[^"]*" href="([^"]*)">')
HEAD = '<table cellspacing="0">\n'
TAIL = '</table>\n'


class PageError(Exception):
    pass


def parse_page(out):
    """[(token, [(kind, value, form-of-the-link), ...]), ...] in document order."""
    if not isinstance(out, str):
        raise PageError('rendering is %s' % type(out).__name__)
    if not (out.startswith(HEAD) and out.endswith(TAIL)):
        raise PageError('no table frame: %r ... %r' % (out[:40], out[-40:]))
    parts = out[len(HEAD):-len(TAIL)].split('<tr>\n')
    if parts[0] != '':
        raise PageError('text before the first row: %r' % parts[0][:60])
    rows = []
    for chunk in parts[1:]:
        toks = TOKEN.findall(chunk)
        if len(toks) != 1:
            raise PageError('row with %d body renderings: %r' % (len(toks), chunk[:120]))
        links = []
        for href in LINK.findall(chunk):
            u = urlsplit(href)
            form = parse_qsl(u.query, keep_blank_values=True)
            kinds = [(k, val) for k, val in form if k in ('tree-e', 'tree-c')]
            if len(kinds) != 1:
                raise PageError('link with %d tree-e/tree-c parameters: %r' % (len(kinds), href[:160]))
            raw = re.search(r'tree-[ec]=([^&#]*)', href).group(1)
            links.append((kinds[0][0], kinds[0][1], form, raw))
        if chunk.count('<a ') != len(links):
            raise PageError('unparsed anchor in row %r' % chunk[:160])
        rows.append((int(toks[0]), links))
    return rows


class Response:
    def __init__(self):
        self.cookies = []

    def setCookie(self, name, value, **kw):
        self.cookies.append((name, value, kw))
