"""Reach counters: how often the anchor functions of a property were entered.

Uses sys.monitoring local PY_START events on the given code objects only, so code
that is not an anchor runs at full speed.  A deciding monitor whose anchor count is
zero makes the check inconclusive (a renamed/rewired function would otherwise make a
wrapper silently observe nothing).
"""
import sys

TOOL = 4   # a free tool id (0..5); 0-2 are debugger/coverage/profiler by convention


class Reach:
    def __init__(self):
        self.counts = {}
        self._codes = {}
        self._on = False

    def _code_of(self, f):
        f = getattr(f, '__func__', f)
        f = getattr(f, '__wrapped__', f)
        return getattr(f, '__code__', None)

    def watch(self, label, func):
        code = self._code_of(func)
        if code is None or not hasattr(code, 'co_code'):
            self.counts.setdefault(label, -1)   # not watchable
            return
        self.counts.setdefault(label, 0)
        self._codes[code] = label
        if self._on:
            sys.monitoring.set_local_events(TOOL, code, sys.monitoring.events.PY_START)

    def start(self):
        mon = sys.monitoring
        if mon.get_tool(TOOL) is None:
            mon.use_tool_id(TOOL, 'verif-reach')
        mon.register_callback(TOOL, mon.events.PY_START, self._cb)
        for code in self._codes:
            mon.set_local_events(TOOL, code, mon.events.PY_START)
        self._on = True

    def _cb(self, code, offset):
        label = self._codes.get(code)
        if label is not None:
            self.counts[label] += 1

    def stop(self):
        mon = sys.monitoring
        for code in self._codes:
            mon.set_local_events(TOOL, code, 0)
        mon.register_callback(TOOL, mon.events.PY_START, None)
        mon.free_tool_id(TOOL)
        self._on = False

    def report(self, ctx, prefix='reach:'):
        for k, v in self.counts.items():
            ctx.count(prefix + k, max(v, 0))
