"""Child process: runs one shard of one check against the repository's real code."""
import hashlib
import importlib
import json
import os
import random
import sys
import traceback


class Ctx:
    MAX_DETAIL = 40        # violations kept in full per shard
    MAX_SAMPLES = 6

    def __init__(self, spec):
        self.spec = spec
        self.tier = spec.get('tier', 'quick')
        self.seed = int(spec.get('seed', 0))
        self.shard = int(spec.get('shard', 0))
        self.nshards = int(spec.get('nshards', 1))
        self.rng = random.Random(self.seed * 1000003 + self.shard)
        self.evaluations = 0
        self.hashes = set()
        self.counters = {}
        self.tables = {}
        self.violations = []
        self.vcount = {}
        self.samples = []
        self.inconclusives = []

    # -- bookkeeping -----------------------------------------------------
    def count(self, key, n=1):
        self.counters[key] = self.counters.get(key, 0) + n

    def table(self, name, key, n=1):
        t = self.tables.setdefault(name, {})
        key = str(key)
        t[key] = t.get(key, 0) + n

    def case(self, desc, nontrivial=True):
        """One evaluated case; desc is its canonical description (hashable repr)."""
        self.evaluations += 1
        if nontrivial:
            h = hashlib.blake2b(repr(desc).encode('utf-8', 'backslashreplace'),
                                digest_size=7).digest()
            self.hashes.add(int.from_bytes(h, 'big'))

    def sample(self, obj):
        if len(self.samples) < self.MAX_SAMPLES:
            self.samples.append(obj)

    def violation(self, what, case, mech=None, key=None, detail=None):
        k = mech or '__none__'
        self.vcount[k] = self.vcount.get(k, 0) + 1
        per = sum(1 for v in self.violations if (v.get('mech') or '__none__') == k)
        if per < self.MAX_DETAIL:
            self.violations.append({'what': what, 'case': case, 'mech': mech,
                                    'key': key, 'detail': detail})

    def inconclusive(self, reason):
        if reason not in self.inconclusives:
            self.inconclusives.append(reason)

    def result(self):
        return {'evaluations': self.evaluations, 'hashes': sorted(self.hashes),
                'counters': self.counters, 'tables': self.tables,
                'violations': self.violations, 'vcount': self.vcount,
                'samples': self.samples, 'inconclusive': self.inconclusives}


def assert_repo():
    import DocumentTemplate
    repo = os.environ.get('VERIF_REPO', '/repo')
    f = os.path.realpath(DocumentTemplate.__file__)
    want = os.path.realpath(os.path.join(repo, 'src'))
    if not f.startswith(want + os.sep):
        raise SystemExit('DocumentTemplate imported from %s, expected under %s' % (f, want))
    import TreeDisplay
    f = os.path.realpath(TreeDisplay.__file__)
    if not f.startswith(want + os.sep):
        raise SystemExit('TreeDisplay imported from %s, expected under %s' % (f, want))


def main():
    cid, specf, outf = sys.argv[1:4]
    with open(specf) as f:
        spec = json.load(f)
    sys.setrecursionlimit(3000)
    cpu = os.environ.get('VERIF_CPU')
    if cpu:
        try:
            os.sched_setaffinity(0, {int(cpu)})
        except (AttributeError, OSError, ValueError):
            pass
    try:
        # a render that allocates without bound (a non-terminating batch list, say) must end in a MemoryError
        # inside this shard, not in the kernel's OOM killer taking other shards with it
        import resource
        lim = int(float(os.environ.get('VERIF_MEM_GB', '8')) * 2 ** 30)
        resource.setrlimit(resource.RLIMIT_AS, (lim, lim))
    except Exception:
        pass
    assert_repo()
    mod = importlib.import_module('checks.' + cid.lower())
    ctx = Ctx(spec)
    try:
        if 'replay' in spec:
            mod.replay(ctx, spec['replay'])
        else:
            mod.run(ctx, spec)
    except BaseException:
        ctx.inconclusive('harness error in shard %d: %s'
                         % (ctx.shard, traceback.format_exc()[-1200:]))
    tmp = outf + '.tmp'
    with open(tmp, 'w') as f:
        json.dump(ctx.result(), f, default=str)
    os.replace(tmp, outf)


if __name__ == '__main__':
    main()
