"""C09 helpers: abstract conditional cases, their printer, probes and the reference model.

A *case* is a JSON-able dict (so that it can be written into a replay file):

    {'fam':   'chain' | 'unless' | 'call',
     'style': 'dtml' | 'sgml',                  # <dtml-x ..> or <!--#x ..-->
     'outer': None | one of OUTERS,             # what encloses the whole conditional
                                                #   ('twice' = two copies side by side)
     'conds': [cond, ...],                      # 1..n conditions (one for unless / call)
     'bodies': [[ref, ...], ...],               # per condition: references placed in its body
     'else':  None | [ref, ...],                # chain only
     'btypes': [body type per condition],       # optional, default 'full'; see BTYPES
     'etype': body type of the else body,       # optional, default 'full'
     'ename': bool,                             # optional: else spelled <dtml-else NAME> (the
                                                #   documented long form repeating the if argument)
     'endname': bool,                           # optional: end tag repeats the if argument
     'bare':  bool,                             # optional: no literal text around the conditional
     'boom':  bool}                             # optional: probes of the conditions after the
                                                #   first true one are armed to raise

    cond = {'k': kind, 'n': name, 't': truth, 'v': value index, 'a': attribute style}
    ref  = [name, form, [wrapper, ...]]         # re-reference of an evaluated name, nested in wrappers

Condition kinds (what the condition is and how its evaluation becomes observable):

    nc  name bound to a ProbeCallable                       -> event ('call', name)
    nf  name bound to a plain function                       -> event ('call', name)
    nb  name bound to a bound method                         -> event ('call', name)
    nt  name bound to a sub-template that calls probe(name)  -> event ('call', name)
    nm  name bound to a plain value inside a logging mapping -> event ('get', name)
    np  name bound to a plain value                          -> no event (output only)
    un  name that is not defined                             -> no event, counts as false
    ex  expression  probe('name')                            -> event ('call', name)
    ei  expression  _['name'], name bound to a ProbeCallable -> event ('call', name)

The model (`predict`) is written from the DT_If docstring and the property statement:
conditions are evaluated left to right until the first true one; a name that is not
defined is false; a named condition that was evaluated is remembered for the rest of the
conditional (later conditions with the same name and every reference in the chosen body
reuse the value, nothing is evaluated again); unless is the complement of a one-condition
if; call evaluates once and contributes no text.
"""

TRUE = [True, 1, 'x', [0]]
FALSE = [False, 0, '', [], None]

NAMED_DEFINED = ('nc', 'nf', 'nb', 'nt', 'nm', 'np')
NAMED = NAMED_DEFINED + ('un',)
EXPRS = ('ex', 'ei')
KINDS = NAMED + EXPRS
CALL_EVENT = ('nc', 'nf', 'nb', 'nt', 'ex', 'ei')

FORMS = ('var', 'varq', 'ent', 'varm', 'vare', 'vari', 'if', 'elif', 'unless', 'call', 'let')
WRAPPERS = ('in', 'with', 'let', 'if', 'else', 'unless', 'try')
OUTERS = (None, 'in', 'twice', 'with', 'let', 'if', 'try')   # 'twice': the conditional written twice

PRE, POST = '<<', '>>'

# Body types: 'full' = label text + '[' references ']' (no references = text only);
# 'empty' = nothing at all between the tags; 'ws' = white space only; 'refsonly' = only the
# references, no literal text (no references = empty).
BTYPES = ('full', 'empty', 'ws', 'refsonly')
WS = ' \t '     # no newline: blanks + newline right after a block tag are skipped by the parser
                 # by design (skip_eol); that is not this property's business


def value_of(cond):
    """The value a defined condition evaluates to."""
    if cond['k'] == 'un':
        raise ValueError('undefined name has no value')
    if cond['k'] == 'nt':
        return 'x' if cond['t'] else ''
    return (TRUE if cond['t'] else FALSE)[cond['v']]


# ------------------------------------------------------------------ printer
class Syn:
    def __init__(self, style):
        if style not in ('dtml', 'sgml'):
            raise ValueError(style)
        self.dtml = style == 'dtml'

    def open(self, tag, args=''):
        a = (' ' + args) if args else ''
        return ('<dtml-%s%s>' if self.dtml else '<!--#%s%s-->') % (tag, a)

    def close(self, tag, args=''):
        a = (' ' + args) if args else ''
        return ('</dtml-%s%s>' if self.dtml else '<!--#/%s%s-->') % (tag, a)


def cond_args(cond):
    n, a = cond['n'], cond.get('a', 0)
    k = cond['k']
    if k in NAMED:
        return (n, 'name=%s' % n, 'name="%s"' % n)[a % 3]
    if k == 'ex':
        e = "probe('%s')" % n
    elif k == 'ei':
        e = "_['%s']" % n
    else:
        raise ValueError(k)
    return ('"%s"' % e, 'expr="%s"' % e)[a % 2]


def ref_source(syn, ref):
    name, form, wrappers = ref
    o, c = syn.open, syn.close
    if form == 'var':
        s = o('var', name)
    elif form == 'varq':
        s = o('var', name + ' html_quote')
    elif form == 'ent':
        s = '&dtml-%s;' % name
    elif form == 'varm':
        s = o('var', name + ' missing=M')
    elif form == 'vare':
        s = o('var', '"%s"' % name)
    elif form == 'vari':
        s = o('var', '"_[\'%s\']"' % name)
    elif form == 'if':
        s = o('if', name) + 'T' + o('else') + 'F' + c('if')
    elif form == 'elif':
        s = o('if', 'ff') + 'X' + o('elif', name) + 'T' + o('else') + 'F' + c('if')
    elif form == 'unless':
        s = o('unless', name) + 'U' + c('unless')
    elif form == 'call':
        s = o('call', name)
    elif form == 'let':
        s = o('let', 'z=' + name) + o('var', 'z') + c('let')
    else:
        raise ValueError(form)
    s = '(%s:%s)' % (form, s)
    for w in reversed(wrappers):
        s = wrap_source(syn, w, s)
    return s


def wrap_source(syn, w, inner):
    o, c = syn.open, syn.close
    if w == 'in':
        return o('in', 'two') + inner + c('in')
    if w == 'with':
        return o('with', 'wobj') + inner + c('with')
    if w == 'let':
        return o('let', 'q="1"') + inner + c('let')
    if w == 'if':
        return o('if', 'tt') + inner + c('if')
    if w == 'else':
        return o('if', 'ff') + 'NO' + o('else') + inner + c('if')
    if w == 'unless':
        return o('unless', 'ff') + inner + c('unless')
    if w == 'try':
        return o('try') + inner + o('except') + 'EXC' + c('try')
    if w == 'twice':
        return inner + inner
    raise ValueError(w)


def body_source(syn, label, refs, btype='full'):
    if btype == 'empty':
        return ''
    if btype == 'ws':
        return WS
    inner = ''.join(ref_source(syn, r) for r in refs)
    if btype == 'refsonly':
        return inner
    if btype == 'full':
        return label + '[' + inner + ']'
    raise ValueError(btype)


def btype_of(case, i):
    """Body type of body i ('E' = else body)."""
    if i == 'E':
        return case.get('etype') or 'full'
    bt = case.get('btypes')
    return bt[i] if bt else 'full'


def build_source(case):
    syn = Syn(case['style'])
    o, c = syn.open, syn.close
    fam = case['fam']
    conds = case['conds']
    endargs = cond_args(conds[0]) if case.get('endname') else ''
    if fam == 'chain':
        parts = []
        for i, cond in enumerate(conds):
            parts.append(o('if' if i == 0 else 'elif', cond_args(cond)))
            parts.append(body_source(syn, 'B%d' % i, case['bodies'][i], btype_of(case, i)))
        if case.get('else') is not None:
            # the long form repeats the argument of the if tag literally
            parts.append(o('else', cond_args(conds[0]) if case.get('ename') else ''))
            parts.append(body_source(syn, 'E', case['else'], btype_of(case, 'E')))
        parts.append(c('if', endargs))
        inner = ''.join(parts)
    elif fam == 'unless':
        inner = (o('unless', cond_args(conds[0])) +
                 body_source(syn, 'B0', case['bodies'][0], btype_of(case, 0)) +
                 c('unless', endargs))
    elif fam == 'call':
        inner = 'A' + o('call', cond_args(conds[0])) + 'B'
    else:
        raise ValueError(fam)
    outer = case.get('outer')
    if outer:
        inner = wrap_source(syn, outer, inner)
    if case.get('bare'):
        return inner
    return PRE + inner + POST


# ------------------------------------------------------------------ reference model
def text_of(value):
    """Inserted text of a value: its string conversion (none of the values needs escaping)."""
    return str(value)


def ref_model(value, form):
    if form in ('var', 'varq', 'ent', 'varm', 'vare', 'vari', 'let'):
        return text_of(value)
    if form in ('if', 'elif'):
        return 'T' if value else 'F'
    if form == 'unless':
        return '' if value else 'U'
    if form == 'call':
        return ''
    raise ValueError(form)


def wrap_model(w, text):
    if w in ('in', 'twice'):
        return text * 2          # the sequence `two` has two elements / written twice
    if w in ('with', 'let', 'if', 'else', 'unless', 'try'):
        return text
    raise ValueError(w)


def body_model(label, refs, known, btype='full'):
    if btype == 'empty':
        return ''
    if btype == 'ws':
        return WS
    out = [label, '['] if btype == 'full' else []
    for name, form, wrappers in refs:
        if name not in known:
            raise ValueError('generator error: reference to %s which the conditional did not '
                             'evaluate' % name)
        t = '(%s:%s)' % (form, ref_model(known[name], form))
        for w in reversed(wrappers):
            t = wrap_model(w, t)
        out.append(t)
    if btype == 'full':
        out.append(']')
    return ''.join(out)


def eval_cond(cond, known, events):
    """Truth of one reached condition; appends its evaluation event; remembers named values."""
    k, n = cond['k'], cond['n']
    if k == 'un':
        return False
    if k in EXPRS:
        events.append(('call', n))
        return bool(value_of(cond))
    if n in known:                      # evaluated earlier in this conditional: reused
        return bool(known[n])
    if k in CALL_EVENT:
        events.append(('call', n))
    elif k == 'nm':
        events.append(('get', n))
    v = value_of(cond)
    known[n] = v
    return bool(v)


def one_conditional(case, events):
    """(text, index of the body chosen or 'E' or None) of one rendering of the conditional."""
    fam = case['fam']
    conds = case['conds']
    known = {}
    if fam == 'chain':
        for i, cond in enumerate(conds):
            if eval_cond(cond, known, events):
                return body_model('B%d' % i, case['bodies'][i], known, btype_of(case, i)), i
        if case.get('else') is not None:
            return body_model('E', case['else'], known, btype_of(case, 'E')), 'E'
        return '', None
    if fam == 'unless':
        if eval_cond(conds[0], known, events):
            return '', None
        return body_model('B0', case['bodies'][0], known, btype_of(case, 0)), 0
    if fam == 'call':
        eval_cond(conds[0], known, events)
        return 'AB', None
    raise ValueError(fam)


def predict(case):
    """-> (output, ordered event list, chosen branch)."""
    events = []
    text, chosen = one_conditional(case, events)
    outer = case.get('outer')
    if outer in ('in', 'twice'):
        # the second element / the second copy is a new conditional: nothing is remembered
        text2, chosen2 = one_conditional(case, events)
        assert (text2, chosen2) == (text, chosen)
        text = text + text2
    elif outer:
        text = wrap_model(outer, text)
    if case.get('bare'):
        return text, events, chosen
    return PRE + text + POST, events, chosen


# ------------------------------------------------------------------ probes / namespace
class LogMap:
    """Mapping passed as `mapping=`: every successful lookup is an event."""

    def __init__(self, rec, data):
        self.rec = rec
        self.data = data

    def __getitem__(self, key):
        v = self.data[key]              # KeyError for names it does not have
        self.rec.log('get', key)
        return v


class Plain:
    """Object for dtml-with: has no attribute named like a condition."""
    w = 1


class Holder:
    def __init__(self, rec, name, value):
        self.rec, self.name, self.value = rec, name, value

    def method(self):
        self.rec.log('call', self.name)
        return self.value


class Boom(Exception):
    """Raised by a probe that the conditional must not evaluate."""


def armed_names(case, chosen):
    """Probe names of conditions after the chosen branch (case['boom']): arming them to raise
    turns any evaluation after the first true condition into a failed render."""
    if not case.get('boom') or not isinstance(chosen, int):
        return ()
    conds = case['conds']
    early = set(c['n'] for c in conds[:chosen + 1])
    return tuple(sorted(set(c['n'] for c in conds[chosen + 1:]
                            if c['k'] in ('nc', 'ex', 'ei') and c['n'] not in early)))


def make_namespace(case, rec, armed=()):
    """-> (mapping, kw) for template(None, mapping, **kw)."""
    from DocumentTemplate.DT_HTML import HTML
    from vlib.common import ProbeCallable
    values = {}
    logged = {}
    kw = {'two': [7, 8], 'wobj': Plain(), 'tt': True, 'ff': False}

    def probe(label):
        rec.log('call', label)
        if label in armed:
            raise Boom(label)
        return values.get(label)
    kw['probe'] = probe

    for cond in case['conds']:
        k, n = cond['k'], cond['n']
        if k == 'un':
            continue
        v = value_of(cond)
        if n in kw or n in logged:
            continue                    # a repeated name: one binding
        if k in ('nc', 'ei'):
            kw[n] = ProbeCallable(rec, n, result=v, raise_=Boom(n) if n in armed else None)
        elif k == 'nf':
            def f(n=n, v=v):
                rec.log('call', n)
                return v
            kw[n] = f
        elif k == 'nb':
            kw[n] = Holder(rec, n, v).method
        elif k == 'nt':
            kw[n] = HTML('<dtml-call "probe(\'%s\')">%s' % (n, v))
        elif k == 'nm':
            logged[n] = v
        elif k == 'np':
            kw[n] = v
        elif k == 'ex':
            values[n] = v
        else:
            raise ValueError(k)
    return LogMap(rec, logged), kw


def referable(conds, upto):
    """Names the conditional has evaluated (and found defined) once condition `upto` is reached."""
    out = []
    for c in conds[:upto + 1]:
        if c['k'] in NAMED_DEFINED and c['n'] not in out:
            out.append(c['n'])
    return out


def diagnose(case, chosen, exp_ev, got_ev):
    """Human-readable class of a trace difference."""
    conds = case['conds']
    pos = {}
    for i, c in enumerate(conds):
        pos.setdefault(c['n'], i)
    names = []
    for e in exp_ev + got_ev:
        if e not in names:
            names.append(e)
    msgs = []
    for e in names:
        ne, ng = exp_ev.count(e), got_ev.count(e)
        if ng == ne:
            continue
        kind, n = e
        i = pos.get(n)
        if ng > ne and isinstance(chosen, int) and i is not None and i > chosen and ne == 0:
            msgs.append('condition %d (%s) evaluated although condition %d was already true'
                        % (i, n, chosen))
        elif ng > ne:
            msgs.append('%s %s happened %d times, the conditional should evaluate it %d time(s) '
                        'and reuse the value' % (kind, n, ng, ne))
        else:
            msgs.append('%s %s happened %d times, expected %d' % (kind, n, ng, ne))
    if not msgs:
        msgs.append('evaluation order differs')
    return '; '.join(msgs[:3])
