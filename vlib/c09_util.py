"""C09 helpers: abstract conditional cases, their printer, probes and the reference model.

A *case* is a JSON-able dict (so that it can be written into a replay file):

    {'fam':   'chain' | 'unless' | 'call',
     'style': 'dtml' | 'sgml',                  # <dtml-x ..> or <!--#x ..-->
     'outer': None | one of OUTERS,             # what encloses the whole conditional
                                                #   ('twice' = two copies side by side)
     'conds': [cond, ...],                      # 1..n conditions (one for unless / call)
     'bodies': [[ref, ...], ...],               # per condition: references placed in its body
     'else':  None | [ref, ...],                # chain only
     'btypes': [body type per condition],       # optional, default 'full'; see BTYPES
     'etype': body type of the else body,       # optional, default 'full'
     'ename': bool,                             # optional: else spelled <dtml-else NAME> (the
                                                #   documented long form repeating the if argument)
     'endname': bool,                           # optional: end tag repeats the if argument
     'bare':  bool,                             # optional: no literal text around the conditional
     'boom':  bool}                             # optional: probes of the conditions after the
                                                #   first true one are armed to raise

    cond = {'k': kind, 'n': name, 't': truth, 'v': value index, 'a': attribute style}
    ref  = [name, form, [wrapper, ...]]         # re-reference of an evaluated name, nested in wrappers

Condition kinds (what the condition is and how its evaluation becomes observable):

    nc  name bound to a ProbeCallable                       -> event ('call', name)
    nf  name bound to a plain function                       -> event ('call', name)
    nb  name bound to a bound method                         -> event ('call', name)
    nt  name bound to a sub-template that calls probe(name)  -> event ('call', name)
    nm  name bound to a plain value inside a logging mapping -> event ('get', name)
    np  name bound to a plain value                          -> no event (output only)
    un  name that is not defined                             -> no event, counts as false
    ex  expression  probe('name')                            -> event ('call', name)
    ei  expression  _['name'], name bound to a ProbeCallable -> event ('call', name)

A *script* (fam 'script') is a history: several templates compiled in one process, each a
sequence of conditionals (segments = cases as above) over one pool of names, rendered several
times with changing bindings; see the "scripts" section below.  Extra condition kinds that
only scripts use (the binding of the name comes from the round that is rendered):

    nx  name, looked up as a name                   -> event of the round's binding kind
    ev  expression consisting of the bare name      -> no event: an expression denotes the
                                                       object itself, it is not called
    xb  expression  probe(label)  armed to raise    -> event ('call', label), then the raise

The model (`predict`) is written from the DT_If docstring and the property statement:
conditions are evaluated left to right until the first true one; a name that is not
defined is false; a named condition that was evaluated is remembered for the rest of the
conditional (later conditions with the same name and every reference in the chosen body
reuse the value, nothing is evaluated again); unless is the complement of a one-condition
if; call evaluates once and contributes no text.
"""
import collections

TRUE = [True, 1, 'x', [0]]
FALSE = [False, 0, '', [], None]

NAMED_DEFINED = ('nc', 'nf', 'nb', 'nt', 'nm', 'np')
NAMED = NAMED_DEFINED + ('un',)
EXPRS = ('ex', 'ei')
KINDS = NAMED + EXPRS
CALL_EVENT = ('nc', 'nf', 'nb', 'nt', 'ex', 'ei')
NAMED_MODES = NAMED + ('nx',)           # condition kinds spelled as a name

FORMS = ('var', 'varq', 'ent', 'varm', 'vare', 'vari', 'if', 'elif', 'unless', 'call', 'let')
WRAPPERS = ('in', 'with', 'let', 'if', 'else', 'unless', 'try')
OUTERS = (None, 'in', 'twice', 'with', 'let', 'if', 'try')   # 'twice': the conditional written twice

PRE, POST = '<<', '>>'

# Body types: 'full' = label text + '[' references ']' (no references = text only);
# 'empty' = nothing at all between the tags; 'ws' = white space only; 'refsonly' = only the
# references, no literal text (no references = empty).
BTYPES = ('full', 'empty', 'ws', 'refsonly')
WS = ' \t '     # no newline: blanks + newline right after a block tag are skipped by the parser
                 # by design (skip_eol); that is not this property's business


def value_of(cond):
    """The value a defined condition evaluates to."""
    if cond['k'] == 'un':
        raise ValueError('undefined name has no value')
    if cond['k'] == 'nt':
        return 'x' if cond['t'] else ''
    return (TRUE if cond['t'] else FALSE)[cond['v']]


# ------------------------------------------------------------------ printer
class Syn:
    def __init__(self, style):
        if style not in ('dtml', 'sgml'):
            raise ValueError(style)
        self.dtml = style == 'dtml'

    def open(self, tag, args=''):
        a = (' ' + args) if args else ''
        return ('<dtml-%s%s>' if self.dtml else '<!--#%s%s-->') % (tag, a)

    def close(self, tag, args=''):
        a = (' ' + args) if args else ''
        return ('</dtml-%s%s>' if self.dtml else '<!--#/%s%s-->') % (tag, a)


def cond_args(cond):
    n, a = cond['n'], cond.get('a', 0)
    k = cond['k']
    if k in NAMED_MODES:
        return (n, 'name=%s' % n, 'name="%s"' % n)[a % 3]
    if k == 'ev':
        e = n
    elif k in ('ex', 'xb'):
        e = "probe('%s')" % n
    elif k == 'ei':
        e = "_['%s']" % n
    else:
        raise ValueError(k)
    return ('"%s"' % e, 'expr="%s"' % e)[a % 2]


def ref_source(syn, ref):
    name, form, wrappers = ref
    o, c = syn.open, syn.close
    if form == 'var':
        s = o('var', name)
    elif form == 'varq':
        s = o('var', name + ' html_quote')
    elif form == 'ent':
        s = '&dtml-%s;' % name
    elif form == 'varm':
        s = o('var', name + ' missing=M')
    elif form == 'vare':
        s = o('var', '"%s"' % name)
    elif form == 'vari':
        s = o('var', '"_[\'%s\']"' % name)
    elif form == 'if':
        s = o('if', name) + 'T' + o('else') + 'F' + c('if')
    elif form == 'elif':
        s = o('if', 'ff') + 'X' + o('elif', name) + 'T' + o('else') + 'F' + c('if')
    elif form == 'unless':
        s = o('unless', name) + 'U' + c('unless')
    elif form == 'call':
        s = o('call', name)
    elif form == 'let':
        s = o('let', 'z=' + name) + o('var', 'z') + c('let')
    else:
        raise ValueError(form)
    s = '(%s:%s)' % (form, s)
    for w in reversed(wrappers):
        s = wrap_source(syn, w, s)
    return s


def wrap_source(syn, w, inner):
    o, c = syn.open, syn.close
    if w == 'in':
        return o('in', 'two') + inner + c('in')
    if w == 'with':
        return o('with', 'wobj') + inner + c('with')
    if w == 'let':
        return o('let', 'q="1"') + inner + c('let')
    if w == 'if':
        return o('if', 'tt') + inner + c('if')
    if w == 'else':
        return o('if', 'ff') + 'NO' + o('else') + inner + c('if')
    if w == 'unless':
        return o('unless', 'ff') + inner + c('unless')
    if w == 'try':
        return o('try') + inner + o('except') + 'EXC' + c('try')
    if w == 'twice':
        return inner + inner
    raise ValueError(w)


def body_source(syn, label, refs, btype='full'):
    if btype == 'empty':
        return ''
    if btype == 'ws':
        return WS
    inner = ''.join(ref_source(syn, r) for r in refs)
    if btype == 'refsonly':
        return inner
    if btype == 'full':
        return label + '[' + inner + ']'
    raise ValueError(btype)


def btype_of(case, i):
    """Body type of body i ('E' = else body)."""
    if i == 'E':
        return case.get('etype') or 'full'
    bt = case.get('btypes')
    return bt[i] if bt else 'full'


def conditional_source(case):
    """The conditional alone (for case['exc']: with its raising / returning tags)."""
    syn = Syn(case['style'])
    o, c = syn.open, syn.close
    fam = case['fam']
    conds = case['conds']
    endargs = cond_args(conds[0]) if case.get('endname') else ''
    exc = case.get('exc')
    bpre = ''
    if exc == 'body':                           # the first thing any rendered body does is raise
        bpre = o('call', '"probe(\'%s\')"' % case['xl'])
    elif exc == 'ret':                          # ... or end the rendering of the (sub-)template
        bpre = o('return', 'tt')
    if fam == 'chain':
        parts = []
        for i, cond in enumerate(conds):
            parts.append(o('if' if i == 0 else 'elif', cond_args(cond)))
            parts.append(bpre + body_source(syn, 'B%d' % i, case['bodies'][i], btype_of(case, i)))
        if exc == 'cond':                       # a last condition that raises when it is reached
            parts.append(o('elif', cond_args({'k': 'xb', 'n': case['xl'], 'a': len(conds)})) + 'XB')
        if case.get('else') is not None:
            # the long form repeats the argument of the if tag literally
            parts.append(o('else', cond_args(conds[0]) if case.get('ename') else ''))
            parts.append(bpre + body_source(syn, 'E', case['else'], btype_of(case, 'E')))
        parts.append(c('if', endargs))
        return ''.join(parts)
    if fam == 'unless':
        return (o('unless', cond_args(conds[0])) +
                bpre + body_source(syn, 'B0', case['bodies'][0], btype_of(case, 0)) +
                c('unless', endargs))
    if fam == 'call':
        return 'A' + o('call', cond_args(conds[0])) + 'B'
    raise ValueError(fam)


def build_source(case):
    if case.get('ns'):
        return ns_source(case)
    syn = Syn(case['style'])
    o, c = syn.open, syn.close
    exc = case.get('exc')
    if exc == 'ret':
        # the conditional is a sub-template of its own (bound to the name case['xl'], rendered in the
        # caller's namespace); here it is only called
        inner = o('call', case['xl'])
    else:
        inner = conditional_source(case)
        if exc:
            # the conditional is all there is in the try block: nothing is rendered there before the raise
            inner = o('try') + inner + o('except') + 'EXC' + c('try')
    outer = case.get('outer')
    if outer:
        inner = wrap_source(syn, outer, inner)
    if case.get('bare'):
        return inner
    return PRE + inner + POST


# ------------------------------------------------------------------ reference model
def text_of(value):
    """Inserted text of a value: its string conversion (none of the values needs escaping)."""
    return str(value)


def ref_model(value, form):
    if form in ('var', 'varq', 'ent', 'varm', 'vare', 'vari', 'let'):
        return text_of(value)
    if form in ('if', 'elif'):
        return 'T' if value else 'F'
    if form == 'unless':
        return '' if value else 'U'
    if form == 'call':
        return ''
    raise ValueError(form)


def wrap_model(w, text):
    if w in ('in', 'twice'):
        return text * 2          # the sequence `two` has two elements / written twice
    if w in ('with', 'let', 'if', 'else', 'unless', 'try'):
        return text
    raise ValueError(w)


def body_model(label, refs, known, btype='full'):
    if btype == 'empty':
        return ''
    if btype == 'ws':
        return WS
    out = [label, '['] if btype == 'full' else []
    for name, form, wrappers in refs:
        if name not in known:
            raise ValueError('generator error: reference to %s which the conditional did not '
                             'evaluate' % name)
        t = '(%s:%s)' % (form, ref_model(known[name], form))
        for w in reversed(wrappers):
            t = wrap_model(w, t)
        out.append(t)
    if btype == 'full':
        out.append(']')
    return ''.join(out)


def eval_cond(cond, known, events, env=None):
    """Truth of one reached condition; appends its evaluation event; remembers named values.
    env (scripts): the bindings of the round that is rendered, see Env."""
    k, n = cond['k'], cond['n']
    if env is not None:
        return env.eval_cond(cond, known, events)
    if k == 'un':
        return False
    if k in EXPRS:
        events.append(('call', n))
        return bool(value_of(cond))
    if n in known:                      # evaluated earlier in this conditional: reused
        return bool(known[n])
    if k in CALL_EVENT:
        events.append(('call', n))
    elif k == 'nm':
        events.append(('get', n))
    v = value_of(cond)
    known[n] = v
    return bool(v)


class ModelRaise(Exception):
    """The modelled conditional is left by an exception (scripts, case['exc']); args[0] = the
    names it had evaluated and remembered when that happened."""


def one_conditional(case, events, env=None):
    """(text, index of the body chosen or 'E' or None) of one rendering of the conditional."""
    fam = case['fam']
    conds = case['conds']
    known = {}
    exc = case.get('exc')

    def body(label, refs, btype):
        if exc == 'body':
            events.append(('call', case['xl']))
            raise ModelRaise(sorted(known))
        if exc == 'ret':
            raise ModelRaise(sorted(known))
        return body_model(label, refs, known, btype)

    if fam == 'chain':
        for i, cond in enumerate(conds):
            if eval_cond(cond, known, events, env):
                return body('B%d' % i, case['bodies'][i], btype_of(case, i)), i
        if exc == 'cond':
            events.append(('call', case['xl']))
            raise ModelRaise(sorted(known))
        if case.get('else') is not None:
            return body('E', case['else'], btype_of(case, 'E')), 'E'
        return '', None
    if fam == 'unless':
        if eval_cond(conds[0], known, events, env):
            return '', None
        return body('B0', case['bodies'][0], btype_of(case, 0)), 0
    if fam == 'call':
        eval_cond(conds[0], known, events, env)
        return 'AB', None
    raise ValueError(fam)


def predict(case):
    """-> (output, ordered event list, chosen branch)."""
    events = []
    text, chosen = one_conditional(case, events)
    outer = case.get('outer')
    if case.get('ns'):
        # every element of an enclosing dtml-in / every copy is a new conditional in the same namespace;
        # the tags that add sources contribute no text
        first = text
        for _ in range(ns_multiplicity(case) - 1):
            text2, chosen2 = one_conditional(case, events)
            assert (text2, chosen2) == (first, chosen)
            text = text + text2
    elif outer in ('in', 'twice'):
        # the second element / the second copy is a new conditional: nothing is remembered
        text2, chosen2 = one_conditional(case, events)
        assert (text2, chosen2) == (text, chosen)
        text = text + text2
    elif outer:
        text = wrap_model(outer, text)
    if case.get('bare'):
        return text, events, chosen
    return PRE + text + POST, events, chosen


# ------------------------------------------------------------------ probes / namespace
class LogMap:
    """Mapping passed as `mapping=`: every successful lookup is an event."""

    def __init__(self, rec, data):
        self.rec = rec
        self.data = data

    def __getitem__(self, key):
        v = self.data[key]              # KeyError for names it does not have
        self.rec.log('get', key)
        return v


class Plain:
    """Object for dtml-with: has no attribute named like a condition."""
    w = 1


class Holder:
    def __init__(self, rec, name, value):
        self.rec, self.name, self.value = rec, name, value

    def method(self):
        self.rec.log('call', self.name)
        return self.value


class Boom(Exception):
    """Raised by a probe that the conditional must not evaluate."""


def armed_names(case, chosen):
    """Probe names of conditions after the chosen branch (case['boom']): arming them to raise
    turns any evaluation after the first true condition into a failed render."""
    if not case.get('boom') or not isinstance(chosen, int):
        return ()
    conds = case['conds']
    early = set(c['n'] for c in conds[:chosen + 1])
    return tuple(sorted(set(c['n'] for c in conds[chosen + 1:]
                            if c['k'] in ('nc', 'ex', 'ei') and c['n'] not in early)))


def make_namespace(case, rec, armed=()):
    """-> (mapping, kw) for template(None, mapping, **kw)."""
    from DocumentTemplate.DT_HTML import HTML
    from vlib.common import ProbeCallable
    values = {}
    logged = {}
    kw = {'two': [7, 8], 'wobj': Plain(), 'tt': True, 'ff': False}

    def probe(label):
        rec.log('call', label)
        if label in armed:
            raise Boom(label)
        return values.get(label)
    kw['probe'] = probe

    for cond in case['conds']:
        k, n = cond['k'], cond['n']
        if k == 'un':
            continue
        v = value_of(cond)
        if n in kw or n in logged:
            continue                    # a repeated name: one binding
        if k in ('nc', 'ei'):
            kw[n] = ProbeCallable(rec, n, result=v, raise_=Boom(n) if n in armed else None)
        elif k == 'nf':
            def f(n=n, v=v):
                rec.log('call', n)
                return v
            kw[n] = f
        elif k == 'nb':
            kw[n] = Holder(rec, n, v).method
        elif k == 'nt':
            kw[n] = HTML('<dtml-call "probe(\'%s\')">%s' % (n, v))
        elif k == 'nm':
            logged[n] = v
        elif k == 'np':
            kw[n] = v
        elif k == 'ex':
            values[n] = v
        else:
            raise ValueError(k)
    return LogMap(rec, logged), kw


def referable(conds, upto):
    """Names the conditional has evaluated (and found defined) once condition `upto` is reached."""
    out = []
    for c in conds[:upto + 1]:
        if c['k'] in NAMED_DEFINED and c['n'] not in out:
            out.append(c['n'])
    return out


def diagnose(case, chosen, exp_ev, got_ev):
    """Human-readable class of a trace difference."""
    conds = case['conds']
    pos = {}
    for i, c in enumerate(conds):
        pos.setdefault(c['n'], i)
    names = []
    for e in exp_ev + got_ev:
        if e not in names:
            names.append(e)
    msgs = []
    for e in names:
        ne, ng = exp_ev.count(e), got_ev.count(e)
        if ng == ne:
            continue
        kind, n = e
        i = pos.get(n)
        if ng > ne and isinstance(chosen, int) and i is not None and i > chosen and ne == 0:
            msgs.append('condition %d (%s) evaluated although condition %d was already true'
                        % (i, n, chosen))
        elif ng > ne:
            msgs.append('%s %s happened %d times, the conditional should evaluate it %d time(s) '
                        'and reuse the value' % (kind, n, ng, ne))
        else:
            msgs.append('%s %s happened %d times, expected %d' % (kind, n, ng, ne))
    if not msgs:
        msgs.append('evaluation order differs')
    return '; '.join(msgs[:3])


# ------------------------------------------------------------------ scripts (histories)
"""A script is a history in one process:

    {'fam': 'script', 'uid': 's3k17',            # prefix of every name of the script (fresh per script)
     'compile': 'first' | 'lazy',                # all templates compiled before the first render, or each
                                                 #   one right before its first render
     'templates': [[segment, ...], ...],         # a template = its segments' sources one after the other
     'rounds': [{name: {'k': kind, 'vs': [[truth, value index], ...]}, ...}, ...],
     'schedule': [[template index, round index, fresh], ...]}   # the renders, in order; fresh = the
                                                 #   source is compiled again for this render

A segment is a chain / unless / call case (conditions of kind nx / ev / ex / ei) with two extra keys:
'exc': None | 'body' | 'cond' | 'ret' and 'xl' (label of the raising probe): the conditional stands alone
in <dtml-try>...<dtml-except>EXC</dtml-try> and is left by an exception -- raised by the first tag of
whatever body is rendered ('body') or by one more elif condition that is reached when every
condition of the chain is false ('cond').  'ret': the conditional is the whole source of a sub-template
bound to the name 'xl', the segment is <dtml-call xl> (the sub-template is rendered in the caller's
namespace) and the first tag of whatever body is rendered is <dtml-return tt>, which ends the
sub-template.

A round binds every name of the script: kind nc / nf / nb / nt (callables: the i-th evaluation in
one render returns the i-th value of 'vs', the last one repeated -- values with an observable
history), nm / np (plain: the one value of 'vs'), un (not bound), xv (value sequence of the
expression probe(name)).

Model (written from the statement, the DT_If notes and the DocumentTemplate module docstring):
  * every render is judged on its own: nothing is carried over from an earlier render, an earlier
    template or an earlier conditional of the same template -- a named condition that is reached is
    evaluated (event) and its value *then* decides; inside one conditional it is remembered;
  * a conditional that was left by an exception has ended: the next conditional starts afresh;
  * what a condition means depends only on its own spelling: `x` / name=x is the name x ("if an
    inserted value is a function, method, or class ... call the object"), "x" / expr="x" is the
    Python expression x -- the object bound to x, not called, or the remembered value when the
    conditional has already evaluated the name x ("if the value is used inside the tag ... the
    variable is not reevaluated").
"""

SCRIPT_CALLABLE = ('nc', 'nf', 'nb', 'nt')
EV_KINDS = ('np', 'nc', 'nf', 'nb')          # bindings of a name that some "x" expression tests
DEFINED_KINDS = ('nc', 'nf', 'nb', 'nt', 'nm', 'np')
ANY_KINDS = DEFINED_KINDS + ('un',)


def tok_value(kind, tok):
    t, v = tok
    if kind == 'nt':
        return 'x' if t else ''
    return (TRUE if t else FALSE)[v]


class Env:
    """Bindings of one render + how often each callable has been evaluated in it."""

    def __init__(self, bindings):
        self.b = bindings
        self.n = {}
        self.varied = False          # some callable returned a value different from its previous one

    def kind(self, name):
        return self.b[name]['k']

    def take(self, name):
        b = self.b[name]
        vs = b['vs']
        if b['k'] in ('np', 'nm'):
            return tok_value(b['k'], vs[0])
        i = self.n.get(name, 0)
        self.n[name] = i + 1
        v = tok_value(b['k'], vs[min(i, len(vs) - 1)])
        if i and v != tok_value(b['k'], vs[min(i - 1, len(vs) - 1)]):
            self.varied = True
        return v

    def eval_cond(self, cond, known, events):
        k, n = cond['k'], cond['n']
        if k == 'xb':
            events.append(('call', n))
            raise ModelRaise(sorted(known))
        if k in ('ex', 'ei'):
            events.append(('call', n))
            return bool(self.take(n))
        bk = self.kind(n)
        if k == 'ev':
            if n in known:                   # the value the conditional remembers
                return bool(known[n])
            if bk == 'np':
                return bool(self.take(n))
            if bk in ('nc', 'nf', 'nb'):
                return True                  # the object itself (no __bool__ / __len__): true, not called
            raise ValueError('generator error: "%s" over a %s binding' % (n, bk))
        if k == 'nx':
            if bk == 'un':
                return False
            if n in known:
                return bool(known[n])
            if bk in SCRIPT_CALLABLE:
                events.append(('call', n))
            elif bk == 'nm':
                events.append(('get', n))
            v = self.take(n)
            known[n] = v
            return bool(v)
        raise ValueError(k)


def script_referable(conds, upto, safe):
    """Names a body may reference: evaluated as a *name* at or before the branch, bound in every round."""
    out = []
    for c in conds[:upto + 1]:
        if c['k'] == 'nx' and c['n'] in safe and c['n'] not in out:
            out.append(c['n'])
    return out


def segment_model(seg, events, env):
    """-> (text, [chosen branch | 'X' (left by the exception) per rendering], names remembered at a raise)."""
    outer = seg.get('outer')
    texts, chosen, lost = [], [], []
    for _ in range(2 if outer in ('in', 'twice') else 1):
        try:
            t, ch = one_conditional(seg, events, env)
        except ModelRaise as e:
            t, ch = 'EXC', 'X'
            lost += e.args[0]
        if seg.get('exc') == 'ret':
            t = ''                     # whatever the sub-template rendered or returned: call emits nothing
        texts.append(t)
        chosen.append(ch)
    text = ''.join(texts)              # every other enclosing tag renders its content once, unchanged
    if not seg.get('bare'):
        text = PRE + text + POST
    return text, chosen, lost


def script_source(script, ti):
    return ''.join(build_source(seg) for seg in script['templates'][ti])


def predict_script(script):
    """-> one dict per scheduled render: out, events, chosen (per segment), varied, stale_risk."""
    res = []
    for ti, ri, fresh in script['schedule']:
        env = Env(script['rounds'][ri])
        events, parts, chosen = [], [], []
        lost = set()
        after_exc = 0
        for seg in script['templates'][ti]:
            if lost and any(c['k'] in ('nx', 'ev') and c['n'] in lost for c in seg['conds']):
                after_exc += 1         # tests a name that an abandoned conditional had remembered
            t, ch, lo = segment_model(seg, events, env)
            parts.append(t)
            chosen.append(ch)
            lost.update(lo)
        res.append({'out': ''.join(parts), 'events': events, 'chosen': chosen, 'varied': env.varied,
                    'after_exc': after_exc, 'raised': sum(c.count('X') for c in chosen)})
    return res


def script_history(script):
    """Coverage facts about the compile / render history of a script (not part of the oracle)."""
    seen = {}                              # name -> spellings compiled so far in this process
    facts = {'name after expression': 0, 'expression after name': 0, 're-render, other round': 0,
             're-render, same round': 0, 'fresh compile': 0, 'kind changed between renders': 0}

    def compiled(ti):
        for seg in script['templates'][ti]:
            if seg.get('exc') == 'ret':
                continue                   # its conditional is compiled for every render (sub-template)
            for c in seg['conds']:
                if c['k'] in ('nx', 'ev'):
                    s = seen.setdefault(c['n'], set())
                    if c['k'] == 'nx' and 'ev' in s:
                        facts['name after expression'] += 1
                    if c['k'] == 'ev' and 'nx' in s:
                        facts['expression after name'] += 1
                    s.add(c['k'])

    done = set()
    if script['compile'] == 'first':
        for ti in range(len(script['templates'])):
            compiled(ti)
            done.add(ti)
    last = {}
    for ti, ri, fresh in script['schedule']:
        if fresh or ti not in done:
            compiled(ti)
            done.add(ti)
            if fresh:
                facts['fresh compile'] += 1
        elif ti in last:
            facts['re-render, other round' if last[ti] != ri else 're-render, same round'] += 1
            if last[ti] != ri and any(script['rounds'][ri][n]['k'] != b['k']
                                      for n, b in script['rounds'][last[ti]].items()):
                facts['kind changed between renders'] += 1
        last[ti] = ri
    return facts


class Seq:
    """Value sequence of one callable in one render: i-th take -> i-th value, the last one repeated."""

    def __init__(self, values):
        self.values = values
        self.i = 0

    def take(self):
        v = self.values[min(self.i, len(self.values) - 1)]
        self.i += 1
        return v


class SeqProbe:
    def __init__(self, rec, name, seq):
        self.rec, self.name, self.seq = rec, name, seq

    def __call__(self):
        self.rec.log('call', self.name)
        return self.seq.take()

    def method(self):
        self.rec.log('call', self.name)
        return self.seq.take()


def make_script_namespace(script, ri, rec):
    """-> (mapping, kw) for one render of a script template in round ri: fresh objects every time."""
    from DocumentTemplate.DT_HTML import HTML
    kw = {'two': [7, 8], 'wobj': Plain(), 'tt': True, 'ff': False}
    logged = {}
    seqs = {}
    armed = set()
    for t in script['templates']:
        for seg in t:
            if seg.get('exc') == 'ret':
                kw[seg['xl']] = HTML(conditional_source(seg))
            elif seg.get('exc'):
                armed.add(seg['xl'])

    def probe(label):
        rec.log('call', label)
        if label in armed:
            raise Boom(label)
        return seqs[label].take()
    kw['probe'] = probe

    for n, b in script['rounds'][ri].items():
        k = b['k']
        if k == 'un':
            continue
        vals = [tok_value(k, t) for t in b['vs']]
        if k == 'np':
            kw[n] = vals[0]
        elif k == 'nm':
            logged[n] = vals[0]
        elif k == 'nc':
            kw[n] = SeqProbe(rec, n, Seq(vals))
        elif k == 'nf':
            def f(p=SeqProbe(rec, n, Seq(vals))):
                return p()
            kw[n] = f
        elif k == 'nb':
            kw[n] = SeqProbe(rec, n, Seq(vals)).method
        elif k == 'nt':
            seqs[n] = Seq(vals)
            kw[n] = HTML('<dtml-var "probe(\'%s\')">' % n)
        elif k == 'xv':
            seqs[n] = Seq(vals)
        else:
            raise ValueError(k)
    return LogMap(rec, logged), kw


# ------------------------------------------------------------------ namespace sources ('ns' cases)
"""A chain / unless / call case may carry a key 'ns': the conditional is then rendered in a namespace
built from several *sources* of different kinds instead of the one logging mapping + keyword
arguments of the other families.  "A name that is not defined" is a name that no source of the
namespace has; every source says so in its own way (a mapping raises some KeyError, an object some
AttributeError) and the wording of that exception is not the engine's business: the name is undefined
and counts as false.

    'ns': {'g': bool,                       # defaults given when the template is created (keyword arguments)
           'm': None | mapping style,       # the mapping argument of the call
           'c': [object style, ...],        # 0..2 client objects (two: a tuple of clients)
           'ctuple': bool,                  # a single client passed as a 1-tuple
           'v': bool,                       # variables set on the template with .var()
           'k': bool,                       # keyword arguments of the call
           'sub': None | 'plain' | 'defaults',   # the conditional (with its inner tags) is the source of a
                                            #   sub-template (created without / with defaults) which the
                                            #   main template inserts by name: it is rendered in the
                                            #   caller's namespace
           'inner': [[kind, style], ...],   # tags around the conditional that add a source, outermost first
           'place': {name: slot}}           # the source that binds each name; slots: g m c0 c1 v k s i0 i1 ..

Inner tags: with (object), withm (<dtml-with X mapping>), witho / withmo (... only: the namespace inside
consists of that one source), inm / ino (dtml-in over two mappings / two objects: every element is a
source and a new conditional), let, withns (<dtml-with "_.namespace(..)">).

Mapping styles = what the mapping is and what it raises for a key it does not have; object styles =
what the object raises for an attribute it does not have (see key_error / OBJ_CLASSES).  The model does
not look at styles at all.
"""

SUPPORT = ('two', 'wobj', 'tt', 'ff', 'probe')
# real mapping types first, then the lookalikes that differ in their KeyError only
MAP_STYLES = ('dict', 'dictsub', 'chainmap', 'missing', 'key', 'lower', 'msg', 'none', 'pair', 'other',
              'sub', 'tuple')
OBJ_STYLES = ('std', 'name', 'msg', 'none', 'sub')
INNER_KINDS = ('with', 'withm', 'witho', 'withmo', 'inm', 'ino', 'let', 'withns')
INNER_MAPPING = ('withm', 'withmo', 'inm')
INNER_OBJECT = ('with', 'witho', 'ino')
INNER_ONLY = ('witho', 'withmo')
INNER_DOUBLE = ('inm', 'ino')
CALL_SLOTS = ('m', 'c0', 'c1', 'k')          # sources given with the call (they can hold per-render objects)


class OddKeyError(KeyError):
    pass


class OddAttributeError(AttributeError):
    pass


def key_error(style, key):
    """What a mapping of the style raises for a key it does not have."""
    if style == 'lower':
        return KeyError(key.lower())                    # a case-insensitive mapping reports the folded key
    if style == 'msg':
        return KeyError('no such column: %s' % key)
    if style == 'none':
        return KeyError()
    if style == 'pair':
        return KeyError(key, 'is not here')
    if style == 'other':
        return KeyError('row.' + key)                   # a view reporting the key of the mapping behind it
    if style == 'sub':
        return OddKeyError('%r is not defined' % key)
    if style == 'tuple':
        return KeyError((key,))
    return KeyError(key)


class OddMap:
    """A minimal mapping (only __getitem__): lookups of the names in `logged` are evaluation events."""

    def __init__(self, rec, data, style, logged=()):
        self.rec, self.style, self.logged = rec, style, logged
        self.fold = style == 'lower'
        self.data = dict((k.lower(), v) for k, v in data.items()) if self.fold else dict(data)

    def __getitem__(self, key):
        k = key.lower() if self.fold and isinstance(key, str) else key
        if k not in self.data:
            raise key_error(self.style, key)
        if key in self.logged:
            self.rec.log('get', key)
        return self.data[k]


class _Logging:
    _rec = None
    _logged = ()

    def _log(self, key):
        if key in self._logged:
            self._rec.log('get', key)


class LogDict(_Logging, dict):
    def __getitem__(self, key):
        v = dict.__getitem__(self, key)
        self._log(key)
        return v


class LogChain(_Logging, collections.ChainMap):
    def __getitem__(self, key):
        v = collections.ChainMap.__getitem__(self, key)         # KeyError raised by ChainMap.__missing__
        self._log(key)
        return v


class LogUser(_Logging, collections.UserDict):
    def __missing__(self, key):
        raise KeyError('there is no item named %r here' % (key,))

    def __getitem__(self, key):
        v = collections.UserDict.__getitem__(self, key)
        self._log(key)
        return v


def make_map(rec, style, data, logged=()):
    if style == 'dict':
        return dict(data)
    if style == 'dictsub':
        m = LogDict(data)
    elif style == 'chainmap':
        m = LogChain({}, dict(data))
    elif style == 'missing':
        m = LogUser(data)
    elif style in MAP_STYLES:
        return OddMap(rec, data, style, logged)
    else:
        raise ValueError(style)
    m._rec, m._logged = rec, logged
    return m


class ObjStd:
    """No __getattr__: the interpreter's own AttributeError."""


class ObjName:
    def __getattr__(self, name):
        raise AttributeError(name)


class ObjMsg:
    def __getattr__(self, name):
        raise AttributeError('this record has no column called %s, sorry' % name.upper())


class ObjNone:
    def __getattr__(self, name):
        raise AttributeError()


class ObjSub:
    def __getattr__(self, name):
        raise OddAttributeError(len(name))


OBJ_CLASSES = {'std': ObjStd, 'name': ObjName, 'msg': ObjMsg, 'none': ObjNone, 'sub': ObjSub}


def make_obj(style, attrs):
    o = OBJ_CLASSES[style]()
    o.__dict__.update(attrs)
    return o


def ns_slots(ns):
    """Slots of the sources that can bind names, in no particular order."""
    out = []
    if ns.get('g'):
        out.append('g')
    if ns.get('m'):
        out.append('m')
    out += ['c%d' % i for i in range(len(ns.get('c') or ()))]
    if ns.get('v'):
        out.append('v')
    if ns.get('k'):
        out.append('k')
    if ns.get('sub') == 'defaults':
        out.append('s')
    for i, (kind, style) in enumerate(ns.get('inner') or ()):
        if kind in INNER_MAPPING or kind in INNER_OBJECT:
            out.append('i%d' % i)
    return out


def ns_only(ns):
    """Index of the innermost `only` tag or None: inside it the namespace is that source (and deeper ones)."""
    idx = None
    for i, (kind, style) in enumerate(ns.get('inner') or ()):
        if kind in INNER_ONLY:
            idx = i
    return idx


def ns_loggable(ns):
    """Slots whose source can report lookups (mappings that are not an exact dict)."""
    out = []
    if ns.get('m') and ns['m'] != 'dict':
        out.append('m')
    for i, (kind, style) in enumerate(ns.get('inner') or ()):
        if kind in INNER_MAPPING and style != 'dict':
            out.append('i%d' % i)
    return out


def ns_stack(ns):
    """The sources an undefined name of the conditional falls through, outermost first:
    [(slot, 'map' | 'obj' | 'dict', style)] (the conditional's own scratch space is not a source)."""
    st = []
    if ns.get('g'):
        st.append(('g', 'dict', 'dict'))
    if ns.get('m'):
        st.append(('m', 'map', ns['m']))
    for i, s in enumerate(ns.get('c') or ()):
        st.append(('c%d' % i, 'obj', s))
    if ns.get('v'):
        st.append(('v', 'dict', 'dict'))
    if ns.get('k'):
        st.append(('k', 'dict', 'dict'))
    if ns.get('sub') == 'defaults':
        st.append(('s', 'dict', 'dict'))
    for i, (kind, style) in enumerate(ns.get('inner') or ()):
        if kind in INNER_ONLY:
            st = []
        if kind in INNER_MAPPING:
            st.append(('i%d' % i, 'map', style))
        elif kind in INNER_OBJECT:
            st.append(('i%d' % i, 'obj', style))
        elif kind == 'let':
            st.append(('i%d' % i, 'dict', 'dict'))
        elif kind == 'withns':
            st.append(('i%d' % i, 'obj', 'name'))
    return st


def ns_multiplicity(case):
    """How many times the conditional is rendered by one render of the template."""
    m = 2 if case.get('outer') in ('in', 'twice') else 1
    for kind, style in (case.get('ns') or {}).get('inner') or ():
        if kind in INNER_DOUBLE:
            m *= 2
    return m


def ns_plain(case):
    """The same case with every source an ordinary dict / an ordinary object."""
    ns = dict(case['ns'])
    if ns.get('m'):
        ns['m'] = 'dict'
    ns['c'] = ['std' for _ in ns.get('c') or ()]
    ns['inner'] = [[kind, 'dict' if kind in INNER_MAPPING else 'std'] for kind, style in ns.get('inner') or ()]
    return dict(case, ns=ns)


def make_script_call(script, ri, rec):
    """-> (client, mapping, kw) of one render of a script template.  script['nsrc'][ri] (optional) says how
    the bindings of the round reach the template: None = keyword arguments + the logging mapping (as ever);
    ['m', style] = everything in one mapping of that style (the only source of the namespace);
    ['c', style] = the callables and plain values as attributes of a client object of that style;
    ['mk', style] = the mapping argument is of that style (it holds the logged values, if any, and a
    padding item), the other bindings are keyword arguments as before."""
    mapping, kw = make_script_namespace(script, ri, rec)
    how = (script.get('nsrc') or [None] * (ri + 1))[ri]
    if not how:
        return None, mapping, kw
    kind, style = how
    if kind in ('m', 'mk') and style == 'dict' and mapping.data:
        style = 'dictsub'               # logged values need a mapping that can report lookups
    if kind == 'm':
        data = dict(kw)
        data.update(mapping.data)
        return None, make_map(rec, style, data, set(mapping.data)), {}
    if kind == 'c':
        return make_obj(style, kw), mapping, {}
    if kind == 'mk':
        data = dict(mapping.data)
        data['Pad'] = 'p'
        return None, make_map(rec, style, data, set(mapping.data)), kw
    raise ValueError(kind)


def ns_inner_open_close(syn, i, kind):
    o, c = syn.open, syn.close
    if kind == 'with':
        return o('with', 'nw%d' % i), c('with')
    if kind == 'withm':
        return o('with', 'nw%d mapping' % i), c('with')
    if kind == 'witho':
        return o('with', 'nw%d only' % i), c('with')
    if kind == 'withmo':
        return o('with', 'nw%d mapping only' % i), c('with')
    if kind == 'inm':
        return o('in', 'nw%d mapping' % i), c('in')
    if kind == 'ino':
        return o('in', 'nw%d' % i), c('in')
    if kind == 'let':
        return o('let', 'nq%d="1"' % i), c('let')
    if kind == 'withns':
        return o('with', '"_.namespace(nq%d=1)"' % i), c('with')
    raise ValueError(kind)


def ns_inner_source(case):
    """The conditional inside its source-adding tags (the text of the sub-template when there is one)."""
    syn = Syn(case['style'])
    s = conditional_source(case)
    inner = case['ns'].get('inner') or ()
    for i in reversed(range(len(inner))):
        a, b = ns_inner_open_close(syn, i, inner[i][0])
        s = a + s + b
    return s


def ns_source(case):
    syn = Syn(case['style'])
    if case['ns'].get('sub'):
        inner = syn.open('var', 'nsub')
    else:
        inner = ns_inner_source(case)
    if case.get('outer'):
        inner = wrap_source(syn, case['outer'], inner)
    if case.get('bare'):
        return inner
    return PRE + inner + POST


def make_ns_render(case, rec, armed=()):
    """-> (template, client, mapping | None, kw): the compiled template and the arguments of its call."""
    from DocumentTemplate.DT_HTML import HTML
    ns = case['ns']
    place = ns['place']
    lm, vals = make_namespace(case, rec, armed)
    logged = set(lm.data)
    vals.update(lm.data)
    inner = ns.get('inner') or []
    data = dict((s, {'Pad' + s: 'p'}) for s in ns_slots(ns))
    only = ns_only(ns)
    for name, v in vals.items():
        data[place[name]][name] = v
        if only is not None and name in SUPPORT:
            data['i%d' % only][name] = v            # the bodies' wrapper tags need them inside as well
    # the objects of the inner tags, innermost first (an object holds what was put into it before)
    for i in reversed(range(len(inner))):
        kind, style = inner[i]
        slot = 'i%d' % i
        if kind in INNER_MAPPING:
            if kind == 'inm':
                obj = [make_map(rec, style, data[slot], logged) for _ in range(2)]
            else:
                obj = make_map(rec, style, data[slot], logged)
        elif kind in INNER_OBJECT:
            if kind == 'ino':
                obj = [make_obj(style, data[slot]) for _ in range(2)]
            else:
                obj = make_obj(style, data[slot])
        else:
            continue
        host = place['nw%d' % i]
        data[host]['nw%d' % i] = obj
    if ns.get('sub'):
        sub = HTML(ns_inner_source(case), **(data['s'] if ns['sub'] == 'defaults' else {}))
        data[place['nsub']]['nsub'] = sub
    tpl = HTML(ns_source(case), **(data['g'] if ns.get('g') else {}))
    if ns.get('v'):
        tpl.var(**data['v'])
    objs = [make_obj(s, data['c%d' % i]) for i, s in enumerate(ns.get('c') or ())]
    if not objs:
        client = None
    elif len(objs) == 1:
        client = (objs[0],) if ns.get('ctuple') else objs[0]
    else:
        client = tuple(objs)
    mapping = make_map(rec, ns['m'], data['m'], logged) if ns.get('m') else None
    return tpl, client, mapping, (data['k'] if ns.get('k') else {})
