"""C04 helpers: stage monitors on the real dtml-var pipeline, case builder, judge, classifier.

Nothing here models what a modifier *does* to the text.  The oracle only needs the facts the
property statement gives: the templates and option strings never contain '<', '&' or 'amp', the
tainted value contains '<' and no '&'; therefore every raw '<' in the output came from the
tainted value and every '&amp;' in the output is an escape of an escape.
"""
import html
import re
import sys

# the 12 value modifiers, as listed in the "String manipulation" section of the DT_Var docstring
MODS = ('lower', 'upper', 'capitalize', 'spacify', 'thousands_commas', 'html_quote',
        'url_quote', 'url_quote_plus', 'url_unquote', 'url_unquote_plus', 'sql_quote',
        'newline_to_br')
NMASK = 1 << len(MODS)
BIT = {n: 1 << i for i, n in enumerate(MODS)}

# modifiers which, by their documentation, neither remove nor re-code a '<'
KEEPING = frozenset(('lower', 'upper', 'capitalize', 'spacify', 'thousands_commas', 'html_quote',
                     'sql_quote', 'newline_to_br'))

PRE, POST = 'pre~', '~post'          # literal text around the insertion (join path)

PLAIN = 'abcdef'
RICH = ('aB', '_', '1234567', '.5', ' ', '%3C', '+', "'", '\n', 'Zq"')     # '.5': a '.' before the mark (thousands_commas splits there)


def mods_of(mask):
    return [n for n in MODS if mask & BIT[n]]


def mask_of(names):
    m = 0
    for n in names:
        m |= BIT[n]
    return m


def plain_value(pos):
    return PLAIN[:pos] + '<' + PLAIN[pos:]


def rich_value(b):
    return ''.join(RICH[:b]) + '<' + ''.join(RICH[b:])


def strip_br(s):
    # the engine's own break tag; `upper` applied after fmt=multi-line / newline_to_br spells it
    # <BR /> (capitalize and lower leave it lower-case)
    return s.replace('<br />', '').replace('<BR />', '')


def text_of(v):
    """Best-effort text of a pipeline value, for the '<' flags of the trace only."""
    try:
        inner = getattr(v, '_value', v)
        if isinstance(inner, bytes):
            return inner.decode('latin-1')
        if isinstance(inner, str):
            return inner
        return str(inner)
    except Exception:
        return ''


# ------------------------------------------------------------------------------ monitor
class Monitor:
    """Wrappers installed on the real package (and on TaintedString.quoted) by the harness.

    Trace records:
      ('stage', label, in_tainted, out_tainted, raw_lt_in, raw_lt_out, amp_out, lt_ent_out,
       lt_ent_in)
      ('stage-raise', label, in_tainted, exc)
      ('post-fmt-plain', raw_lt)       value not tainted when Var.render reaches the %s step
      ('quote', where)                 TaintedString.quoted(): final | newline_to_br | other:<fn>
      ('untaint', caller)              TaintedString.__untaint__() (simple form)
      ('render-enter', mask) / ('render-exit', typename, tainted) / ('render-raise', exc)
    """

    def __init__(self, ctx):
        self.ctx = ctx
        self.trace = []
        self.masks = set()
        self.installed = False

    def reset(self):
        self.trace = []

    def install(self):
        from AccessControl.tainted import TaintedString
        from DocumentTemplate import DT_Var
        if self.installed:
            return
        self.installed = True
        self.T = T = TaintedString
        mon = self
        ctx = self.ctx
        self.real = {}
        for n, f in DT_Var.modifiers:
            self.real['mod:' + n] = f
        for k, f in DT_Var.special_formats.items():
            self.real['fmt:' + k] = f
        self.real['Var.render'] = DT_Var.Var.render
        self.real['ustr'] = DT_Var.ustr

        self.depth = 0

        def make_stage(label, real):
            def stage(v, *a, **k):
                if mon.depth:
                    # a stage used by another stage (dollars-with-commas -> thousands_commas):
                    # only the outermost one is a pipeline stage
                    return real(v, *a, **k)
                tin = isinstance(v, T)
                tv = text_of(v)
                lin = '<' in strip_br(tv)
                mon.depth += 1
                try:
                    out = real(v, *a, **k)
                except BaseException as e:
                    mon.trace.append(('stage-raise', label, tin, type(e).__name__))
                    ctx.table('stage types', '%s %s -> raise %s'
                              % (label, type(v).__name__, type(e).__name__))
                    raise
                finally:
                    mon.depth -= 1
                tout = isinstance(out, T)
                txt = text_of(out)
                mon.trace.append(('stage', label, tin, tout, lin, '<' in strip_br(txt),
                                  '&amp;' in txt, '&lt;' in txt.lower(), '&lt;' in tv.lower()))
                ctx.table('stage types', '%s %s -> %s'
                          % (label, type(v).__name__, type(out).__name__))
                if tin:
                    ctx.count('stage saw tainted input: ' + label)
                return out
            stage.__name__ = real.__name__       # Var.render tests f.__name__ == 'html_quote'
            stage.__wrapped__ = real
            return stage

        wrapped = {}
        new_mods = []
        for n, f in DT_Var.modifiers:
            if n not in wrapped:
                wrapped[n] = make_stage('mod:' + n, f)
            new_mods.append((n, wrapped[n]))
        DT_Var.modifiers = new_mods
        for k in list(DT_Var.special_formats):
            DT_Var.special_formats[k] = make_stage('fmt:' + k, DT_Var.special_formats[k])
        # the same functions as module globals (a render that calls one of them directly is
        # traced as that modifier stage too)
        for n, wfn in wrapped.items():
            if getattr(DT_Var, n, None) is wfn.__wrapped__:
                setattr(DT_Var, n, wfn)

        # Var.render / Var.__call__ (two names bound to one function in the class body)
        real_render = DT_Var.Var.render
        render_code = real_render.__code__
        n2br_code = self.real['mod:newline_to_br'].__code__

        def render(self, md):
            names = set(getattr(f, '__name__', '?') for f in self.modifiers)
            try:
                mask = mask_of(names)
            except KeyError:
                mask = -1
            mon.masks.add(mask)
            mon.trace.append(('render-enter', mask))
            ctx.count('monitor:Var.render evaluations')
            try:
                r = real_render(self, md)
            except BaseException as e:
                mon.trace.append(('render-raise', type(e).__name__))
                raise
            mon.trace.append(('render-exit', type(r).__name__, isinstance(r, T)))
            return r
        render.__wrapped__ = real_render
        DT_Var.Var.render = render
        DT_Var.Var.__call__ = render

        real_ustr = DT_Var.ustr

        def ustr(v):
            if sys._getframe(1).f_code is render_code:
                mon.trace.append(('post-fmt-plain', '<' in strip_br(text_of(v))))
                ctx.count('monitor:value not tainted at the %s step')
            return real_ustr(v)
        ustr.__wrapped__ = real_ustr
        DT_Var.ustr = ustr

        real_quoted = T.__dict__['quoted']
        real_untaint = T.__dict__['__untaint__']

        def quoted(s):
            code = sys._getframe(1).f_code
            if code is render_code:
                where = 'final'
                ctx.count('monitor:final val.quoted() evaluations')
            elif code is n2br_code:
                where = 'newline_to_br'
                ctx.count('monitor:newline_to_br quoted() evaluations')
            else:
                where = 'other:' + code.co_name
            mon.trace.append(('quote', where))
            return real_quoted(s)

        def untaint(s):
            mon.trace.append(('untaint', sys._getframe(1).f_code.co_name))
            ctx.count('monitor:__untaint__ evaluations (simple form)')
            return real_untaint(s)
        T.quoted = quoted
        T.__untaint__ = untaint

    def watch(self, reach):
        """Anchor functions of the property (the real ones, not the wrappers)."""
        from DocumentTemplate import DT_Util
        from DocumentTemplate import _DocumentTemplate
        reach.watch('Var.render', self.real['Var.render'])
        reach.watch('render_blocks_', _DocumentTemplate.render_blocks_)
        for n in ('thousands_commas', 'url_unquote', 'url_unquote_plus', 'newline_to_br',
                  'sql_quote', 'lower', 'upper', 'capitalize', 'spacify', 'url_quote',
                  'url_quote_plus', 'html_quote'):
            reach.watch(n, self.real['mod:' + n])
        reach.watch('StringFunctionWrapper.__call__', DT_Util.StringFunctionWrapper.__call__)


# ------------------------------------------------------------------------------ cases
# A case is a JSON-able dict:
#   fam, syntax ('dtml'|'comment'|'epfs'|'entity'), mods [names in written order], value,
#   wrap (bool), via ('name' | python expression over x), ctx ('kw'|'mapping'|'client'|
#   'callable'|'taintwrapper'|'in'|'let'| one of STORED_CTXS), guard (bool), and optional fmt, cfmt, size, etc,
#   null, missing, url.
# value sources in which the marked value is kept on a template object (see call_template)
STORED_CTXS = ('default', 'defmap', 'var', 'copied', 'state', 'rendered_then_copied')
DEFAULTS = dict(fam='?', syntax='dtml', mods=(), wrap=False, via='name', ctx='kw', guard=False,
                fmt=None, cfmt=None, size=None, etc=None, null=None, missing=None, url=False)


def norm(case):
    c = dict(DEFAULTS)
    c.update(case)
    c['mods'] = list(c['mods'])
    return c


def desc(c):
    return (c['fam'], c['syntax'], tuple(c['mods']), c['value'], c['wrap'], c['via'], c['ctx'],
            c['guard'], c['fmt'], c['cfmt'], c['size'], c['etc'], c['null'], c['missing'],
            c['url'])


def build_source(c):
    """Source text of the case.  No '<', '&' or 'amp' outside the tag delimiters themselves."""
    name = 'x'
    if c['ctx'] == 'in':
        name = 'sequence-item'
    elif c['ctx'] == 'let':
        name = 'y'
    syntax = c['syntax']
    if syntax == 'entity':
        mods = c['mods']
        if mods == ['html_quote']:
            tag = '&dtml-%s;' % name
        else:
            tag = '&dtml.%s-%s;' % ('.'.join(mods), name)
    else:
        if c['via'] == 'name':
            parts = [name]
        else:
            parts = ['expr="%s"' % c['via']]
        if c['fmt'] is not None:
            parts.append('fmt="%s"' % c['fmt'])
        parts.extend(c['mods'])
        if c['size'] is not None:
            parts.append('size=%d' % c['size'])
        if c['etc'] is not None:
            parts.append('etc="%s"' % c['etc'])
        if c['null'] is not None:
            parts.append('null="%s"' % c['null'])
        if c['missing'] is not None:
            parts.append('missing="%s"' % c['missing'])
        if c['url']:
            parts.append('url')
        args = ' '.join(parts)
        if syntax == 'dtml':
            tag = '<dtml-var %s>' % args
        elif syntax == 'comment':
            tag = '<!--#var %s-->' % args
        elif syntax == 'epfs':
            tag = '%%(%s)%s' % (args, c['cfmt'] or 's')
        else:
            raise ValueError(syntax)
    epfs = syntax == 'epfs'
    if c['ctx'] == 'in':
        tag = ('%(in seq)[' + tag + '%(in)]') if epfs else ('<dtml-in seq>' + tag + '</dtml-in>')
    elif c['ctx'] == 'let':
        tag = ('%(let y=x)[' + tag + '%(let)]') if epfs else ('<dtml-let y=x>' + tag + '</dtml-let>')
    if c['wrap']:
        tag = PRE + tag + POST
    return tag


class Client:
    def __init__(self, **kw):
        self.__dict__.update(kw)


class RequestLike(dict):
    """A mapping whose taintWrapper() hands out the tainted view (like a Zope request)."""

    def __init__(self, plain, tainted):
        dict.__init__(self, plain)
        self._tainted = tainted

    def taintWrapper(self):
        return dict(self._tainted)


_classes = {}


def template_class(c):
    from DocumentTemplate.DT_HTML import HTML
    from DocumentTemplate.DT_String import String
    base = String if c['syntax'] == 'epfs' else HTML
    if not c['guard']:
        return base
    key = base.__name__
    if key not in _classes:
        class Guarded(base):
            # a permissive guard: routes fmt= method access and expressions through the
            # restricted code path without refusing anything
            def guarded_getattr(self, ob, name, *default):
                return getattr(ob, name, *default)

            def guarded_getitem(self, ob, index):
                return ob[index]
        Guarded.__name__ = 'Guarded' + key
        _classes[key] = Guarded
    return _classes[key]


def call_template(tmpl, c, T):
    from DocumentTemplate import DT_Util
    val = T(c['value'])
    extra = {}
    if c['via'] != 'name' and 'S.' in c['via']:
        extra['S'] = DT_Util.StringModuleWrapper()
    kind = c['ctx']
    if kind in ('kw', 'let'):
        return tmpl(x=val, **extra)
    if kind == 'mapping':
        return tmpl(None, {'x': val}, **extra)
    if kind == 'client':
        return tmpl(Client(x=val), **extra)
    if kind == 'callable':
        return tmpl(x=(lambda: val), **extra)
    if kind == 'taintwrapper':
        return tmpl(None, RequestLike({'x': c['value']}, {'x': val}), **extra)
    if kind == 'in':
        return tmpl(seq=[val], **extra)
    if kind in STORED_CTXS:
        # the marked value is stored ON a template (a default given at construction, a variable set with var()) and
        # possibly travels through a copy of that template made from its state; the template is built here, from
        # the same class and source, because the cached one must not keep per-case values
        import copy
        cls = tmpl.__class__
        src = tmpl.read_raw()
        if kind == 'defmap':
            t = cls(src, {'x': val})
        elif kind == 'var':
            t = cls(src)
            t.var(x=val)
        else:
            t = cls(src, x=val)
        if kind == 'copied':
            t = copy.copy(t)
        elif kind == 'state':
            st = t.__getstate__()
            n = cls.__new__(cls)
            if hasattr(n, '__setstate__'):
                n.__setstate__(st)
            else:
                n.__dict__.update(st)
            t = n
        elif kind == 'rendered_then_copied':
            t(**extra)
            t = copy.copy(t)
        return t(**extra)
    raise ValueError(kind)


# Expressions over x, with the rule (written from the TaintedString documentation, no engine or
# AccessControl code is run to decide it) saying whether the result is still a marked value:
# concatenation, repetition and the str-like methods TaintedString wraps keep the mark; an index or
# slice keeps it iff the selected text contains '<'; the `string` module wrapper of DT_Util is
# documented to "deal with TaintedString strings" (result re-marked when it contains '<');
# an explicit conversion (_.str, or a method TaintedString merely forwards) is the template
# author's own unmarking and is not judged.
EXPR_MARKED = {
    'x': lambda v: True,
    "x+'a'": lambda v: True,
    "'a'+x": lambda v: True,
    'x*1': lambda v: True,
    'x.upper()': lambda v: True,
    'x.strip()': lambda v: True,
    "x.replace('a','b')": lambda v: True,
    'x[1:]': lambda v: '<' in v[1:],
    'x[:-1]': lambda v: '<' in v[:-1],
    'x[2:5]': lambda v: '<' in v[2:5],
    'S.capwords(x)': lambda v: True,
    'S.capwords(s=x)': lambda v: True,
    '_.string.capwords(x)': lambda v: True,
    '_.string.upper(x)': lambda v: True,
    'x.casefold()': lambda v: False,
    '_.str(x)': lambda v: False,
}


def expr_result_tainted(c, T):
    if c['via'] == 'name':
        return True
    return bool(EXPR_MARKED[c['via']](c['value']))


# ------------------------------------------------------------------------------ classifier
def passthrough_method(T, name):
    """fmt names a str method that TaintedString does not define itself (served by its
    __getattr__ straight from the underlying str, so the result carries no mark)."""
    if not isinstance(name, str) or name.startswith('_'):
        return False
    if not callable(getattr(str, name, None)):
        return False
    return not any(name in vars(k) for k in T.__mro__ if k is not object)


def classify_leak(c, trace, T):
    """Mechanism key of a raw '<' in the output, from the per-stage trace; None = not a known
    mechanism (the run fails).  The stage named is the FIRST one that turned a marked value, or
    an already escaped one, into an unmarked value carrying a raw '<'."""
    for ev in trace:
        if ev[0] == 'stage':
            _, label, tin, tout, lin, lout = ev[:6]
            if not tout and lout:
                if tin:
                    return 'taint-dropped:' + label
                if not lin:
                    return 'lt-decoded-after-escape:' + label
                break       # the raw '<' was already there, unmarked: lost before any wrapped stage
    # No wrapped stage did it.  fmt=<method>: the value we passed was marked; if afterwards no
    # stage ever saw a marked input and the final quoting never ran, the mark was gone right after
    # the method call -- and that method is one TaintedString serves from the bare str.
    if c['fmt'] is not None and passthrough_method(T, c['fmt']):
        still_marked = any((ev[0] == 'stage' and ev[2]) or (ev[0] == 'stage-raise' and ev[2])
                           or ev == ('quote', 'final') for ev in trace)
        if not still_marked:
            return 'taint-dropped:fmt-method-passthrough'
    return None


def classify_double(c, trace, T):
    """Mechanism key of a second escape: either two named stages (one turned the marked value
    into escaped plain text, a later one escaped again), or -- observed directly -- the text was
    produced by TaintedString.__repr__, which is already quoted (%r / %a conversions, str() of
    a list returned by fmt=split), and was then escaped like any other text."""
    if ('quote', 'other:__repr__') in trace:
        return 'double-escape:tainted-repr'
    escaper = None
    for ev in trace:
        if ev[0] != 'stage':
            continue
        _, label, tin, tout, lin, lout, amp, ltent, ltent_in = ev
        if escaper is None:
            if tin and not tout and ltent and not ltent_in and not lout:
                escaper = label         # marked in, plain out, and this stage wrote the "&lt;"
        elif amp:
            return 'double-escape:%s+%s' % (escaper, label)
    return None


def slug(s):
    return re.sub(r'[^A-Za-z0-9]+', '-', str(s)).strip('-')[:24] or 'none'


def vkey(kind, c):
    pos = c['value'].find('<')
    return '%s_%s_%s_%03x_f-%s_c-%s_v-%s_%s_p%d_s%s_w%d' % (
        kind, c['fam'], c['syntax'], mask_of(set(c['mods'])), slug(c['fmt']), slug(c['cfmt']),
        slug(c['via']), c['ctx'], pos, c['size'], int(bool(c['wrap'])))


# ------------------------------------------------------------------------------ one case
def evaluate(ctx, mon, case, cache=None):
    """Render one case on the real engine and judge it.  Returns a short status string."""
    from DocumentTemplate.DT_Util import ParseError
    T = mon.T
    c = norm(case)
    src = build_source(c)
    cls = template_class(c)
    ck = (cls.__name__, src)
    tmpl = cache.get(ck) if cache is not None else None
    if tmpl is None:
        tmpl = cls(src)
        if cache is not None:
            if len(cache) > 4000:
                cache.clear()
            cache[ck] = tmpl
    fam = c['fam']
    mon.reset()
    ctx.count('renders')
    ctx.count('family %s: cases' % fam)
    ctx.table('family x syntax', '%s %s' % (fam, c['syntax']))
    ctx.table('value source', c['ctx'] + (' guarded' if c['guard'] else ''))
    ctx.table('position of first "<"', c['value'].find('<'))
    try:
        out = call_template(tmpl, c, T)
    except ParseError as e:
        ctx.case(desc(c), False)
        ctx.inconclusive('generator produced a source the engine rejects: %r: %s'
                         % (src, str(e)[:160]))
        return 'parse-error'
    except Exception as e:
        ctx.case(desc(c), False)
        ctx.count('family %s: raised (recorded, not a leak)' % fam)
        where = 'outside stages'
        for ev in mon.trace:
            if ev[0] == 'stage-raise':
                where = ev[1]
        ctx.table('raises', '%s in %s [fmt=%s cfmt=%s via=%s url=%s]'
                  % (type(e).__name__, where, c['fmt'], c['cfmt'], c['via'], c['url']))
        _check_render_exit(ctx, mon, c, src, None)
        _history(ctx, mon, c, src, tmpl, T, ('raise', None))
        return 'raise'
    status = judge(ctx, mon, c, src, out)
    _history(ctx, mon, c, src, tmpl, T, ('ok', out))
    return status


def _history(ctx, mon, c, src, tmpl, T, first):
    """The same template is rendered with the *trusted* text equal to the value (result discarded) and
    once more with the marked value.  A result cached under the value's text (TaintedString hashes and
    compares like its text) would now be served to the marked value; the re-render is judged on its
    own whenever it differs from the first render (which may have raised)."""
    try:
        call_template(tmpl, c, str)
        ctx.count('history: trusted-twin renders')
    except Exception:
        ctx.count('history: trusted-twin renders that raised (ignored)')
    mon.reset()
    try:
        out2 = call_template(tmpl, c, T)
    except Exception:
        ctx.count('history: marked re-render raised')
        _check_render_exit(ctx, mon, c, src, None)
        return
    ctx.count('history: marked re-renders after the trusted twin')
    if first[0] == 'ok' and type(out2) is type(first[1]) and out2 == first[1]:
        return
    ctx.count('history: re-render differs from the first render (judged on its own)')
    c2 = dict(c)
    c2['after_trusted_twin'] = True
    judge(ctx, mon, c2, src, out2)


def _check_render_exit(ctx, mon, c, src, out):
    """Direct observation at the anchor: Var.render must never hand back a marked value."""
    for ev in mon.trace:
        if ev[0] == 'render-exit' and ev[2]:
            ctx.violation('Var.render returned a still-tainted (unescaped) %s for %r' % (ev[1], src),
                          c, mech=None, key=vkey('tainted-return', c),
                          detail={'source': src, 'output': repr(out)[:300], 'trace': mon.trace[-12:]})
            return True
    return False


def judge(ctx, mon, c, src, out):
    T = mon.T
    fam = c['fam']
    trace = mon.trace
    tainted_expr = expr_result_tainted(c, T)
    if tainted_expr is not True:
        # the expression evaluates (outside the engine) to an unmarked value or raises: the
        # statement speaks about marked values only
        ctx.case(desc(c), False)
        ctx.count('family %s: expression result not marked (not judged)' % fam)
        return 'not-judged'
    ctx.case(desc(c), True)
    ctx.count('family %s: outputs judged' % fam)
    ctx.count('oracle:outputs judged')
    if _check_render_exit(ctx, mon, c, src, out):
        return 'violation'
    if isinstance(out, T):
        ctx.violation('template returned an unescaped TaintedString object for %r' % src, c,
                      key=vkey('tainted-out', c), detail={'source': src})
        return 'violation'
    if isinstance(out, bytes):
        out = out.decode('latin-1')
    elif not isinstance(out, str):
        ctx.count('oracle:non-text result (str() judged)')
        out = str(out)
    body = out
    if c['wrap']:
        if not (out.startswith(PRE) and out.endswith(POST)):
            ctx.violation('literal text around the insertion is damaged: %r' % out[:120], c,
                          key=vkey('frame', c), detail={'source': src})
            return 'violation'
        body = out[len(PRE):len(out) - len(POST)]
    br_ok = 'newline_to_br' in c['mods'] or c['fmt'] == 'multi-line'
    o2 = strip_br(body) if br_ok else body
    if c['fmt'] and '<' in c['fmt']:
        # author markup in a C-style format: its literal tags (<q>, </q>, <q/> - the value never contains
        # "q>" or "q/>") may appear raw, at most as often as the format has them; any other "<" is the value's
        for lit in re.findall(r'<[^<>%]*>', c['fmt']):
            o2 = o2.replace(lit, '', c['fmt'].count(lit))
            for m in c['mods']:
                if m in ('upper', 'capitalize', 'lower'):
                    o2 = o2.replace(getattr(lit, m)(), '', 1)
        ctx.count('oracle:outputs judged with author markup in fmt=')
    hq = 'html_quote' in c['mods'] or c['fmt'] == 'html-quote'
    detail = {'source': src, 'value': c['value'], 'output': out[:300],
              'trace': [list(map(str, e)) for e in trace[-14:]]}
    if '<' in o2:
        mech = classify_leak(c, trace, T)
        ctx.count('oracle:raw "<" seen')
        ctx.violation('raw "<" of the tainted value in the output of %r: %r' % (src, out[:120]),
                      c, mech=mech, key=vkey('leak', c), detail=detail)
        return 'violation'
    if '&amp;' in body:
        if hq:
            mech = classify_double(c, trace, T)
            ctx.count('oracle:double escape with html_quote requested')
            ctx.violation('escaped twice although html_quote is requested: %r -> %r'
                          % (src, out[:120]), c, mech=mech, key=vkey('double', c), detail=detail)
            return 'violation'
        ctx.count('observed:double escape without html_quote (statement silent, not demanded)')
        ctx.table('double escape without html_quote', 'fmt=%s cfmt=%s' % (c['fmt'], c['cfmt']))
    # positive form: where nothing requested removes or re-codes characters, every '<' of the
    # value must be present in escaped form (any valid spelling), i.e. exactly once escaped
    if (c['fmt'] is None and c['cfmt'] in (None, 's') and c['size'] is None
            and c['via'] == 'name' and set(c['mods']) <= KEEPING and not c['url']):
        ctx.count('oracle:escaped-form evaluations')
        want = c['value'].count('<')
        got = html.unescape(o2).count('<')
        if got != want:
            ctx.violation('%d "<" of the value but %d escaped "<" in the output of %r: %r'
                          % (want, got, src, out[:120]), c,
                          mech=(classify_double(c, trace, T) if '&amp;' in body else None),
                          key=vkey('form', c), detail=detail)
            return 'violation'
    return 'ok'
