"""Step-controlled deterministic thread scheduler (property C18).

Worker threads run the real package; a ``sys.monitoring`` LINE callback counts, per
worker, the statement-start events in files under the package roots.  Exactly one
worker runs at any time: the controller (the calling thread) hands the baton to a
worker for a number of package-line *steps*; when the budget is used up the worker
parks inside the callback (before executing the next package line) and wakes the
controller.  An execution is therefore a deterministic function of its schedule

    [(worker index, steps | None), ...]      # None = until it finishes or blocks

followed by a drain phase that completes the unfinished workers in index order.

``CoopLock`` replaces ``DT_String.COOKLOCK`` so that a parked lock holder cannot
deadlock the harness: a worker that finds the lock held reports *blocked* and parks;
the controller never resumes it while the lock is held by somebody else.

Granularity is a statement line of package code: races inside one line, and inside
third-party / C code, are invisible (stated limit).
"""
import os
import sys
import threading

TOOL = 3
WATCHDOG = 120.0          # seconds; firing means inconclusive, never a violation


class HarnessStuck(Exception):
    pass


class Worker:
    __slots__ = ('idx', 'thunk', 'go', 'steps', 'budget', 'state', 'result', 'trace',
                 'ident', 'preempted_at', 'thread')

    def __init__(self, idx, thunk):
        self.idx = idx
        self.thunk = thunk
        self.go = threading.Event()
        self.steps = 0
        self.budget = None
        self.state = 'new'
        self.result = None
        self.trace = None
        self.ident = None
        self.preempted_at = []
        self.thread = None


class CoopLock:
    """Scheduler-aware replacement for a module-level threading.Lock used with ``with``."""

    def __init__(self, sched):
        self.sched = sched
        self.owner = None
        self.depth = 0
        self.acquisitions = 0
        self.contended = 0
        self._real = threading.RLock()     # for threads the scheduler does not control

    def __enter__(self):
        w = self.sched.current()
        if w is None:
            self._real.acquire()
            return self
        if self.owner is w:
            self.depth += 1
            return self
        while self.owner is not None:
            self.contended += 1
            self.sched._park(w, 'blocked')
        self.owner = w
        self.depth = 1
        self.acquisitions += 1
        return self

    def __exit__(self, *exc):
        w = self.sched.current()
        if w is None:
            self._real.release()
            return False
        self.depth -= 1
        if self.depth == 0:
            self.owner = None
        return False

    acquire = __enter__

    def release(self):
        self.__exit__()


class Scheduler:
    def __init__(self, roots):
        self.roots = tuple(os.path.realpath(r) + os.sep for r in roots)
        self._infile = {}
        self.by_ident = {}
        self.ctl = threading.Event()
        self.lock = CoopLock(self)
        self.installed = False
        self.line_events = 0
        self.executions = 0

    # ------------------------------------------------------------ instrumentation
    def install(self):
        if self.installed:
            return
        mon = sys.monitoring
        if mon.get_tool(TOOL) is None:
            mon.use_tool_id(TOOL, 'verif-sched')
        mon.register_callback(TOOL, mon.events.LINE, self._on_line)
        mon.set_events(TOOL, mon.events.LINE)
        self.installed = True

    def uninstall(self):
        if not self.installed:
            return
        mon = sys.monitoring
        mon.set_events(TOOL, 0)
        mon.register_callback(TOOL, mon.events.LINE, None)
        mon.free_tool_id(TOOL)
        self.installed = False

    def in_package(self, filename):
        r = self._infile.get(filename)
        if r is None:
            try:
                real = os.path.realpath(filename)
            except Exception:
                real = filename
            r = self._infile[filename] = real.startswith(self.roots)
        return r

    def current(self):
        return self.by_ident.get(threading.get_ident())

    def _on_line(self, code, line):
        if not self.in_package(code.co_filename):
            return sys.monitoring.DISABLE
        w = self.by_ident.get(threading.get_ident())
        if w is None:
            return None
        self.line_events += 1
        # budget n = execute n package lines, then park *before* the next one
        while w.budget is not None and w.budget <= 0:
            w.preempted_at.append((w.steps, os.path.basename(code.co_filename), line))
            self._park(w, 'parked')
        if w.budget is not None:
            w.budget -= 1
        w.steps += 1
        if w.trace is not None:
            w.trace.append((os.path.basename(code.co_filename), line))
        return None

    def _park(self, w, state):
        w.state = state
        self.ctl.set()
        w.go.wait()
        w.go.clear()
        w.state = 'running'

    # ------------------------------------------------------------ one execution
    def _body(self, w):
        self.by_ident[threading.get_ident()] = w
        w.go.wait()
        w.go.clear()
        w.state = 'running'
        try:
            w.result = ('ok', w.thunk())
        except BaseException as e:       # noqa: B902 - results are compared, not hidden
            w.result = ('exc', type(e).__name__, str(e)[:300])
        w.state = 'done'
        self.ctl.set()

    def _resume(self, w, budget):
        """Run worker until it parks, blocks or finishes.  False if it cannot run now."""
        if w.state == 'done':
            return False
        if w.state == 'blocked' and self.lock.owner is not None and self.lock.owner is not w:
            return False
        w.budget = budget
        self.ctl.clear()
        w.go.set()
        if not self.ctl.wait(WATCHDOG):
            raise HarnessStuck('worker %d did not yield within the watchdog' % w.idx)
        return True

    def execute(self, thunks, segments, trace=False):
        """Run thunks under the schedule; returns the Worker objects (results, steps...)."""
        if not self.installed:
            self.install()
        self.executions += 1
        self.by_ident.clear()
        self.lock.owner = None
        self.lock.depth = 0
        workers = [Worker(i, t) for i, t in enumerate(thunks)]
        for w in workers:
            if trace:
                w.trace = []
            w.thread = threading.Thread(target=self._body, args=(w,), daemon=True)
            w.thread.start()
        skipped = 0
        for idx, budget in segments:
            if not self._resume(workers[idx], budget):
                skipped += 1
        # drain: complete everybody, index order, switching away from blocked workers
        guard = 0
        while any(w.state != 'done' for w in workers):
            guard += 1
            if guard > 10 * len(workers) + 50:
                raise HarnessStuck('drain phase makes no progress (deadlock?)')
            progressed = False
            for w in workers:
                if w.state != 'done' and self._resume(w, None):
                    progressed = True
            if not progressed:
                raise HarnessStuck('all unfinished workers are blocked')
        for w in workers:
            w.thread.join(WATCHDOG)
        self.by_ident.clear()
        self.skipped_segments = skipped
        return workers
