"""Shared helpers for check modules (run inside the worker, against the real package)."""
import itertools


def shard_slice(seq_len, shard, nshards):
    """Contiguous index range of this shard."""
    lo = seq_len * shard // nshards
    hi = seq_len * (shard + 1) // nshards
    return lo, hi


def strided(iterable, shard, nshards):
    return itertools.islice(iterable, shard, None, nshards)


class PullBudgetExceeded(Exception):
    pass


class Recorder:
    """Append-only event log shared by all probes of one execution."""

    def __init__(self):
        self.events = []

    def log(self, kind, subject, detail=None):
        self.events.append((kind, subject, detail))

    def calls(self):
        return [s for k, s, d in self.events if k == 'call']

    def clear(self):
        del self.events[:]


class ProbeCallable:
    """Namespace value: calling it is logged; may be armed to raise."""

    def __init__(self, rec, name, result=None, raise_=None):
        self.rec = rec
        self.name = name
        self.result = result
        self.raise_ = raise_

    def __call__(self):
        self.rec.log('call', self.name)
        if self.raise_ is not None:
            raise self.raise_
        return self.result


class ProbeIter:
    """Counting iterator with a logical pull budget (never hangs)."""

    def __init__(self, n=None, budget=None, make=lambda i: i + 1):
        self.n = n
        self.pulls = 0
        self.iters = 0
        self.budget = budget
        self.make = make
        self.stopped = 0

    def __iter__(self):
        self.iters += 1
        return self

    def __next__(self):
        if self.n is not None and self.pulls >= self.n:
            self.stopped += 1
            raise StopIteration
        if self.budget is not None and self.pulls >= self.budget:
            raise PullBudgetExceeded(self.pulls)
        i = self.pulls
        self.pulls += 1
        return self.make(i)


def short(x, n=300):
    s = x if isinstance(x, str) else repr(x)
    return s if len(s) <= n else s[:n] + '...(%d)' % len(s)
