"""C05 instruments: probe objects, the recording guard (both routes) and the object graphs.

Nothing here models the engine.  ``PObj``/``PSeq``/``PMap`` are client data that log every raw
read together with the reading frames; ``World`` is the single ``allowed(obj, name)`` table
consulted by (a) the template-class hooks ``guarded_getattr``/``guarded_getitem`` and (b) an
AccessControl ``SecurityPolicy`` (expression item access, ``_.getattr``, builtin ``getattr``,
guarded iteration and the ``RestrictedDTML`` mix-in all end there).  Every decision is logged.
``source_of`` presents a list of items as each kind of iterable a dtml-in accepts; ``PIter`` /
``PGet`` are the two minimal iterable protocols.
"""
import os
import random
import sys

from zExceptions import Unauthorized

SECRET = 'XSECX'          # marker inside every refused string value
PUBLIC = 'pubv'
HERE = os.path.abspath(__file__)

KINDS = ('pub', 'den', 'prv')
# 'alt': one attribute name whose guard decision alternates per OBJECT (two objects of one class,
# different decisions within one render) and flips between two renders of the same template
ALLKINDS = KINDS + ('alt',)
FAMS = ('cm', 's', 'n', 'r', 'm', 'k', 'l', 'z', 'b')
PATTERNS = ('single', 'first', 'last', 'adjacent', 'all', 'alternating')


def aname(fam, kind):
    """Attribute name of family `fam` for a kind: s_pub / s_den / _s_prv."""
    if kind == 'prv':
        return '_%s_prv' % fam
    return '%s_%s' % (fam, kind)


CM_NAMES = frozenset(aname('cm', k) for k in ALLKINDS)


def deny_indices(pat, n, p):
    """Indices of the refused elements among n siblings for a position pattern (p: seeded index)."""
    p = p % n
    if pat == 'first':
        return [0]
    if pat == 'last':
        return [n - 1]
    if pat == 'adjacent':
        a = p if p + 1 < n else n - 2
        return [max(a, 0), max(a, 0) + 1] if n > 1 else [0]
    if pat == 'all':
        return list(range(n))
    if pat == 'alternating':
        return list(range(p % 2, n, 2))
    return [p]


def name_kind(name):
    if name.startswith('_') and name.endswith('_prv'):
        return 'prv'
    if name.endswith('_den'):
        return 'den'
    if name.endswith('_pub'):
        return 'pub'
    return None


# ------------------------------------------------------------------ the world of one render
class World:
    """Guard table + logs of one render."""

    def __init__(self, cfg):
        self.cfg = cfg                    # 'hook' | 'zope' | 'none'
        self.denied_attrs = set()         # (id(obj), name)
        self.denied_items = set()         # id(obj)
        self.denied_scalars = []          # values of refused mapping items (policy sees values only)
        self.keep = []                    # keeps ids alive
        self.guard_log = []               # (route, typename, name|index|None, allowed)
        self.decided = set()              # (id(obj), name) submitted to the guard
        self.decided_items = set()        # id(value) submitted to the guard as an item
        self.raw_log = []                 # (objid, tag, name, chain) raw attribute reads
        self.seq_log = []                 # (index, element refused?, chain) raw reads of a PSeq element
        self.spy_log = []                 # calls into namespace callables
        self.refused = 0

    # --- the one policy table
    def attr_allowed(self, ob, name):
        if name[:1] == '_':
            return False
        return (id(ob), name) not in self.denied_attrs

    def item_allowed(self, value):
        if isinstance(value, tuple) and len(value) == 2:
            # a (key, value) pair as dtml-in unpacks it: refused when its value is
            value = value[1]
        if id(value) in self.denied_items:
            return False
        if isinstance(value, (str, int, float)) and not isinstance(value, bool):
            for d in self.denied_scalars:
                if type(d) is type(value) and d == value:
                    return False
        return True


CURRENT = [None]


def world():
    return CURRENT[0]


def _chain(depth=2):
    """(file, function) of the frames that performed a read, innermost first (max 4)."""
    out = []
    f = sys._getframe(depth)
    while f is not None and len(out) < 4:
        co = f.f_code
        fn = co.co_filename
        if os.path.abspath(fn) == HERE:
            out.append(('<guard>', co.co_name))
        else:
            out.append((os.path.basename(fn), co.co_name))
        f = f.f_back
    return tuple(out)


class PObj:
    """Client / item object: every read of an instance attribute is logged with its reader."""

    def __init__(self, tag, attrs):
        d = object.__getattribute__(self, '__dict__')
        d.update(attrs)
        d['tag'] = tag

    def __getattribute__(self, name):
        d = object.__getattribute__(self, '__dict__')
        if name in d:
            w = CURRENT[0]
            if w is not None:
                w.raw_log.append((id(self), d.get('tag'), name, _chain()))
            return d[name]
        if name in CM_NAMES:
            w = CURRENT[0]
            if w is not None:
                w.raw_log.append((id(self), d.get('tag'), name, _chain()))
        return object.__getattribute__(self, name)

    # methods DEFINED BY THE CLASS (a per-class cache keyed by (class, name) would confuse objects)
    def cm_pub(self):
        return object.__getattribute__(self, '__dict__')['=cm_pub']

    def cm_den(self):
        return object.__getattribute__(self, '__dict__')['=cm_den']

    def _cm_prv(self):
        return object.__getattribute__(self, '__dict__')['=_cm_prv']

    def cm_alt(self):
        return object.__getattribute__(self, '__dict__')['=cm_alt']

    def __str__(self):
        return 'obj(%s)' % object.__getattribute__(self, '__dict__').get('tag')

    __repr__ = __str__


def pdict(o):
    return object.__getattribute__(o, '__dict__')


class PSeq:
    """Sequence (subscription + len, no mapping methods) logging who reads which index."""

    def __init__(self, data):
        self._d = list(data)

    def __getitem__(self, i):
        w = CURRENT[0]
        v = self._d[i]
        if w is not None and isinstance(i, int):
            w.seq_log.append((i, id(v) in w.denied_items, _chain()))
        return v

    def __len__(self):
        return len(self._d)


class PIter:
    """Iterable only (__iter__, neither subscription nor len)."""

    def __init__(self, data):
        self._d = list(data)

    def __iter__(self):
        return iter(list(self._d))


class PGet:
    """Old sequence protocol only: __getitem__ ending in IndexError, no __len__."""

    def __init__(self, data):
        self._d = list(data)

    def __getitem__(self, i):
        return self._d[i]


# kinds of things a dtml-in can run over besides a subscriptable sequence.  'pairs*' hold
# (key, item) 2-tuples, which dtml-in unpacks; the guard is handed the pair.
SRC_KINDS = ('gen', 'iter', 'map', 'dictkeys', 'keysview', 'valuesview', 'iterable', 'getitem',
             'pairs', 'pairsgen', 'itemsview')
PAIR_KINDS = ('pairs', 'pairsgen', 'itemsview')
SEQ_BASES = ('seq', 'dseq', 'mseq', 'dmseq', 'wseq', 'dwseq')
TREE_KINDS = ('tuple', 'pseq')


def source_of(kind, items):
    """`items` presented as an iterable of the kind (built anew for every render)."""
    items = list(items)
    if kind == 'gen':
        return (x for x in items)
    if kind == 'iter':
        return iter(items)
    if kind == 'map':
        return map(lambda x: x, items)
    if kind == 'dictkeys':
        return dict.fromkeys(items)
    if kind == 'keysview':
        return dict.fromkeys(items).keys()
    if kind == 'valuesview':
        return dict(enumerate(items)).values()
    if kind == 'iterable':
        return PIter(items)
    if kind == 'getitem':
        return PGet(items)
    pairs = [('key%d' % j, it) for j, it in enumerate(items)]
    if kind == 'pairs':
        # (a plain list of tuples is handed out by AccessControl without validation: both are
        # container types it trusts; an unknown sequence type is validated item by item)
        return PSeq(pairs)
    if kind == 'pairsgen':
        return (x for x in pairs)
    if kind == 'itemsview':
        return dict(pairs).items()
    raise ValueError(kind)


class PMap:
    """Mapping whose type AccessControl does not know (so items are validated by the policy)."""

    def __init__(self, data, tag='map'):
        self._d = dict(data)
        self._tag = tag

    def __getitem__(self, k):
        return self._d[k]

    def get(self, k, default=None):
        return self._d.get(k, default)

    def keys(self):
        return self._d.keys()

    def __str__(self):
        return 'map(%s)' % self._tag

    __repr__ = __str__


class Spy:
    """Namespace callable recording its arguments."""

    def __init__(self, name, fn=None):
        self.name = name
        self.fn = fn

    def __call__(self, *args):
        w = CURRENT[0]
        if w is not None:
            w.spy_log.append('%s%s' % (self.name, tuple(str(a) for a in args)))
        if self.fn is not None:
            return self.fn(*args)
        return 'spied'


class ProbeResponse:
    def setCookie(self, name, value, **kw):
        w = CURRENT[0]
        try:
            from TreeDisplay.TreeTag import decode_seq
            dec = decode_seq(value)
        except Exception:
            dec = value
        if w is not None:
            w.spy_log.append('setCookie(%s, %r)' % (name, dec))


# ------------------------------------------------------------------ route 1: class hooks
_marker = []


def hook_getattr(self, ob, name, default=_marker):
    w = CURRENT[0]
    if not isinstance(name, str):
        raise TypeError(name)
    ok = w.attr_allowed(ob, name)
    w.guard_log.append(('hook-attr', type(ob).__name__, name, ok))
    w.decided.add((id(ob), name))
    if not ok:
        w.refused += 1
        raise Unauthorized(name)
    if default is _marker:
        return getattr(ob, name)
    return getattr(ob, name, default)


def hook_getitem(self, ob, index):
    w = CURRENT[0]
    v = ob[index]
    ok = w.item_allowed(v)
    w.guard_log.append(('hook-item', type(ob).__name__, index if isinstance(index, int) else str(index), ok))
    w.decided_items.add(id(v))
    if isinstance(v, tuple) and len(v) == 2:
        w.decided_items.add(id(v[1]))
    if not ok:
        w.refused += 1
        raise Unauthorized('item %s' % (index,))
    return v


# ------------------------------------------------------------------ route 2: security policy
class RecordingPolicy:
    """AccessControl SecurityPolicy consulting the same table (names: attribute access;
    name None: item access / iteration)."""

    def validate(self, accessed, container, name, value, context, roles=None, *args, **kw):
        from Acquisition import aq_base
        w = CURRENT[0]
        if w is None:
            return 1
        base = aq_base(container)
        if name is None:
            ok = w.item_allowed(value)
            w.decided_items.add(id(value))
            w.guard_log.append(('policy-item', type(base).__name__, None, ok))
        else:
            ok = w.attr_allowed(base, name)
            w.decided.add((id(base), name))
            w.guard_log.append(('policy-attr', type(base).__name__, name, ok))
        if not ok:
            w.refused += 1
            raise Unauthorized(name)
        return 1

    def checkPermission(self, permission, object, context):
        return 1


_installed = []


def install_policy():
    if _installed:
        return
    from AccessControl.SecurityManagement import noSecurityManager
    from AccessControl.SecurityManager import setSecurityPolicy
    setSecurityPolicy(RecordingPolicy())
    noSecurityManager()
    _installed.append(1)


_classes = {}


def template_class(cfg, flavour='HTML'):
    """Template class for a configuration: 'hook' (own class hooks), 'zope' (the package's
    RestrictedDTML mix-in -> AccessControl -> policy), 'none' (no guards)."""
    key = (cfg, flavour)
    if key in _classes:
        return _classes[key]
    from DocumentTemplate.DT_HTML import HTML
    from DocumentTemplate.DT_String import String
    base = HTML if flavour == 'HTML' else String
    if cfg == 'hook':
        cls = type('Hooked' + flavour, (base,), {'guarded_getattr': hook_getattr,
                                                'guarded_getitem': hook_getitem})
    elif cfg == 'zope':
        from DocumentTemplate.security import RestrictedDTML
        cls = type('Restricted' + flavour, (RestrictedDTML, base), {})
    else:
        cls = base
    _classes[key] = cls
    return cls


# ------------------------------------------------------------------ object graphs
RUN_A = 'aabbccdd'
RUN_B = 'hgfedcba'
RUN_P = 'cabbacab'


class Graph:
    """All client data of one render, built for (cfg, assignment, flip, parameters)."""

    def __init__(self, cfg, assign, params, w, need=None, flip=0):
        self.need = need              # names the template can reach (None: everything)
        self.cfg = cfg
        self.assign = assign          # 'a' | 'b' | 'c' (c = falsy secrets)
        self.flip = flip              # which half of the objects refuses the *_alt names
        self.p = params
        self.w = w
        self.n = params['n']
        self.deny = deny_indices(params.get('pat', 'single'), self.n, params['p'])
        self.build()

    # -- values
    def secret_kind(self, kind, refuse_alt=False):
        if kind == 'alt':
            return refuse_alt
        return kind == 'prv' or (kind == 'den' and self.cfg != 'none')

    def sval(self, tag, name, secret):
        if not secret:
            return '%s-%s-%s' % (PUBLIC, tag, name)
        if self.assign == 'c':
            return ''
        return '%s-%s-%s-%s' % (SECRET, self.assign, tag, name)

    def nval(self, j, secret, salt=0):
        if not secret:
            return 3 + j + salt
        if self.assign == 'a':
            return 1000003 + 17 * j + self.p['na'] + salt
        if self.assign == 'b':
            return 2000003 + 29 * (self.n + 2 - j) + self.p['nb'] + salt
        return 0

    def rval(self, j, secret, tainted=False):
        """Run / sort key.  For an item the guard refuses as a whole the three assignments are:
        a marked secret, the public key of its predecessor, the public key of its successor -
        so that a neighbour comparison (first-/last-) depends on the refused value."""
        if not secret:
            return 'pubr' + RUN_P[j % len(RUN_P)]
        if tainted and self.assign == 'b':
            return 'pubr' + RUN_P[(j - 1) % len(RUN_P)]
        if tainted and self.assign == 'c':
            return 'pubr' + RUN_P[(j + 1) % len(RUN_P)]
        if self.assign == 'a':
            return SECRET + RUN_A[j % len(RUN_A)]
        if self.assign == 'b':
            return SECRET + RUN_B[j % len(RUN_B)]
        return ''

    def mkobj(self, tag, j=0, tainted=False, depth=0, extra=None, ordinal=None):
        """A probe object with every attribute family in the four kinds."""
        attrs = {}
        if ordinal is None:
            ordinal = j
        refuse_alt = self.cfg != 'none' and (ordinal + self.flip) % 2 == 1
        stag = tag if not tainted else self.sval(tag, 'tag', True)
        for kind in ALLKINDS:
            sec = tainted or self.secret_kind(kind, refuse_alt)
            for fam in ('s', 'z'):
                nm = aname(fam, kind)
                attrs[nm] = self.sval(tag, nm, sec)
            attrs[aname('n', kind)] = self.nval(j, sec)
            attrs[aname('r', kind)] = self.rval(j, sec, tainted and kind == 'pub')
            nm = aname('m', kind)
            attrs[nm] = (lambda v=self.sval(tag, nm + '()', sec): v)
            nm = aname('cm', kind)
            attrs['=' + nm] = self.sval(tag, nm + '()', sec)
            if depth == 0:
                knm = aname('k', kind)
                attrs[knm] = self.mkobj('%s.%s' % (tag, knm), j, tainted=sec, depth=1, ordinal=ordinal)
                lnm = aname('l', kind)
                attrs[lnm] = [self.mkobj('%s.%s%d' % (tag, lnm, i), i, tainted=sec, depth=1)
                              for i in range(2)]
        denied = []
        if self.cfg != 'none':
            denied = [n_ for n_ in attrs if n_.endswith('_den')] + ['cm_den']
            if refuse_alt:
                denied += [n_ for n_ in attrs if n_.endswith('_alt')] + ['cm_alt']
        attrs['zero'] = 0
        attrs['tpId'] = 'id-' + stag
        attrs['tpURL'] = 'url-' + stag
        if extra:
            attrs.update(extra)
        o = PObj(stag, attrs)
        for nm in denied:
            self.w.denied_attrs.add((id(o), nm))
        self.w.keep.append(o)
        o_d = pdict(o)
        o_d['=refuse_alt'] = refuse_alt
        return o

    def container(self, items):
        c = self.p['container']
        if c == 'pseq':
            return PSeq(items)
        if c == 'tuple':
            return tuple(items)
        return list(items)

    def build(self):
        """Builds only what the template source can name (`need`), the rest stays absent."""
        w = self.w
        n = self.n
        deny = set(self.deny)
        need = self.need
        ns = {}
        self.c = self.c0 = None
        if need is None or 'client' in need:
            self.c = self.mkobj('c')
            d = pdict(self.c)
            for kind in ALLKINDS:       # only c0 carries the z family
                d.pop(aname('z', kind))
            self.c0 = self.mkobj('c0', ordinal=1)

        def want(name):
            return need is None or name in need

        def wantp(base):
            """`base` itself or one of its iterable presentations base_<kind>."""
            return need is None or base in need or any(x.startswith(base + '_') for x in need)

        def present(base, items):
            """ns[base_<kind>] for every iterable kind the template names."""
            for kind in SRC_KINDS:
                if need is not None and ('%s_%s' % (base, kind)) in need:
                    ns['%s_%s' % (base, kind)] = source_of(kind, items)
        if want('o'):
            ns['o'] = self.mkobj('o')
            d = pdict(ns['o'])
            for kind in ALLKINDS:       # only oz carries the z family
                d.pop(aname('z', kind))
        if want('oz'):
            ns['oz'] = self.mkobj('oz', ordinal=1)
        if wantp('seq') or want('pseq') or want('tseq'):
            self.items = [self.mkobj('i%d' % j, j, depth=1) for j in range(n)]
            ns['seq'] = self.container(self.items)
            ns['pseq'] = PSeq(self.items)
            ns['tseq'] = [('key%d' % j, it) for j, it in enumerate(self.items)]
            present('seq', self.items)
        if wantp('dseq') or want('dpseq'):
            self.ditems = [self.mkobj('d%d' % j, j, tainted=(j in deny), depth=1) for j in range(n)]
            for j in deny:
                w.denied_items.add(id(self.ditems[j]))
            ns['dseq'] = self.container(self.ditems)
            ns['dpseq'] = PSeq(self.ditems)
            present('dseq', self.ditems)
        # items of basic type (strings and numbers: dtml-in does not wrap them, the body reads
        # sequence-item).  The third assignment is a third set of distinct values here, not the falsy
        # one: equal items would merge when they are the keys of a dict.  The container is never a
        # plain list / tuple: AccessControl hands str/int items of those out without asking the policy.
        for flavour in ('w', 'dw'):
            if not wantp(flavour + 'seq'):
                continue
            ws = []
            for j in range(n):
                refused = flavour == 'dw' and j in deny
                if j % 2 == 0:
                    v = self.sval('%s%d' % (flavour, j), 'item', refused)
                    if refused and self.assign == 'c':
                        v = '%s-c-%s%d-item' % (SECRET, flavour, j)
                else:
                    v = self.nval(j, refused)
                    if refused and self.assign == 'c':
                        v = 3000003 + 13 * j
                if refused:
                    w.denied_scalars.append(v)
                ws.append(v)
            ns[flavour + 'seq'] = PSeq(ws)
            present(flavour + 'seq', ws)
        # mapping-mode sequences
        for flavour in ('m', 'dm'):
            if not wantp(flavour + 'seq'):
                continue
            ms = []
            for j in range(n):
                tainted = flavour == 'dm' and j in deny
                data = {}
                tag = '%s%d' % (flavour, j)
                for kind in KINDS:
                    sec = tainted or self.secret_kind(kind)
                    data[aname('s', kind)] = self.sval(tag, aname('s', kind), sec)
                    data[aname('n', kind)] = self.nval(j, sec)
                    data[aname('r', kind)] = self.rval(j, sec)
                data['tag'] = tag if not tainted else self.sval(tag, 'tag', True)
                m = PMap(data, data['tag'])
                if tainted:
                    w.denied_items.add(id(m))
                w.keep.append(m)
                ms.append(m)
            ns[flavour + 'seq'] = ms
            present(flavour + 'seq', ms)
        # keyed access in expressions
        if want('mp'):
            mpd = {'key_pub': self.sval('mp', 'key_pub', False)}
            mpd['key_den'] = self.sval('mp', 'key_den', self.cfg != 'none')
            if self.cfg != 'none':
                w.denied_scalars.append(mpd['key_den'])
            ns['mp'] = PMap(mpd, 'mp')
        if want('md_map'):
            ns['md_map'] = dict((aname('s', k), self.sval('md_map', aname('s', k), self.secret_kind(k)))
                                for k in KINDS)
        # url channel: absolute_url allowed on one object, refused on the other
        sec = self.cfg != 'none'
        if want('ou_pub'):
            ns['ou_pub'] = self.mkobj('ou_pub', depth=1, extra={
                'absolute_url': (lambda v=self.sval('ou_pub', 'absolute_url()', False): v)})
        if want('ou_den'):
            ns['ou_den'] = self.mkobj('ou_den', depth=1, extra={
                'absolute_url': (lambda v=self.sval('ou_den', 'absolute_url()', sec): v)})
            if sec:
                w.denied_attrs.add((id(ns['ou_den']), 'absolute_url'))
        if want('root'):
            ns['root'] = self.mktree()
        ns['spy'] = Spy('spy')
        ns['cmpspy'] = Spy('cmpspy', lambda a, b: (a > b) - (a < b))
        ns['URL'] = 'http://host/folder/page'
        ns['RESPONSE'] = ProbeResponse()
        self.ns = ns

    def mktree(self):
        """root -> t0.. -> t00.. -> (); b_pub/b_den/_b_prv/b_alt give disjoint child sets; b_mix holds
        refused children in the position pattern of the case, at the root AND at the nested level."""
        w = self.w
        width = self.p['width']
        deny = set(deny_indices(self.p.get('pat', 'single'), width, self.p['p']))

        def shapes(d, name, kids):
            """name_tuple / name_pseq: the same children handed out as a tuple / as a sequence of
            a type nobody knows."""
            d[name + '_tuple'] = (lambda kids=kids: tuple(kids))
            d[name + '_pseq'] = (lambda kids=kids: PSeq(kids))

        def node(tag, j, level, tainted=False, mixkid=False):
            o = self.mkobj(tag, j, tainted=tainted, depth=1)
            d = pdict(o)
            if level >= 2 and not mixkid:
                for kind in ALLKINDS:
                    d[aname('b', kind)] = (lambda: [])
                d['b_mix'] = (lambda: [])
                shapes(d, 'b_mix', [])
                shapes(d, 'b_pub', [])
                return o
            if mixkid:
                # a child reached through b_mix: expandable; its own children (leaves) carry the
                # same refusal pattern one level down
                leaves = [node('%s.leaf%d' % (tag, i), i, 3, tainted or i in deny) for i in range(width)]
                for i in deny:
                    w.denied_items.add(id(leaves[i]))
                for kind in ALLKINDS:
                    d[aname('b', kind)] = (lambda: [])
                d['b_mix'] = (lambda leaves=leaves: list(leaves))
                shapes(d, 'b_mix', leaves)
                shapes(d, 'b_pub', [])
                return o
            for kind in ALLKINDS:
                sec = tainted or self.secret_kind(kind, d['=refuse_alt'])
                if kind == 'pub':
                    kids = [node('%s%d' % (tag if level else 't', i), i, level + 1, tainted)
                            for i in range(width)]
                else:
                    kids = [node('%s.%s%d' % (tag, aname('b', kind), i), i, 2, sec)
                            for i in range(2)]
                d[aname('b', kind)] = (lambda kids=kids: list(kids))
                if kind == 'pub':
                    shapes(d, 'b_pub', kids)
                if self.cfg != 'none' and (kind == 'den' or (kind == 'alt' and d['=refuse_alt'])):
                    w.denied_attrs.add((id(o), aname('b', kind)))
            mix = [node('%s.mix%d' % (tag, i), i, 2, tainted=(i in deny), mixkid=True)
                   for i in range(width)]
            for i in deny:
                w.denied_items.add(id(mix[i]))
            d['b_mix'] = (lambda mix=mix: list(mix))
            shapes(d, 'b_mix', mix)
            return o
        return node('root', 0, 0)


def canonical_params():
    return {'n': 4, 'p': 1, 'container': 'pseq', 'na': 0, 'nb': 0, 'width': 4, 'client': 'single'}


def seeded_params(gseed):
    if gseed == 0:
        return canonical_params()
    r = random.Random(gseed)
    n = r.randint(3, 6)
    return {'n': n, 'p': r.randrange(n), 'container': r.choice(['pseq', 'pseq', 'list', 'tuple']),
            'na': r.randrange(0, 5000, 7), 'nb': r.randrange(0, 5000, 11),
            'width': r.randint(3, 4), 'client': r.choice(['single', 'single', 'tuple'])}
