#!/bin/bash
# validates MANIFEST.json and every registered evidence file against the schemas (tooling venv has jsonschema)
cd "$(dirname "$0")/.." && python3-vt - <<'P'
import json, jsonschema, sys
m = json.load(open('MANIFEST.json'))
jsonschema.validate(m, json.load(open('/root/.vp/MANIFEST.schema.json')))
s = json.load(open('/root/.vp/EVIDENCE.schema.json'))
bad = 0
for c in m['checks']:
    try:
        e = json.load(open(c['evidence_file']))
        jsonschema.validate(e, s)
        assert e['level'] == c['level_claimed']['category'], 'level mismatch %s vs %s' % (e['level'], c['level_claimed']['category'])
    except Exception as ex:
        bad += 1
        print('BAD', c['property_id'], str(ex)[:300])
claimed = {c['property_id'] for c in m['checks']}
na = {n['property_id'] for n in m.get('not_applicable', [])}
allp = {json.loads(l)['id'] for l in open('properties.jsonl')}
print('claimed', sorted(claimed)); print('not_applicable', sorted(na))
assert claimed | na == allp and not (claimed & na), 'manifest does not partition the properties'
print('OK' if not bad else 'FAILED'); sys.exit(1 if bad else 0)
P
