#!/bin/bash
# tools/keep_r4.sh <parallel> <ID...> : confirm and keep the round-4 seeds of the given properties (/tmp/seed-r4/<ID>/<i> -> seeded/<ID>-<9+i>)
cd "$(dirname "$0")/.." || exit 2
mkdir -p .work
P=$1; shift
for id in "$@"; do for i in 1 2 3; do [ -f /tmp/seed-r4/$id/$i/patch.diff ] && [ ! -d seeded/$id-$((9+i)) ] && echo "$id $i"; done; done | \
 xargs -P $P -L1 bash -c 'id=$0; i=$1; n=$id-$((9+i)); python3 tools/keep_seed.py /tmp/seed-r4/$id/$i $n --jobs ${JOBS:-5} > .work/keep_$n.log 2>&1; echo "$n: $(tail -1 .work/keep_$n.log) $(python3 -c "
import json,sys
try:
    m=json.load(open(\"seeded/$n/meta.json\")); print({k:(\"DETECTED\" if v.get(\"detected\") else \"missed(exit %s)\"%v.get(\"exit\")) for k,v in m[\"checks\"].items()})
except Exception as e: print(\"-\")
")"'
