#!/bin/bash
# tools/sweep_some.sh <tier> <seed> <checks...> : one line per run (no evidence written)
cd "$(dirname "$0")/.." || exit 2
tier=$1; sd=$2; shift; shift
for c in "$@"; do
  s=$(date +%s)
  out=$(VERIF_SEED=$sd ./check $c --tier $tier --no-evidence --jobs ${JOBS:-16} 2>&1); rc=$?
  echo "$c tier=$tier seed=$sd exit=$rc secs=$(( $(date +%s) - s )) $(echo "$out" | egrep -c '^KNOWN-FINDING') known $(echo "$out" | egrep '^(VIOLATION|INCONCLUSIVE)|what:' | head -3 | tr '\n' ' ' | cut -c1-500)"
done
