#!/usr/bin/env python3
"""keep_seed.py <seed dir> <name> : run try_seed on it and, when it is a confirmed break (applies, pinned tests pass,
demo passes clean / fails patched), store it as /verif/seeded/<name>/ with the verdict of our checks in meta.json."""
import json, os, shutil, subprocess, sys
HERE = os.path.dirname(os.path.dirname(os.path.abspath(__file__)))
src, name = sys.argv[1], sys.argv[2]
extra = sys.argv[3:]
p = subprocess.run([sys.executable, os.path.join(HERE, 'tools', 'try_seed.py'), src] + extra,
                   stdout=subprocess.PIPE, stderr=subprocess.STDOUT)
txt = p.stdout.decode()
res = json.loads(txt[txt.index('{'):])
ok = res.get('applies') and res.get('pinned_tests_pass') and res.get('demo_clean_rc') == 0 and res.get('demo_patched_rc') not in (0, None)
print(json.dumps(res, indent=1))
if not ok:
    print('NOT KEPT: not a confirmed break')
    sys.exit(1)
dst = os.path.join(HERE, 'seeded', name)
os.makedirs(dst, exist_ok=True)
for f in ('patch.diff', 'demo.py'):
    if os.path.abspath(src) != os.path.abspath(dst):
        shutil.copy(os.path.join(src, f), os.path.join(dst, f))
meta = json.load(open(os.path.join(src, 'meta.json')))
meta['confirmed'] = {'applies': True, 'pinned_94_tests_pass_with_patch': True,
                     'demo_passes_on_clean_repo': True, 'demo_fails_with_patch': True,
                     'how': 'tools/try_seed.py: scratch copy of /repo + git apply; pytest on the 10 pinned modules; demo.py on clean and patched tree; ./check <ID> --tier quick with VERIF_REPO=<copy>'}
prev = meta.get('checks', {})
meta['checks'] = {k[6:]: {'detected': v['exit'] == 1, 'exit': v['exit'], 'first_violation': v['first']}
                  for k, v in res.items() if k.startswith('check_')}
for k, v in prev.items():
    if k in meta['checks'] and not v.get('detected') and meta['checks'][k]['detected']:
        meta['checks'][k]['history'] = 'missed by the first version of the check (exit %s); detected after the check was strengthened' % v.get('exit')
    if k in meta['checks'] and v.get('history') and 'history' not in meta['checks'][k]:
        meta['checks'][k]['history'] = v['history']
    meta['checks'].setdefault(k, v)
json.dump(meta, open(os.path.join(dst, 'meta.json'), 'w'), indent=1)
print('kept as', dst)
