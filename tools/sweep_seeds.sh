#!/bin/bash
# Re-run every kept seed against the current checks: tools/sweep_seeds.sh [pattern] -> one JSON line per seed in .work/seedsweep.jsonl
cd "$(dirname "$0")/.." || exit 2
mkdir -p .work
out=.work/seedsweep.jsonl; : > $out
for d in seeded/${1:-*}; do
  python3 tools/try_seed.py $d --jobs ${JOBS:-8} 2>&1 | python3 -c "
import sys,json
t=sys.stdin.read()
try:
    r=json.loads(t[t.index('{'):])
except Exception as e:
    r={'seed':'$d','error':t[-300:]}
print(json.dumps(r))" >> $out
done
python3 - <<'P'
import json
for l in open('.work/seedsweep.jsonl'):
    r=json.loads(l)
    ch={k[6:]:(v['exit'],v['violations']) for k,v in r.items() if k.startswith('check_')}
    print(r['seed'].split('/')[-1], 'applies' if r.get('applies') else 'NOAPPLY', 'tests_ok' if r.get('pinned_tests_pass') else 'TESTS_FAIL', 'demo', r.get('demo_clean_rc'), r.get('demo_patched_rc'), ch)
P
