#!/usr/bin/env python3
"""Prints the prompt for a strengthening agent: mkstrengthen.py C02 C02-10,C02-11"""
import glob, os, sys
HERE = os.path.dirname(os.path.dirname(os.path.abspath(__file__)))
pid, seeds = sys.argv[1], sys.argv[2]
allseeds = sorted(os.path.basename(d) for d in glob.glob(os.path.join(HERE, 'seeded', pid + '-*')))
t = open(os.path.join(HERE, 'tools', 'strengthen_prompt.md')).read()
for k, v in (('{ID}', pid), ('{id}', pid.lower()), ('{SEEDS}', seeds.replace(',', ', ')), ('{ALLSEEDS}', ', '.join(allseeds))):
    t = t.replace(k, v)
print(t)
