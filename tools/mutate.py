#!/usr/bin/env python3
"""Mutation campaign: small syntactic changes to the repository source (scratch copies only, never /repo),
filtered by the 94 pinned tests, then run against the quick tier of the checks that watch that file.

    tools/mutate.py list  <file> [--ops a,b]           show the mutation sites of one source file
    tools/mutate.py run   [--files f1,f2] [--n 200] [--seed 0] [--jobs 16] [--out .work/mutation.jsonl]

A mutant that passes the pinned tests and is reported by no check is a *survivor*: either it does not touch
any property (equivalent / outside the statements) or it shows a blind spot.  Survivors are triaged by hand
(DESIGN.md 9.7).  Nothing here is verdict-bearing; it is self-validation of the monitors.
"""
import argparse
import ast
import json
import os
import random
import shutil
import subprocess
import sys
import time

HERE = os.path.dirname(os.path.dirname(os.path.abspath(__file__)))
PY = '/venv/bin/python'
SRC = 'src'
PINNED = ['test_DT_If', 'test_DT_In', 'test_DT_InSV', 'test_DT_Raise', 'test_DT_Try', 'test_DT_Var',
          'test_DocumentTemplate', 'test_Util', 'test_permissions', 'test_templatedict']

# which checks watch which file (anchors of the properties + callers)
WATCH = {
    'DocumentTemplate/DT_String.py': 'C01 C06 C07 C02 C08 C17 C18 C19',
    'DocumentTemplate/DT_HTML.py': 'C01 C06 C07 C03 C17',
    'DocumentTemplate/DT_Util.py': 'C06 C07 C02 C04 C05 C12 C09 C17 C18 C10',
    'DocumentTemplate/DT_Var.py': 'C15 C04 C03 C19 C05 C07 C09',
    'DocumentTemplate/DT_In.py': 'C10 C11 C12 C13 C08 C05 C17 C07 C18 C06',
    'DocumentTemplate/DT_InSV.py': 'C10 C11 C12 C16 C05 C17',
    'DocumentTemplate/DT_If.py': 'C09 C06 C07',
    'DocumentTemplate/DT_Let.py': 'C02 C08 C06 C07 C17',
    'DocumentTemplate/DT_With.py': 'C02 C05 C08 C07',
    'DocumentTemplate/DT_Try.py': 'C14 C08 C19 C06 C07',
    'DocumentTemplate/DT_Raise.py': 'C14 C07 C08',
    'DocumentTemplate/DT_Return.py': 'C14 C07',
    'DocumentTemplate/_DocumentTemplate.py': 'C02 C03 C04 C05 C08 C09 C19 C01 C14 C18',
    'DocumentTemplate/html_quote.py': 'C03 C19 C04',
    'DocumentTemplate/ustr.py': 'C19 C15',
    'DocumentTemplate/security.py': 'C05 C14',
    'TreeDisplay/TreeTag.py': 'C20 C08 C05 C17',
}

CMP = {ast.Lt: '<=', ast.LtE: '<', ast.Gt: '>=', ast.GtE: '>', ast.Eq: '!=', ast.NotEq: '==',
       ast.Is: 'is not', ast.IsNot: 'is', ast.In: 'not in', ast.NotIn: 'in'}
BIN = {ast.Add: '-', ast.Sub: '+', ast.Mult: '//', ast.FloorDiv: '*', ast.Div: '*', ast.Mod: '*'}


def seg(src_lines, node):
    """(start offset, end offset) of a node in the source text."""
    def off(line, col):
        return sum(len(x) for x in src_lines[:line - 1]) + len(src_lines[line - 1].encode('utf-8')[:col].decode('utf-8'))
    return off(node.lineno, node.col_offset), off(node.end_lineno, node.end_col_offset)


def sites(path):
    """-> list of (op, lineno, description, start, end, replacement)."""
    text = open(path, encoding='utf-8').read()
    lines = text.splitlines(True)
    tree = ast.parse(text)
    out = []
    doc_nodes = set()
    for n in ast.walk(tree):
        if isinstance(n, (ast.Module, ast.FunctionDef, ast.ClassDef)) and n.body and \
                isinstance(n.body[0], ast.Expr) and isinstance(getattr(n.body[0], 'value', None), ast.Constant) \
                and isinstance(n.body[0].value.value, str):
            doc_nodes.add(id(n.body[0]))
    parents = {}
    for p in ast.walk(tree):
        for c in ast.iter_child_nodes(p):
            parents[id(c)] = p

    def add(op, node, a, b, rep, what):
        out.append((op, node.lineno, what, a, b, rep))

    for n in ast.walk(tree):
        if isinstance(n, ast.Compare) and len(n.ops) == 1 and type(n.ops[0]) in CMP:
            la, lb = seg(lines, n.left)
            ra, rb = seg(lines, n.comparators[0])
            add('cmp', n, lb, ra, ' %s ' % CMP[type(n.ops[0])], 'compare -> %s' % CMP[type(n.ops[0])])
        elif isinstance(n, ast.BoolOp) and len(n.values) == 2:
            la, lb = seg(lines, n.values[0])
            ra, rb = seg(lines, n.values[1])
            mid = text[lb:ra]
            if isinstance(n.op, ast.And) and ' and ' in mid.replace('\n', ' ') or isinstance(n.op, ast.Or) and ' or ' in mid.replace('\n', ' '):
                new = mid.replace('and', 'or', 1) if isinstance(n.op, ast.And) else mid.replace('or', 'and', 1)
                add('bool', n, lb, ra, new, 'and <-> or')
        elif isinstance(n, ast.UnaryOp) and isinstance(n.op, ast.Not):
            a, b = seg(lines, n)
            oa, ob = seg(lines, n.operand)
            add('not', n, a, b, '(' + text[oa:ob] + ')', 'drop not')
        elif isinstance(n, (ast.If, ast.While)) and not isinstance(n.test, ast.UnaryOp):
            a, b = seg(lines, n.test)
            add('negif', n, a, b, 'not (%s)' % text[a:b], 'negate condition')
        elif isinstance(n, ast.BinOp) and type(n.op) in BIN:
            if isinstance(n.op, ast.Mod) and isinstance(n.left, ast.Constant) and isinstance(n.left.value, str):
                continue
            la, lb = seg(lines, n.left)
            ra, rb = seg(lines, n.right)
            add('bin', n, lb, ra, ' %s ' % BIN[type(n.op)], 'binop -> %s' % BIN[type(n.op)])
        elif isinstance(n, ast.Constant) and type(n.value) is int:
            a, b = seg(lines, n)
            if text[a:b].isdigit():
                add('int+', n, a, b, str(n.value + 1), 'const %d -> %d' % (n.value, n.value + 1))
                if n.value > 0:
                    add('int-', n, a, b, str(n.value - 1), 'const %d -> %d' % (n.value, n.value - 1))
        elif isinstance(n, (ast.Assign, ast.AugAssign, ast.Expr)) and id(n) not in doc_nodes:
            p = parents.get(id(n))
            if isinstance(p, (ast.Module, ast.ClassDef)):
                continue
            if isinstance(n, ast.Expr) and not isinstance(n.value, ast.Call):
                continue
            a, b = seg(lines, n)
            add('del', n, a, b, 'pass', 'delete statement %r' % text[a:b][:50])
        elif isinstance(n, (ast.Break, ast.Continue)):
            a, b = seg(lines, n)
            add('del', n, a, b, 'pass', 'delete %s' % type(n).__name__.lower())
        elif isinstance(n, ast.Try) and n.finalbody:
            a, _ = seg(lines, n.finalbody[0])
            _, b = seg(lines, n.finalbody[-1])
            add('finally', n, a, b, 'pass', 'empty finally body')
        elif isinstance(n, ast.Return) and n.value is not None and not isinstance(n.value, ast.Constant):
            p = parents.get(id(n))
            a, b = seg(lines, n.value)
            if isinstance(n.value, ast.Name):
                continue
            # keep: too many equivalent variants otherwise
        elif isinstance(n, ast.Slice):
            for part, nm in ((n.lower, 'lower'), (n.upper, 'upper')):
                if part is not None and not isinstance(part, ast.Constant):
                    a, b = seg(lines, part)
                    add('slice', n, a, b, '(%s) + 1' % text[a:b], 'slice %s bound + 1' % nm)
    return text, out


def apply(text, site):
    op, line, what, a, b, rep = site
    return text[:a] + rep + text[b:]


def sh(cmd, env=None, cwd=None, timeout=1800):
    e = dict(os.environ)
    e.update(env or {})
    try:
        p = subprocess.run(cmd, env=e, cwd=cwd, stdout=subprocess.PIPE, stderr=subprocess.STDOUT, timeout=timeout)
        return p.returncode, p.stdout.decode('utf-8', 'replace')
    except subprocess.TimeoutExpired:
        return 124, 'timeout'


def run_one(repo, rel, site, text, jobs, scratch):
    res = {'file': rel, 'op': site[0], 'line': site[1], 'what': site[2]}
    new = apply(text, site)
    try:
        compile(new, rel, 'exec')
    except SyntaxError as e:
        res['status'] = 'syntax-error'
        return res
    shutil.rmtree(scratch, ignore_errors=True)
    shutil.copytree(os.path.join(repo, SRC), os.path.join(scratch, SRC), symlinks=True,
                    ignore=shutil.ignore_patterns('__pycache__'))
    with open(os.path.join(scratch, SRC, rel), 'w', encoding='utf-8') as f:
        f.write(new)
    res['line_text'] = text.splitlines()[site[1] - 1].strip()[:120]
    tests = [os.path.join(SRC, 'DocumentTemplate', 'tests', t + '.py') for t in PINNED]
    rc, o = sh([PY, '-m', 'pytest', '-q', '-x', '-p', 'no:cacheprovider', '--timeout=120'] + tests,
               env={'PYTHONPATH': os.path.join(scratch, SRC)}, cwd=scratch, timeout=600)
    if rc != 0:
        res['status'] = 'killed-by-pinned-tests'
        return res
    res['status'] = 'survived'
    res['checks'] = {}
    for c in WATCH[rel].split():
        t0 = time.time()
        rc, o = sh([os.path.join(HERE, 'check'), c, '--tier', 'quick', '--no-evidence', '--jobs', str(jobs)],
                   env={'VERIF_REPO': scratch}, cwd=HERE, timeout=3600)
        what = [l.strip() for l in o.splitlines() if l.strip().startswith('what:')]
        res['checks'][c] = {'exit': rc, 'secs': round(time.time() - t0), 'first': what[0][:240] if what else ''}
        if rc == 1:
            res['status'] = 'caught'
            res['caught_by'] = c
            break
        if rc == 2:
            inc = [l for l in o.splitlines() if l.startswith('INCONCLUSIVE')]
            res['checks'][c]['inconclusive'] = inc[0][:240] if inc else o[-200:]
    if res['status'] == 'survived' and any(v['exit'] == 2 for v in res['checks'].values()):
        res['status'] = 'inconclusive-only'
    return res


def main():
    ap = argparse.ArgumentParser()
    ap.add_argument('mode', choices=['list', 'run'])
    ap.add_argument('file', nargs='?')
    ap.add_argument('--files')
    ap.add_argument('--ops')
    ap.add_argument('--n', type=int, default=100)
    ap.add_argument('--seed', type=int, default=0)
    ap.add_argument('--jobs', type=int, default=16)
    ap.add_argument('--repo', default='/repo')
    ap.add_argument('--out', default=os.path.join(HERE, '.work', 'mutation.jsonl'))
    a = ap.parse_args()
    ops = set(a.ops.split(',')) if a.ops else None
    if a.mode == 'list':
        text, ss = sites(os.path.join(a.repo, SRC, a.file))
        for s in ss:
            if ops is None or s[0] in ops:
                print(s[0], s[1], s[2], '|', text.splitlines()[s[1] - 1].strip()[:90])
        print(len(ss), 'sites')
        return
    files = a.files.split(',') if a.files else sorted(WATCH)
    allsites = []
    texts = {}
    for rel in files:
        text, ss = sites(os.path.join(a.repo, SRC, rel))
        texts[rel] = text
        allsites += [(rel, s) for s in ss if ops is None or s[0] in ops]
    rng = random.Random(a.seed)
    rng.shuffle(allsites)
    done = set()
    if os.path.exists(a.out):
        for l in open(a.out):
            r = json.loads(l)
            done.add((r['file'], r['op'], r['line'], r['what']))
    os.makedirs(os.path.dirname(a.out), exist_ok=True)
    scratch = '/dev/shm/mutant-%d' % os.getpid() if os.path.isdir('/dev/shm') else '/tmp/mutant-%d' % os.getpid()
    n = 0
    try:
        for rel, s in allsites:
            if n >= a.n:
                break
            if (rel, s[0], s[1], s[2]) in done:
                continue
            r = run_one(a.repo, rel, s, texts[rel], a.jobs, scratch)
            if r['status'] in ('syntax-error',):
                continue
            n += 1
            with open(a.out, 'a') as f:
                f.write(json.dumps(r) + '\n')
            print(n, r['file'], r['line'], r['op'], r['status'], r.get('caught_by', ''), flush=True)
    finally:
        shutil.rmtree(scratch, ignore_errors=True)
    print('total sites', len(allsites))


if __name__ == '__main__':
    main()
