#!/bin/bash
# Re-confirm every kept seed against the current tree and checks, refreshing seeded/*/meta.json (history is kept).
# tools/refresh_seeds.sh [pattern]
cd "$(dirname "$0")/.." || exit 2
mkdir -p .work
for d in seeded/${1:-*}; do
  n=$(basename $d)
  extra=""
  [ -f $d/extra_checks ] && extra="--checks $(cat $d/extra_checks)"
  python3 tools/keep_seed.py $d $n --jobs ${JOBS:-10} $extra > .work/refresh_$n.log 2>&1
  tail -1 .work/refresh_$n.log | sed "s/^/$n: /"
done
python3 - <<'P'
import json,glob,os
for d in sorted(glob.glob('seeded/*')):
    m=json.load(open(d+'/meta.json'))
    print(os.path.basename(d), {k:('DETECTED' if v.get('detected') else 'missed')+('*' if v.get('history') else '') for k,v in m.get('checks',{}).items()})
P
