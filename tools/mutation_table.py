#!/usr/bin/env python3
"""Summarises .work/mutation.jsonl (tools/mutate.py run) as a markdown table per source file and lists survivors.
    tools/mutation_table.py [--into-design]   (replaces the block between the mutationtable markers of DESIGN.md)"""
import collections, json, os, sys
HERE = os.path.dirname(os.path.dirname(os.path.abspath(__file__)))
rows = [json.loads(l) for l in open(os.path.join(HERE, '.work', 'mutation.jsonl'))]
by = collections.defaultdict(lambda: collections.Counter())
caught = collections.Counter()
for r in rows:
    by[r['file']][r['status']] += 1
    if r.get('caught_by'):
        caught[r['caught_by']] += 1
out = ['| file | mutants | killed by the 94 pinned tests | reported by a check | survivors |', '|---|---|---|---|---|']
tot = collections.Counter()
for f in sorted(by):
    c = by[f]
    n = sum(c.values())
    k_t = sum(v for s, v in c.items() if s.startswith('killed'))
    k_c = sum(v for s, v in c.items() if s.startswith('caught'))
    sv = n - k_t - k_c
    tot.update(n=n, t=k_t, c=k_c, s=sv)
    out.append('| %s | %d | %d | %d | %d |' % (f, n, k_t, k_c, sv))
out.append('| **all** | %d | %d | %d | %d |' % (tot['n'], tot['t'], tot['c'], tot['s']))
out.append('')
out.append('First reporting check, over the mutants that pass the pinned tests: ' + ', '.join('%s %d' % kv for kv in sorted(caught.items())) + '.')
out.append('')
out.append('Survivors (pass the pinned tests, reported by no watching check):')
out.append('')
for r in rows:
    if not r['status'].startswith('killed') and not r['status'].startswith('caught'):
        out.append('* `%s:%s` %s — %s' % (r['file'], r['line'], r['op'], str(r['what'])[:140]))
txt = '\n'.join(out) + '\n'
if '--into-design' in sys.argv:
    p = os.path.join(HERE, 'DESIGN.md')
    s = open(p).read()
    a, b = '<!-- mutationtable:begin -->\n', '<!-- mutationtable:end -->'
    if a not in s:
        s = s.replace('MUTATIONTABLE\n', a + b + '\n')
    i, j = s.index(a) + len(a), s.index(b)
    open(p, 'w').write(s[:i] + txt + s[j:])
print(txt)
