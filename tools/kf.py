#!/usr/bin/env python3
"""Maintain known_findings.json from the builders' findings.d/<ID>.json files.
   kf.py known C15 <key>                      copy the entry as status=known
   kf.py fixed C15 <key> <commit> "<line>"    record as fixed (suppresses nothing)
"""
import json, os, sys
HERE = os.path.dirname(os.path.dirname(os.path.abspath(__file__)))
KF = os.path.join(HERE, 'known_findings.json')
mode, pid, key = sys.argv[1:4]
d = json.load(open(KF))
src = os.path.join(HERE, 'findings.d', pid + '.json')
ent = None
if os.path.exists(src):
    for f in json.load(open(src))['findings']:
        if f['key'] == key:
            ent = dict(f)
if ent is None:
    ent = {'property': pid, 'key': key}
d['findings'] = [f for f in d['findings'] if not (f['property'] == pid and f['key'] == key)]
if mode == 'known':
    ent['status'] = 'known'
    ent['line'] = 'KNOWN-FINDING: property=%s %s' % (pid, ent.get('what', key))
elif mode == 'fixed':
    commit, line = sys.argv[4], sys.argv[5]
    ent['status'] = 'fixed'
    ent['commit'] = commit
    ent['line'] = 'fixed: property=%s %s %s' % (pid, commit, line)
d['findings'].append(ent)
json.dump(d, open(KF, 'w'), indent=1)
open(KF, 'a').write('\n')
print(mode, pid, key)
