#!/usr/bin/env python3
"""Prints the prompt for an independent seeded-bug sub-agent: mkbreaker.py C11 /tmp/wt-c11 /tmp/seed-out/C11 3"""
import json, os, sys
HERE = os.path.dirname(os.path.dirname(os.path.abspath(__file__)))
pid, wt, out, n = sys.argv[1:5]
props = {json.loads(l)['id']: json.loads(l) for l in open(os.path.join(HERE, 'properties.jsonl'))}
p = props[pid]
t = open(os.path.join(HERE, 'tools', 'breaker_prompt.md')).read()
for k, v in (('{WT}', wt), ('{OUT}', out), ('{ID}', pid), ('{TITLE}', p['title']),
             ('{STATEMENT}', p['statement']), ('{QUANT}', p['quantifier']['text']), ('{N}', n), ('{i}', '<i>')):
    t = t.replace(k, v)
print(t)
