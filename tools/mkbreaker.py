#!/usr/bin/env python3
"""Prints the prompt for an independent seeded-bug sub-agent: mkbreaker.py C11 /tmp/wt-c11 /tmp/seed-out/C11 3"""
import json, os, sys
HERE = os.path.dirname(os.path.dirname(os.path.abspath(__file__)))
pid, wt, out, n = sys.argv[1:5]
round2 = len(sys.argv) > 5 and sys.argv[5] == 'r2'
round3 = len(sys.argv) > 5 and sys.argv[5] == 'r3'
round4 = len(sys.argv) > 5 and sys.argv[5] == 'r4'
props = {json.loads(l)['id']: json.loads(l) for l in open(os.path.join(HERE, 'properties.jsonl'))}
p = props[pid]
t = open(os.path.join(HERE, 'tools', 'breaker_prompt.md')).read()
for k, v in (('{WT}', wt), ('{OUT}', out), ('{ID}', pid), ('{TITLE}', p['title']),
             ('{STATEMENT}', p['statement']), ('{QUANT}', p['quantifier']['text']), ('{N}', n), ('{i}', '<i>')):
    t = t.replace(k, v)
if round2:
    t = t.replace('YOUR TASK:', '''NOTE: an earlier batch of seeded bugs for this property went for the most direct mutations of the central
functions. This batch must be HARDER to notice: prefer effects that depend on history or hidden state (a second
render, another template or namespace used earlier in the same process, a cache), on exceptional paths, on rarely
used option combinations or option spellings, on unusual but legal value/container types, on the less common of the
surface syntaxes, or on an interaction between two features. Each change must still be a clear violation of the
property as stated (not of something the statement leaves open).

YOUR TASK:''', 1)
if round3:
    t = t.replace('YOUR TASK:', '''NOTE: two earlier batches of seeded bugs for this property already covered direct mutations of the central
functions and simple caches / history effects. This batch must be of a DIFFERENT KIND. Each change should be one of:
(a) TWO COOPERATING SITES that each look correct alone (a helper whose contract is subtly changed plus a caller that
relied on the old contract; an invariant established in one module and consumed in another);
(b) a fault / exception at ONE PARTICULAR POINT (only the k-th element, only inside a handler, only while another
block is active, only on the second level of nesting) after which behaviour is wrong;
(c) an effect visible only for a boundary value of a parameter or length (0, 1, exactly at a threshold), an unusual
but legal container / value type, or one specific spelling in one of the three surface syntaxes;
(d) an optimisation that is valid for most inputs but wrong for a describable minority.
Avoid: plain process-wide memo dictionaries, and changes any first use of the feature would expose. Each change must
still be a clear violation of the property as stated (not of something the statement leaves open).

YOUR TASK:''', 1)
if round4:
    t = t.replace('YOUR TASK:', '''NOTE: three earlier batches of seeded bugs for this property already covered (1) direct mutations of the functions
most obviously tied to it, (2) caches and history effects, (3) cooperating sites, faults at one particular point,
boundary values and optimisations that are wrong for a minority of inputs. This batch must come from a DIFFERENT
DIRECTION. Each change should be one of:
(a) a change in code that is NOT the obvious home of this property - a shared helper or a neighbouring feature
(DT_Util: name_param / parse_params / Eval / add_with_prefix / sequence_ensure_subscription / SequenceFromIter;
_DocumentTemplate: render_blocks_ / TemplateDict / InstanceDict / DictInstance / join_unicode / safe_callable;
DT_String: __call__ / parse / parse_block / parse_close / _parseTag / varExtra / cook / __getstate__; the DT_HTML tag
scanner; html_quote.py; ustr.py; security.py; DT_Let, DT_With, DT_Return, DT_Call, DT_Raise, DT_Try, DT_If; VSEval;
TreeDisplay) - whose effect reaches this property only under describable conditions;
(b) a plausible "modernisation / cleanup / typing / performance" pull request (str.partition or f-strings instead of
regex or % formatting, comprehensions, truthiness test instead of `is None` or the reverse, narrowed or widened
`except`, iterator instead of list, `==` vs `is`, default arguments, early returns, merged branches, sorted()/key=
instead of cmp, dict.get/setdefault, getattr with default) that changes semantics for a describable minority of cases;
(c) an interaction that the earlier batches did not use: entity syntax (&dtml-x; &dtml.mod-x;) vs tag syntax, the
%(x)s syntax, sub-templates called by name vs from an expression (x(_.None, _)), objects with
__render_with_namespace__ / isDocTemp / validate hooks, mapping vs attribute access, TaintedString values, bytes
values, namespace callables vs plain values, guarded (restricted) vs unguarded template classes, nested blocks of the
SAME tag, tags inside dtml-tree bodies, templates re-entered recursively.
Avoid plain process-wide memo dictionaries and anything the simplest use of the feature would expose. Each change
must still be a clear violation of the property as stated (not of something the statement leaves open).

YOUR TASK:''', 1)
print(t)
