#!/usr/bin/env python3
"""Try one seeded change against the checks, on a scratch copy of /repo (never /repo itself).

    tools/try_seed.py <dir with patch.diff demo.py meta.json> [--checks C11,C12] [--tier quick]

Steps: copy /repo -> /tmp/seedtry-<pid>; git apply patch.diff there; run the 94 pinned tests on the copy;
run demo.py on the clean repo (must PASS) and on the copy (must FAIL); run ./check <ID> with VERIF_REPO=<copy>;
print a one-line JSON verdict; remove the copy.
"""
import argparse
import json
import os
import shutil
import subprocess
import sys

HERE = os.path.dirname(os.path.dirname(os.path.abspath(__file__)))
PY = '/venv/bin/python'
PINNED = ['test_DT_If', 'test_DT_In', 'test_DT_InSV', 'test_DT_Raise', 'test_DT_Try', 'test_DT_Var',
          'test_DocumentTemplate', 'test_Util', 'test_permissions', 'test_templatedict']


def sh(cmd, env=None, cwd=None, timeout=3600):
    e = dict(os.environ)
    e.update(env or {})
    p = subprocess.run(cmd, env=e, cwd=cwd, stdout=subprocess.PIPE, stderr=subprocess.STDOUT, timeout=timeout)
    return p.returncode, p.stdout.decode('utf-8', 'replace')


def main():
    ap = argparse.ArgumentParser()
    ap.add_argument('dir')
    ap.add_argument('--checks')
    ap.add_argument('--tier', default='quick')
    ap.add_argument('--jobs', default='8')
    ap.add_argument('--keep', action='store_true')
    a = ap.parse_args()
    d = os.path.abspath(a.dir)
    meta = json.load(open(os.path.join(d, 'meta.json')))
    checks = (a.checks or meta['property']).split(',')
    copy = '/tmp/seedtry-%d' % os.getpid()
    shutil.rmtree(copy, ignore_errors=True)
    shutil.copytree('/repo', copy, symlinks=True)
    out = {'seed': d, 'property': meta['property']}
    try:
        rc, o = sh(['git', 'apply', '--whitespace=nowarn', os.path.join(d, 'patch.diff')], cwd=copy)
        if rc:   # the repo moved on since the seed was made (fix: commits): fall back to patch(1) with fuzz
            rc, o = sh(['patch', '-p1', '-F3', '--no-backup-if-mismatch', '-i', os.path.join(d, 'patch.diff')], cwd=copy)
            out['applied_with_fuzz'] = rc == 0
        out['applies'] = rc == 0
        if rc:
            out['apply_output'] = o[-400:]
            print(json.dumps(out))
            return 2
        tests = ['src/DocumentTemplate/tests/%s.py' % t for t in PINNED]
        rc, o = sh([PY, '-m', 'pytest', '-q', '-p', 'no:cacheprovider'] + tests,
                   env={'PYTHONPATH': copy + '/src'}, cwd=copy)
        out['pinned_tests_pass'] = rc == 0
        out['pinned_tail'] = o.strip().splitlines()[-1] if o.strip() else ''
        demo = os.path.join(d, 'demo.py')
        if os.path.exists(demo):
            rc0, _ = sh([PY, demo], env={'PYTHONPATH': '/repo/src'}, cwd='/tmp', timeout=600)
            rc1, o1 = sh([PY, demo], env={'PYTHONPATH': copy + '/src'}, cwd='/tmp', timeout=600)
            out['demo_clean_rc'] = rc0
            out['demo_patched_rc'] = rc1
        for c in checks:
            rc, o = sh([os.path.join(HERE, 'check'), c, '--tier', a.tier, '--no-evidence', '--jobs', a.jobs],
                       env={'VERIF_REPO': copy}, cwd=HERE, timeout=7200)
            lines = o.splitlines()
            viol = [l for l in lines if l.startswith('VIOLATION')]
            what = [l for l in lines if l.strip().startswith('what:')]
            out['check_' + c] = {'exit': rc, 'violations': len(viol),
                                 'first': (what[0].strip()[:300] if what else ''),
                                 'inconclusive': [l for l in lines if l.startswith('INCONCLUSIVE')][:2]}
    finally:
        if not a.keep:
            shutil.rmtree(copy, ignore_errors=True)
    print(json.dumps(out, indent=1))
    return 0


if __name__ == '__main__':
    sys.exit(main())
