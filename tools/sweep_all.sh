#!/bin/bash
# tools/sweep_all.sh <tier> <seeds...> : every registered check on each seed; one line per run (no evidence written)
cd "$(dirname "$0")/.." || exit 2
tier=$1; shift
for sd in "$@"; do
  for c in C01 C02 C03 C04 C05 C06 C07 C08 C09 C10 C11 C12 C13 C14 C15 C16 C17 C18 C19 C20; do
    s=$(date +%s)
    out=$(VERIF_SEED=$sd ./check $c --tier $tier --no-evidence --jobs ${JOBS:-16} 2>&1); rc=$?
    echo "$c tier=$tier seed=$sd exit=$rc secs=$(( $(date +%s) - s )) $(echo "$out" | egrep -c '^KNOWN-FINDING') known $(echo "$out" | egrep '^(VIOLATION|INCONCLUSIVE)' | head -2 | tr '\n' ' ' | cut -c1-300)"
  done
done
