#!/bin/bash
# tools/cross.sh <seed> <checks,comma> : try a kept seed against other checks (no meta change); prints exit codes
cd "$(dirname "$0")/.." || exit 2
python3 tools/try_seed.py seeded/$1 --checks $2 --jobs ${JOBS:-5} 2>&1 | python3 -c "
import sys,json
t=sys.stdin.read(); r=json.loads(t[t.index('{'):])
print('$1', {k[6:]:(v['exit'], v['first'][:140]) for k,v in r.items() if k.startswith('check_')})"
