#!/usr/bin/env python3
"""Rewrites the seed table of DESIGN.md (between the seedtable markers) from seeded/*/meta.json."""
import os, subprocess, sys
HERE = os.path.dirname(os.path.dirname(os.path.abspath(__file__)))
t = subprocess.run([sys.executable, os.path.join(HERE, 'tools', 'seed_table.py')], stdout=subprocess.PIPE, check=True).stdout.decode()
p = os.path.join(HERE, 'DESIGN.md')
s = open(p).read()
a, b = '<!-- seedtable:begin -->\n', '<!-- seedtable:end -->'
i, j = s.index(a) + len(a), s.index(b)
open(p, 'w').write(s[:i] + t + s[j:])
print('rows', t.count('\n') - 2)
