#!/bin/bash
# pinned suite (94) + the unpinned test modules (safety net for fix: commits); hooks off
cd ${1:-/repo} || exit 2
export PYTHONPATH=$PWD/src
/venv/bin/python -m pytest -q -p no:cacheprovider src 2>&1 | tail -2
/venv/bin/python -m pytest -q -p no:cacheprovider src/DocumentTemplate/tests/testDTML.py src/DocumentTemplate/tests/testSecurity.py src/DocumentTemplate/tests/testDTMLUnicode.py src/DocumentTemplate/tests/testustr.py src/TreeDisplay/tests.py 2>&1 | tail -2
