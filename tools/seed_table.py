#!/usr/bin/env python3
"""Prints the markdown table of seeded changes (DESIGN.md 9.6) from seeded/*/meta.json."""
import glob, json, os
HERE = os.path.dirname(os.path.dirname(os.path.abspath(__file__)))
print('| seed | what was changed | needs, to manifest | caught by |')
print('|---|---|---|---|')
def _k(d):
    a, b = os.path.basename(d).split('-')
    return a, int(b)
for d in sorted(glob.glob(os.path.join(HERE, 'seeded', '*-*')), key=_k):
    m = json.load(open(os.path.join(d, 'meta.json')))
    by = []
    for k, v in sorted(m.get('checks', {}).items()):
        if v.get('detected'):
            by.append(k + (' (strengthened)' if v.get('history') else ''))
    def cut(s, n):
        s = ' '.join(str(s).split()).replace('|', '\\|')
        return s if len(s) <= n else s[:n - 1] + '…'
    print('| %s | %s | %s | %s |' % (os.path.basename(d), cut(m.get('summary', ''), 150), cut(m.get('needs', ''), 130),
                                    ', '.join(by) or '**missed**'))
