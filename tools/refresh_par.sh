#!/bin/bash
# tools/refresh_par.sh <parallel> <seed names...> : refresh_seeds for several seeds at once (each with JOBS jobs)
cd "$(dirname "$0")/.." || exit 2
mkdir -p .work
P=$1; shift
printf '%s\n' "$@" | xargs -P $P -I{} bash -c 'n={}; d=seeded/$n; extra=""; [ -f $d/extra_checks ] && extra="--checks $(cat $d/extra_checks)"; python3 tools/keep_seed.py $d $n --jobs ${JOBS:-5} $extra > .work/refresh_$n.log 2>&1; echo "$n: $(tail -1 .work/refresh_$n.log)"'
python3 - "$@" <<'P'
import json,sys,os
for n in sys.argv[1:]:
    m=json.load(open('seeded/%s/meta.json'%n))
    print(n, {k:('DETECTED' if v.get('detected') else 'missed(exit %s)'%v.get('exit'))+('*' if v.get('history') else '') for k,v in m.get('checks',{}).items()})
P
