#!/usr/bin/env python3
"""Regenerates MANIFEST.json from the table below (run from /verif)."""
import json
import os

HERE = os.path.dirname(os.path.dirname(os.path.abspath(__file__)))

# id -> (category, technique, level text, level note, design ref)
CHECKS = {
    'C11': ('exploration',
            'runtime monitor: printed window/link records + postcondition wrapper on opt(), '
            'window model oracle, link-following traversal',
            'Every (length,start,end,size,orphan,overlap) of the stated grid is rendered by the real '
            'engine and compared with an independent window model; traversal laws are checked by '
            'following the links the engine printed. Exhaustive inside the grid, sampled beyond. The previous / next '
            'attribute forms are compared with the plain rendering; 20 long-lived compiled variants are re-rendered '
            'with text- and callable-valued parameters, prefix spellings, sparse / edge / nested body layouts, four '
            'sequence forms and five item kinds. A batch variable that renders as anything but a number (e.g. an entity '
            'reference left as literal text) is a violation. Prefixes include mixed-case names.',
            'Trusted: the window model in checks/c11.py (from the DT_In docstring and the statement); '
            'CPython; parameters <= 0 mean "not given".',
            'DESIGN.md section 4, C11'),
    'C18': ('exploration',
            'runtime monitor: deterministic step-controlled thread scheduler (sys.monitoring LINE events), '
            'cooperative cook lock; oracle = per-thread sequential result on a fresh template',
            'Two or three threads render one shared template object under schedules we control at '
            'package-statement granularity: every single-preemption schedule (thorough; quick: first/last '
            'occurrence of every site plus every 16th step), 2-preemption schedules over de-duplicated sites, '
            'random 3-thread schedules; pre-cooked, uncooked (compile race), already-rendered and restored variants; '
            'file-based templates with deep compile-race schedules (3 threads x 2 preemptions, 2 x 3, 2 x 4) at the '
            'accesses of the shared object; per-thread functions; same-place schedules; all orders of 3 threads. Each shard '
            'is confined to one CPU (cost only: one thread runs at a time). Each '
            'thread must get exactly what it gets alone.',
            'Trusted: vlib/sched.py; statement-line granularity (races inside one line or inside C / '
            'third-party code are invisible); CPython 3.12 GIL semantics.',
            'DESIGN.md section 4, C18'),
    'C15': ('exploration',
            'runtime monitor: stage-trace wrappers on every DT_Var modifier / special format + output; '
            'oracle = independent pipeline model, order/round-trip/truncation laws, sql_quote postcondition',
            'The real dtml-var is rendered for all 4096 modifier subsets, all written orders of small subsets, '
            'fmt / C-format / size x etc / null / missing grids and seeded random option sets over str, bytes, '
            'numbers, None, empty containers and objects; each stage application is logged by wrappers and the '
            'output compared with an independent model of the documented pipeline; option count 0/1/2 x 26 C formats '
            'x 12 tag spellings, the numeric tower and every null kind for null= / missing=.',
            'Trusted: vlib/c15_util.py pipeline model (from the DT_Var docstring and the statement); html_quote '
            'exactness is C03\'s; thousands_commas judged on numeric text only.',
            'DESIGN.md section 4, C15'),
}

NOT_YET = {}
_meta = os.path.join(HERE, 'tools', 'checks_meta.json')
if os.path.exists(_meta):
    for _k, _v in json.load(open(_meta)).items():
        CHECKS[_k] = (_v['category'], _v['technique'], _v['text'], _v['note'], 'DESIGN.md section 4 and 9, ' + _k)



def main():
    props = [json.loads(l) for l in open(os.path.join(HERE, 'properties.jsonl'))]
    checks = []
    na = []
    for p in props:
        pid = p['id']
        if pid in CHECKS:
            cat, tech, text, note, ref = CHECKS[pid]
            checks.append({
                'property_id': pid,
                'quick_cmd': './check %s --tier quick' % pid,
                'thorough_cmd': './check %s --tier thorough' % pid,
                'evidence_file': '/verif/evidence/%s.json' % pid,
                'replay_cmd_template': './check %s --replay {path}' % pid,
                'engine': 'vlib',
                'level_claimed': {'category': cat, 'text': text, 'design_ref': ref},
                'level_note': note,
                'technique': tech,
            })
        else:
            na.append({'property_id': pid,
                       'reason': NOT_YET.get(pid, 'check not built yet in this round (designed in DESIGN.md section 4); no claim made')})
    m = {
        'version': 1,
        'setup_cmd': 'bash setup.sh',
        'hooks': {
            'guard': 'DOCUMENTTEMPLATE_VERIF',
            'enable': 'no source hooks: monitors are probe objects passed through the public API and '
                      'wrappers installed on the imported package by the harness (vlib/); checks import '
                      '/repo/src directly, nothing is built',
            'baseline_off_cmd': 'cd /repo && /venv/bin/python -m pytest -q -p no:cacheprovider --timeout=900',
            'source_commits': [],
            'add_only': True,
        },
        'engines': [{'name': 'vlib', 'path': 'vlib/', 'serves_properties': sorted(CHECKS),
                     'kind_free_text': 'sharded runtime-monitoring driver: child interpreters run the real '
                                       'package under probes/wrappers; oracles are independent models'}],
        'checks': checks,
        'notes': 'Exit 0 held / 1 VIOLATION / 2 INCONCLUSIVE (deciding monitor not reached or shard died). '
                 'Known findings: known_findings.json (keyed by mechanism).',
        'not_applicable': na,
    }
    with open(os.path.join(HERE, 'MANIFEST.json'), 'w') as f:
        json.dump(m, f, indent=1)
        f.write('\n')


if __name__ == '__main__':
    main()
