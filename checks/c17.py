"""C17 — rendering is repeatable and side-effect free; templates survive persistence.

Monitor: every operation of a history is run on the real template object while (a) deep
fingerprints + identities of all caller-owned data (mapping argument, client object, keyword
values, sequences, elements, the template's defaults, variables and the constructor mapping) are taken
before and after each render, (b) the bytes of every pickle are scanned (classes referenced,
volatile attribute names, source / file-content markers, file name), likewise the state handed out for a copy
(copy.copy / __getstate__) and (c) a __setattr__
write log on the compiled tag classes records which attributes of shared compiled objects
are assigned while a render is running (diagnosis).
Oracle: metamorphic — every render in a history must equal (value, type, cookies set, or
exception type and message) the render of a FRESHLY constructed template with the current
(source, defaults) on an equal, separately built namespace; a fresh template's result must
in turn be the same every time it is computed in the process.
"""
import copy
import itertools
import json
import os
import pickle
import shutil
import subprocess
import sys
import tempfile

ID = 'C17'
LEVEL = 'exploration'
RULE = ('one case = (template, operation history, caller-data mode): all histories of length <= 3 '
        '(quick) / <= 4 (thorough) over {render ns1, ns2, ns3, pickle round trip, deepcopy, munge->src1, '
        'munge->src2, munge->empty source, cook}, plus all histories of that length over {render ns1..3, pickle, '
        'munge->src2, cook, cp} that contain cp (= the template replaced by a copy made from its state: copy.copy or '
        '__getstate__ -> new object -> __setstate__/__dict__.update, alternating), for each of the catalogue '
        'templates (every tag; option values that NAME namespace entries whose binding differs between the '
        'namespaces: sort="key/function", size/start names, tree header/footer/leaves documents, the query string '
        'of batch links; one name bound to values of different types; defaults and var() variables of special '
        'value types: str subclass, bytes, __render_with_namespace__ object, callable, None, tuple, nested '
        'mapping, sub-template, and tainted strings; a non-default encoding given to the constructor; twins = the same source text built with another '
        'encoding and other defaults in the same process), each in two '
        'caller-data modes '
        '(persistent: one container object per name refilled in place between renders; fresh: all '
        'objects rebuilt per render), a closing render appended when the last operation is not a '
        'render, plus seeded histories of length 4..8; a case is non-trivial when at least one render '
        'is preceded by another operation on the same template object; distinct = distinct '
        '(template, history, mode, pickle protocol) tuples')
ASSUMPTIONS = ['"equal inputs" are namespaces built twice from one recipe: equal values, separate objects',
               'for file templates the "source" given to the constructor and to munge is the file name',
               'the volatile compiled state (_v_ attributes) of sub-templates owned by the caller is not '
               'counted as a modification of caller data; cookies set on RESPONSE by dtml-tree are part of '
               'the result, not a modification',
               'dict key order of caller mappings is not compared (mapping equality)',
               'the write log and compiled-state observations are diagnosis, never verdict-bearing',
               'the pristine reference of a twin comes from a child interpreter that builds only the twins, so that no '
               'reference interpreter ever holds two templates with the same source text; in the shards the twin\'s '
               'histories run after those of the template it shares its source with',
               'a pickle round trip / deepcopy that raises is accepted only when one of the template\'s default or '
               'variable values raises the same exception (type and message) when pickled / deep-copied on its own '
               '(tainted strings refuse both): the history then goes on with the unrestored object; were such a '
               'template restored after all, its renders are compared like any other',
               'a copy made from the state shares the default VALUES with the original (shallow by definition): after '
               'it the caller changes only the original\'s source, not its defaults',
               'variables set with var() belong to "the same source and defaults": the new template of the oracle '
               'gets the same var() call, and a munge that replaces the defaults is followed by the var() call of '
               'the new set (same names in both sets, so whether munge keeps or drops variables is not demanded)']
SHARD_TIMEOUT = {'quick': 900, 'thorough': 3400}
NSHARDS = {'quick': 16, 'thorough': 64}
MAXLEN = {'quick': 3, 'thorough': 4}
NSEEDED = {'quick': 6000, 'thorough': 100000}

OPS = ('r1', 'r2', 'r3', 'pk', 'dc', 'm1', 'm2', 'm0', 'ck')     # m0: munge to the empty source
# cp: the template is replaced by a copy made from its STATE without pickling the values (copy.copy, or
# __getstate__ -> new object -> __setstate__ / __dict__.update, which is what copy and pickle do); enumerated in
# every position of every history over the reduced alphabet OPS_CP (histories without cp are in the main enumeration)
OPS_CP = ('r1', 'r2', 'r3', 'pk', 'm2', 'ck', 'cp')
OPS_SEEDED = OPS + ('cp',)
KNOWN_TREE_SORT = 'tree-sort-in-place-on-callers-list'
ROOTS = ('mapping', 'client', 'kw', 'defaults', 'constructor-mapping', 'variables')


def plan(tier, seed):
    return [{} for _ in range(NSHARDS[tier])]


def all_histories(maxlen):
    for n in range(1, maxlen + 1):
        for h in itertools.product(OPS, repeat=n):
            yield h
    for n in range(1, maxlen + 1):
        for h in itertools.product(OPS_CP, repeat=n):
            if 'cp' in h:
                yield h


# ---------------------------------------------------------------- harness
class Harness:
    def __init__(self, ctx):
        from vlib import c17_util as U
        self.U = U
        self.ctx = ctx
        self.wlog = U.WriteLog()
        self.tmpdir = None
        self.first_fresh = {}
        self.reference = {}

    def setup(self):
        U = self.U
        self.real_cook = self.wlog.install()
        self.tmpdir = tempfile.mkdtemp(prefix='c17-files-')
        U.make_files(self.tmpdir)

    def teardown(self):
        if self.tmpdir:
            shutil.rmtree(self.tmpdir, ignore_errors=True)
            self.tmpdir = None

    def call(self, t, world, args):
        return self.U.normal_call(t, world, args)

    def load_reference(self):
        """Three pristine child interpreters (one per namespace) give the reference results of new
        templates that cannot have been influenced by anything rendered before in this process."""
        self.reference = {}
        for i, extra in itertools.product((1, 2, 3), ([], ['twins'])):
            try:
                p = subprocess.run([sys.executable, '-m', 'vlib.c17_util', str(i)] + extra, timeout=300,
                                   stdout=subprocess.PIPE, stderr=subprocess.PIPE,
                                   cwd=os.environ.get('VERIF_HOME') or None)
                self.reference.update(json.loads(p.stdout.decode('utf-8')))
            except Exception as e:
                self.ctx.inconclusive('pristine reference child for namespace %d %s failed: %s: %s'
                                      % (i, extra, type(e).__name__, str(e)[:300]))
        self.ctx.count('pristine reference results loaded', len(self.reference))

    def snapshot(self, world, t, ctor_mapping):
        structs, ids = [], []
        for root in world.roots() + [t.globals, ctor_mapping, getattr(t, '_vars', None)]:
            st, i = self.U.fingerprint(root)
            structs.append(st)
            ids.append(tuple(i))
        return tuple(structs), tuple(ids)

    def scramble(self, old, spec, shallow=False):
        """The caller keeps the old object and is free to change it; a restored or copied template
        must not notice.  (A shallow copy shares the default values with the original by definition: there only
        the original's own source is changed.)"""
        try:
            g = old.globals
            if not shallow:
                for v in list(g.values()):
                    if getattr(v, 'isDocTemp', 0):
                        v.munge('SCRAMBLED-SUB')
                    elif isinstance(v, list):
                        v[:] = ['SCR']
                old.default(**dict((k, 'SCRAMBLED') for k in list(g)))
                if spec.defaults in self.U.VARS:
                    old.var(**dict((k, 'SCRAMBLED-VAR') for k in self.U.VARS[spec.defaults](1)))
            if not spec.is_file:
                old.munge('SCRAMBLED')
        except Exception:
            self.ctx.count('scramble errors')

    # -- one history
    def run_history(self, name, hist, persistent, proto, closing, origin='enum'):
        U = self.U
        ctx = self.ctx
        spec = U.BYNAME[name]
        case = {'template': name, 'history': list(hist), 'persistent': bool(persistent),
                'proto': proto, 'closing': closing}
        ops = list(hist)
        if ops[-1][0] != 'r':
            ops.append('r%d' % closing)
        renders_after = sum(1 for n, op in enumerate(ops) if op[0] == 'r' and n > 0)
        ctx.case((name, tuple(hist), bool(persistent), proto, closing), renders_after > 0)
        ctx.count('histories:%s' % origin)
        ctx.table('histories by length', len(hist))
        key = '%s_%s_%s' % (name, '-'.join(hist), 'p' if persistent else 'f')
        src_idx, def_idx = 1, 1
        cur, ctor_mapping = U.construct(spec, src_idx, def_idx)
        world = U.World(spec.keys, persistent)
        del self.wlog.log[:]
        done = []
        restored_by = []      # persistence operations the current object has come through

        def bad(what, mech=None, **detail):
            detail['operations_done'] = list(done)
            detail['shared_state_writes'] = sorted(set(self.wlog.log))[:30]
            detail['current'] = {'source': spec.src[src_idx], 'defaults_set': def_idx}
            ctx.violation('%s [template %s, after %s]' % (what, name, '>'.join(done) or 'start'),
                          case, mech=mech, key=(mech or key)[:150], detail=detail)

        for op in ops:
            done.append(op)
            ctx.count('op:' + op)
            if op[0] == 'r':
                i = int(op[1])
                # ---- render on the history's object, fingerprints around it
                args = world.apply(i)
                before = self.snapshot(world, cur, ctor_mapping)
                self.wlog.rendering = 1
                try:
                    got = self.call(cur, world, args)
                finally:
                    self.wlog.rendering = 0
                after = self.snapshot(world, cur, ctor_mapping)
                ctx.count('monitor:caller-data fingerprints compared')
                if before[0] != after[0]:
                    diff = '; '.join(U.first_difference(x, y, label) for label, x, y
                                     in zip(ROOTS, before[0], after[0]) if x != y)
                    mech = self.classify_mutation(spec, src_idx, before[0], after[0])
                    bad('render changed caller-owned data: %s' % diff, mech=mech, namespace=i)
                elif before[1] != after[1]:
                    bad('render replaced caller-owned objects by equal copies (identities differ)', namespace=i)
                # ---- the oracle: a freshly constructed template on an equal namespace
                fresh, fmap = U.construct(spec, src_idx, def_idx)
                fworld = U.World(spec.keys, False)
                want = self.call(fresh, fworld, fworld.apply(i))
                ctx.count('monitor:renders compared with a fresh template')
                ctx.count('render outcome:' + got[0])
                if spec.defaults in U.SPECIAL_DEFAULTS:
                    for how in sorted(set(o for o in restored_by)):
                        ctx.count('monitor:renders of a template with %s defaults compared after %s'
                                  % (U.SPECIAL_DEFAULTS[spec.defaults], how))
                        ctx.table('special-typed defaults: renders compared (family -> restored by)',
                                  '%s -> %s' % (spec.defaults, how))
                if got != want:
                    bad('render differs from a freshly constructed template on an equal namespace: '
                        'got %s, fresh gives %s' % (_short(got), _short(want)),
                        namespace=i, got=_short(got, 1500), fresh=_short(want, 1500))
                fk = (name, src_idx, def_idx, i)
                first = self.first_fresh.setdefault(fk, want)
                if first != want:
                    bad('a freshly constructed template renders differently from the first fresh '
                        'template with the same source, defaults and namespace: %s vs first %s'
                        % (_short(want), _short(first)), namespace=i)
                ref = self.reference.get('%s|%d|%d|%d' % fk)
                if ref is not None:
                    ctx.count('monitor:fresh results compared with the pristine reference')
                    if spec.twin_of:
                        ctx.count('monitor:results of a twin (same source text as another template of the process, '
                                  'other encoding) compared with its pristine reference')
                    if ref != repr(want):
                        bad('a freshly constructed template renders differently here than a new template in '
                            'an interpreter that never rendered another namespace: %s vs pristine %s'
                            % (_short(want), ref[:200]), namespace=i)
                if len(done) == 2 and origin == 'enum':
                    ctx.sample({'template': name, 'class': spec.cls, 'source': spec.src[src_idx],
                                'operations': list(done), 'namespace': i, 'persistent_caller_data': bool(persistent),
                                'result': _short(got, 300), 'fresh_result': _short(want, 300)})
            elif op == 'pk':
                try:
                    data = pickle.dumps(cur, proto)
                except Exception as e:
                    if U.own_refusal(cur, lambda v: pickle.dumps(v, proto)) == (type(e).__name__, str(e)):
                        # a default value refuses to be pickled on its own account, in the very same words:
                        # nothing is restored, the history goes on with the object it has
                        ctx.count('pickles refused by a default value itself (template kept)')
                        continue
                    bad('pickling the template raised %s: %s' % (type(e).__name__, str(e)[:200]))
                    return
                try:
                    problems, new = U.scan_pickle(data, spec, src_idx)
                except Exception as e:
                    bad('unpickling the template raised %s: %s' % (type(e).__name__, str(e)[:200]))
                    return
                ctx.count('monitor:pickles scanned')
                ctx.count('pickle bytes scanned', len(data))
                if spec.is_file:
                    ctx.count('monitor:file-template pickles scanned')
                if hasattr(cur, '_v_blocks'):
                    ctx.count('pickles of a cooked template')
                if type(new) is not type(cur):
                    problems.append('restored object is a %s' % type(new).__name__)
                for p in problems:
                    bad(p, pickle_length=len(data), pickle_head=repr(data[:300]))
                self.scramble(cur, spec)
                cur = new
                restored_by.append('pickle')
            elif op == 'dc':
                try:
                    new = copy.deepcopy(cur)
                except Exception as e:
                    if U.own_refusal(cur, copy.deepcopy) == (type(e).__name__, str(e)):
                        ctx.count('deepcopies refused by a default value itself (template kept)')
                        continue
                    bad('deepcopy of the template raised %s: %s' % (type(e).__name__, str(e)[:200]))
                    return
                ctx.count('monitor:deepcopies')
                self.scramble(cur, spec)
                cur = new
                restored_by.append('deepcopy')
            elif op == 'cp':
                # the flavour is a function of the case (replayable): position in the history + protocol
                flavour = ('copy.copy', 'state transfer')[(len(done) + proto) % 2]
                try:
                    if flavour == 'copy.copy':
                        new = copy.copy(cur)
                        state = None
                    else:
                        state = cur.__getstate__()
                        new = type(cur).__new__(type(cur))
                        if hasattr(new, '__setstate__'):
                            new.__setstate__(state)
                        else:
                            new.__dict__.update(state)
                except Exception as e:
                    bad('%s of the template raised %s: %s' % (flavour, type(e).__name__, str(e)[:200]))
                    return
                ctx.count('monitor:copies made from the state (%s)' % flavour)
                if hasattr(cur, '_v_blocks'):
                    ctx.count('state copies of a cooked template')
                problems = U.scan_state(state, new, spec)
                ctx.count('monitor:states scanned')
                if type(new) is not type(cur):
                    problems.append('the copy is a %s' % type(new).__name__)
                if new is cur:
                    problems.append('the copy is the template itself')
                for p in problems:
                    bad(p, flavour=flavour)
                self.scramble(cur, spec, shallow=True)
                cur = new
                restored_by.append(flavour)
            elif op in ('m0', 'm1', 'm2'):
                j = int(op[1])
                source = spec.paths[j] if spec.is_file else spec.src[j]
                try:
                    if j == 2 and spec.munge_defaults:
                        mapping, kw = U.DEFAULTS[spec.defaults](2)
                        cur.munge(source, mapping, **kw)
                        U.set_vars(cur, spec, 2)
                        def_idx = 2
                        ctor_mapping = mapping
                        ctx.count('munges replacing the defaults')
                    else:
                        cur.munge(source)
                except Exception as e:
                    bad('munge raised %s: %s' % (type(e).__name__, str(e)[:200]))
                    return
                src_idx = j
                ctx.count('monitor:munges')
            elif op == 'ck':
                try:
                    cur.cook()
                except Exception as e:
                    bad('cook raised %s: %s' % (type(e).__name__, str(e)[:200]))
                    return
                ctx.count('monitor:cooks')
        if self.wlog.log:
            for w in set(self.wlog.log):
                ctx.table('shared-state writes during render (Class.attr -> histories)', w)
                ctx.count('write-log: histories writing %s during render' % w)
            ctx.count('histories with a shared-state write during render')

    # -- mechanism classifiers (narrow; keyed by what the case exercises, never by values)
    def tree_sort_applies(self, spec, src_idx):
        src = spec.src[src_idx]
        return '<dtml-tree' in src and ' sort=' in src and 'rootown' in spec.keys

    def classify_mutation(self, spec, src_idx, before, after):
        """dtml-tree sort= sorts, in place, the very list object the node's branches method returned.
        Recognised by: the current source has a tree tag with sort=, the tree hands out its own child
        lists (NodeOwn.tpValues returns self.kids), and the ONLY change is that such child lists are
        now ordered by the sort attribute (equal once both sides are ordered that way)."""
        U = self.U
        if self.tree_sort_applies(spec, src_idx) and \
                U.sort_own_kids(before) == U.sort_own_kids(after) == after:
            return KNOWN_TREE_SORT
        return None


def _short(x, n=200):
    s = repr(x)
    return s if len(s) <= n else s[:n] + '...(%d)' % len(s)


# ---------------------------------------------------------------- shard
def run(ctx, spec):
    from vlib.reach import Reach
    from DocumentTemplate import DT_In, DT_String
    h = Harness(ctx)
    reach = Reach()
    reach.watch('String.__call__', DT_String.String.__call__)
    reach.watch('String.cook', DT_String.String.cook)
    reach.watch('String.munge', DT_String.String.munge)
    reach.watch('String.__getstate__', DT_String.String.__getstate__)
    reach.watch('FileMixin.read_raw', DT_String.FileMixin.read_raw)
    reach.watch('InClass.renderwb', DT_In.InClass.renderwb)
    reach.watch('InClass.renderwob', DT_In.InClass.renderwob)
    reach.watch('InClass.sort_sequence', DT_In.InClass.sort_sequence)
    reach.watch('InClass.reverse_sequence', DT_In.InClass.reverse_sequence)
    h.setup()
    h.load_reference()
    reach.start()
    try:
        U = h.U
        ctx.count('templates in catalogue', len(U.SPECS) if ctx.shard == 0 else 0)
        protos = (2, pickle.HIGHEST_PROTOCOL)
        hists = list(all_histories(MAXLEN[ctx.tier]))
        n = 0
        for spec_ in U.SPECS:
            for hi, hist in enumerate(hists):
                for persistent in (True, False):
                    n += 1
                    if n % ctx.nshards != ctx.shard:
                        continue
                    h.run_history(spec_.name, hist, persistent, protos[(hi + persistent) % 2], 1 + hi % 3)
        # seeded longer histories
        rng = ctx.rng
        weights = [3, 3, 3, 2, 2, 2, 2, 1, 1, 2]
        for _ in range(NSEEDED[ctx.tier] // ctx.nshards):
            spec_ = rng.choice(U.SPECS)
            hist = tuple(rng.choices(OPS_SEEDED, weights, k=rng.randint(4, 8)))
            h.run_history(spec_.name, hist, rng.random() < 0.5, rng.choice(protos + (0, 3)), rng.randint(1, 3),
                          origin='seeded')
        ctx.count('write-log: classes instrumented', len(h.wlog.installed) if ctx.shard == 0 else 0)
        ctx.count('write-log: attribute writes during render', h.wlog.total)
    finally:
        reach.stop()
        reach.report(ctx)
        h.teardown()
    if h.tmpdir is None and ctx.shard == 0:
        ctx.count('temporary file-template directory removed')


def finish(agg):
    c = agg['counters']
    inc = []
    for k in ('monitor:renders compared with a fresh template', 'monitor:caller-data fingerprints compared',
              'monitor:pickles scanned', 'monitor:file-template pickles scanned', 'monitor:deepcopies',
              'monitor:munges', 'monitor:cooks', 'pickles of a cooked template', 'munges replacing the defaults',
              'histories:seeded', 'write-log: classes instrumented',
              'monitor:fresh results compared with the pristine reference',
              'monitor:copies made from the state (copy.copy)', 'monitor:copies made from the state (state transfer)',
              'monitor:states scanned', 'state copies of a cooked template',
              'monitor:results of a twin (same source text as another template of the process, other encoding) '
              'compared with its pristine reference',
              # defaults / variables of special value types: every way of restoring that the values themselves
              # allow must have been followed by a compared render
              'monitor:renders of a template with special defaults compared after pickle',
              'monitor:renders of a template with special defaults compared after deepcopy',
              'monitor:renders of a template with special defaults compared after copy.copy',
              'monitor:renders of a template with special defaults compared after state transfer',
              'monitor:renders of a template with tainted defaults compared after copy.copy',
              'monitor:renders of a template with tainted defaults compared after state transfer'):
        if not c.get(k):
            inc.append('deciding monitor never evaluated: ' + k)
    for r in ('String.__call__', 'String.cook', 'String.munge', 'String.__getstate__', 'FileMixin.read_raw',
              'InClass.renderwb', 'InClass.renderwob', 'InClass.sort_sequence', 'InClass.reverse_sequence'):
        if not c.get('reach:' + r):
            inc.append('anchor never entered: ' + r)
    for o in ('render outcome:ok', 'render outcome:exc'):
        if not c.get(o):
            inc.append('no render with ' + o)
    # (that tainted defaults refuse to be pickled / deep-copied is an observation about the values on the unchanged
    # tree, counted but never required: were such a template restored after all, its renders are compared)
    nh = len(list(all_histories(MAXLEN[agg['tier']])))
    return {'inconclusive': inc,
            'coverage': {'exhaustive': True,
                         'histories_per_template_and_mode': nh,
                         'operations': list(OPS),
                         'operations_with_state_copy': list(OPS_CP),
                         'explanation': 'exhaustive over all operation histories up to length %d over the 9 '
                                        'operations, plus all histories up to that length over the reduced alphabet '
                                        '%s that contain a copy made from the state, for every catalogue template in '
                                        'both caller-data modes; the seeded histories (length 4..8, all 10 operations) '
                                        'are extra' % (MAXLEN[agg['tier']], '/'.join(OPS_CP))}}


def replay(ctx, rep):
    h = Harness(ctx)
    h.setup()
    h.load_reference()
    try:
        c = rep['case']
        h.run_history(c['template'], tuple(c['history']), c['persistent'], c['proto'], c['closing'],
                      origin='replay')
    finally:
        h.teardown()
