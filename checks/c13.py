"""C13 — sorting yields a stable, correctly ordered permutation and never mutates input.

Monitor: every element prints itself through a ``__str__`` that logs its identity, so the log
is the list of shown objects in display order; the real ``InClass.sort_sequence`` and
``InClass.reverse_sequence`` are wrapped and their inputs/results recorded; the caller's list
is a mutator-logging list subclass (or a plain list / tuple) fingerprinted before and after.
Oracle (vlib/c13_util.py): pairwise ``<`` / ``==`` on the keys, never a re-sort; reverse and
batching are decided against the engine's own plain rendering of the same input.

Part D hands dtml-in everything else a caller may hand it (iterators, generators, map objects,
dict views, sets, classes with only ``__iter__`` / only ``__getitem__``, deque, UserList ...):
the same output-level demands (every element exactly once, order, stability, reverse, window),
"sequence untouched" for whatever can be walked twice.  The wrappers on the two internal
functions never walk an argument that is not a list or tuple (that would change what the
engine sees) and are diagnosis only.  Part E enters the same compiled template again from
inside its own sorted loop and compares both activations with their stand-alone renderings.

In every part the keys are not only called k1, k2: two cases in three take names of another
spelling class (vlib/c13_util.py NAME_CLASSES), most of them with a decoy attribute whose name is a
case variant of the key name, and half of them with namespace variables called like the keys.  The
pairwise oracle goes on to the next key when a key is None/missing on both sides (lexicographic
order); only when no key decides is such a pair "in unspecified mutual order".
"""
import itertools

from vlib import c13_util as U

ID = 'C13'
LEVEL = 'exploration'
RULE = ('A: every list of length 0..5 (thorough 0..6) over a 3-value key domain plus None/missing, for '
        'each key type {int,str,float,bool,date,Decimal} x every single-key spec form '
        '(k, k/cmp, k/cmp/asc, k/cmp/desc, and k/nocase[/asc|/desc] for str) x element kind '
        '{object, mapping, 2-tuple} x key delivery {plain attribute, zero-arg callable}; and every '
        'None-free list for the element sorts (sort, sort="", sort=sequence-item) x {plain values, '
        'orderable objects, 2-tuples keyed by the value}.  B: every list of length 0..3 (thorough '
        '0..4) of (k1,k2) rows over two 2-value domains plus None for 12 type pairs x every pair of '
        'field forms.  C: seeded lists of length 0..8.  The way the spec reaches the tag (sort= '
        'quoted/unquoted, sort_expr), the container (list, tuple, mutator-logging list), the '
        'None-vs-missing representation, the reverse mode and the batch window rotate with the '
        'case counter.  D: the sequence of the caller is something else than a list or tuple: one-shot '
        'iterables {iter(list), generator, map object, itertools.chain}, re-iterable non-subscriptable '
        'ones {dict values / keys / items views, a dict, set, frozenset, a class with only __iter__, '
        'with __iter__ and __len__, with only __getitem__} and subscriptable non-lists {deque, '
        'UserList, a class with __getitem__ and __len__}: for every such kind x key type x every '
        'single-key form, element sort and no sort, every list of length 0..2 (thorough 0..4); every '
        'list of 0..2 (thorough 0..3) two-key rows for the type and form pairs of B; and seeded lists '
        'of 0..8; in D the element kind, key delivery, route, how the tag gets the sequence (name, '
        'expr="seq", "mk()" calling a factory) and the spelling of the tag (<dtml-in>, <!--#in-->, '
        '%(in)[ of String) are drawn with the seeded generator, the element kind among the kinds the '
        'container can hold.  Every case is rendered plain, '
        'reversed and batched: a re-iterable object is the same object in the three renderings, a '
        'one-shot iterable is made anew over the same elements.  E: seeded cases (lists of 1..8 '
        'object elements, single and double keys, element sorts, list / tuple containers) in which '
        'showing one chosen element of the loop renders the SAME compiled template over a second '
        'sequence of 0..8 elements (a template entered again from inside its own sorted loop, as a '
        'recursive tree or site map does), plain / reversed / batched: both activations must show what '
        'they show when rendered alone.  Non-trivial: at least two elements '
        '(every 2-element list decides an order or a tie); distinct = distinct (spec, route, kind, '
        'delivery, container, key types, rows, reverse mode, window, sequence origin, tag spelling, key names, '
        'decoy, shadowing).  Key names: in every part one keyed case in three calls its keys k1,k2; the others '
        'take, with the spread case counter, one of the name classes {Capitalised, camelCase, UPPER, '
        'underscore/digit, a word of the spec language (cmp, nocase, asc, desc, sort, reverse ...), names '
        'differing only in case (Title,title), non-ASCII, and -- for mapping elements -- names that are no '
        'identifiers (sort-key, "my key", a.b, x:y)} (which entry of a class a shard uses is fixed per '
        'shard), one of the decoy spellings {none, lower, upper, swapcase, capitalize}: every element then '
        'also carries an attribute / mapping key spelled that way whose values run the other way round and '
        'which is present where the key is missing, and (one in two) variables called like the keys in the '
        'namespace the template is called with.  The seeded parts C, D, E also draw three-key specs.')
ASSUMPTIONS = [
    'under /desc the statement does not say whether None/missing keys stay first or are inverted to '
    'the end: either is accepted, but one reading per key for the whole list',
    'a key that is None/missing on both sides does not tell two elements apart: "sort=k1,k2 orders '
    'lexicographically", so the next key of the spec decides their order (None/missing = one smallest '
    'value); if no key of the spec decides and one was None/missing on both sides the pair is "in '
    'unspecified mutual order" and nothing is demanded of it, not even the input order',
    'specs of three keys (seeded parts only) are held to the same lexicographic rule as sort=k1,k2',
    'the key is the attribute / mapping key of the ELEMENT spelled exactly as in the spec: another '
    'attribute whose name differs in case, or a namespace variable of the same name, must not matter; '
    'the function and direction words are only written in lower case (other spellings are not stated)',
    'element sorts (empty sort, sequence-item) are only run on None-free elements: the None-first '
    'rule is stated for keys of sort=key; sort_expr yielding the word "sequence-item" is not run',
    '/nocase only with str keys; locale comparators and user-defined comparison functions are not '
    'part of the statement and are not run; mixed incomparable key types are not generated',
    'batch windows use only start= and size= inside 1..length (window model is C11 business)',
    'the "original order" of a container is the order in which it yields its elements: for a set / '
    'frozenset that is the iteration order of that very object, read once before rendering; input '
    'positions in a report on a set refer to that order',
    '"caller\'s sequence left unmodified" is demanded of every object that can be walked twice '
    '(same members, same order, elements unchanged); a one-shot iterator is consumed by design and '
    'only its elements (and the private list it was drawn from) are compared',
    'set members / dict keys must be hashable and pairwise unequal and dict.items() yields 2-tuples '
    'with unequal first parts: where the elements of a case do not allow the container drawn for '
    'it, a dict values view is used instead (counted)',
    'wrappers and entry counters on engine internals (sort_sequence, reverse_sequence, SortBy, ...) '
    'are diagnosis: the verdict and `inconclusive` rest on what was shown and on the caller\'s '
    'objects; the wrappers do not walk an argument that is not a list or tuple',
]
SHARD_TIMEOUT = {'quick': 900, 'thorough': 3000}
NSHARDS = {'quick': 16, 'thorough': 48}

MAXLEN_A = {'quick': 5, 'thorough': 6}
MAXLEN_B = {'quick': 3, 'thorough': 4}
NSEEDED = {'quick': 24000, 'thorough': 300000}
# part D (containers other than list / tuple)
MAXLEN_D1 = {'quick': 2, 'thorough': 4}
MAXLEN_D2 = {'quick': 2, 'thorough': 3}
NSEEDED_D = {'quick': 12000, 'thorough': 100000}
NSEEDED_E = {'quick': 4000, 'thorough': 40000}
SORT_CLASSES = ['key1/sort', 'key1/sort_unq', 'key1/sort_expr', 'key2/sort', 'key2/sort_expr',
                'isort/sort', 'isort/sort_expr', 'nosort']
LAWS = ['every element shown exactly once', 'reverse', 'reverse_expr', 'batch', 'batch of sorted']

KEYED_KINDS = ['obj', 'map', 'pair']
ISORT_KINDS = ['plain', 'cmpobj', 'pair']
ISORT_FORMS = ['sort', 'sort=""', 'sort=sequence-item']
CONTAINERS = ['list', 'watched', 'tuple']
REVMODES = ['reverse', 'reverse_expr1', 'reverse_expr0']
SHADOW = 'shadow'      # value of a namespace variable called like a key (see namespace())
MECH_NONBASIC = 'single-key-nonbasic-type-becomes-smallest'
MECH_NOCASE_NONE = 'nocase-none-key'


def plan(tier, seed):
    return [{} for _ in range(NSHARDS[tier])]


# ---------------------------------------------------------------- templates
SYNTAXES = ['dtml', 'comment', 'string']
SEQFROMS = ['name', 'expr', 'call']
SEQFROM_TEXT = {'name': 'seq', 'expr': 'expr="seq"', 'call': '"mk()"'}
SHAPE = {   # (open, close-of-open, variable, end tag) of the three spellings of the same tag
    'dtml': ('<dtml-in ', '>', '<dtml-var %s>', '</dtml-in>'),
    'comment': ('<!--#in ', '-->', '<!--#var %s-->', '<!--#/in-->'),
    'string': ('%(in ', ')[', '%%(%s)s', '%(in)]'),
}


def source(case, revmode, batch):
    opn, opn_end, var, end = SHAPE[case.get('syntax', 'dtml')]
    parts = [opn + SEQFROM_TEXT[case.get('seqfrom', 'name')]]
    route = case['route']
    if case['isort']:
        if route == 'sort_expr':
            parts.append('sort_expr="sx"')
        else:
            parts.append(case['form'])
    elif case['spec'] is not None:
        if route == 'sort':
            parts.append('sort="%s"' % case['spec'])
        elif route == 'sort_unq':
            parts.append('sort=%s' % case['spec'])
        else:
            parts.append('sort_expr="sx"')
    if case['kind'] in ('map', 'pairmap'):
        parts.append('mapping')
    if revmode == 'reverse':
        parts.append('reverse')
    elif revmode in ('reverse_expr1', 'reverse_expr0'):
        parts.append('reverse_expr="rv"')
    if batch:
        parts.append('start=st size=sz')
    body = var % 'sequence-item' + ';'
    if case['kind'] in ('pair', 'pairmap'):
        body = var % 'sequence-key' + '=' + body
    return ' '.join(parts) + opn_end + body + end


class Templates:
    def __init__(self):
        self.cache = {}

    def get(self, src):
        from DocumentTemplate.DT_HTML import HTML
        from DocumentTemplate.DT_String import String
        t = self.cache.get(src)
        if t is None:
            t = self.cache[src] = (String if src.startswith('%(in ') else HTML)(src)
        return t


# ---------------------------------------------------------------- monitors on the real functions
class SortMonitor:
    """Diagnosis on two internal functions (the verdict never depends on their being there).

    A list or tuple argument is read before and after the call.  Anything else (the engine's
    wrapper around an iterable, a user class, a deque ...) is NOT touched: walking it here would
    change what the engine sees next; its result is compared with the elements the case put in."""

    def __init__(self, ctx):
        self.ctx = ctx
        self.sorts = []
        self.reverses = []
        self.expected = []          # the input elements of the current rendering, in input order

    def install(self):
        from DocumentTemplate import DT_In
        cls = getattr(DT_In, 'InClass', None)
        real_sort = getattr(cls, 'sort_sequence', None)
        real_rev = getattr(cls, 'reverse_sequence', None)
        mon = self

        def sort_sequence(self_, sequence, *a, **kw):
            before = [x for x in sequence] if isinstance(sequence, (list, tuple)) else None
            r = real_sort(self_, sequence, *a, **kw)
            mon.sorts.append((sequence, before, r))
            return r
        sort_sequence.__wrapped__ = real_sort

        def reverse_sequence(self_, sequence, *a, **kw):
            before = [x for x in sequence] if isinstance(sequence, (list, tuple)) else None
            r = real_rev(self_, sequence, *a, **kw)
            mon.reverses.append((sequence, before, r))
            return r
        reverse_sequence.__wrapped__ = real_rev
        if real_sort is not None:
            cls.sort_sequence = sort_sequence
        if real_rev is not None:
            cls.reverse_sequence = reverse_sequence

    def clear(self):
        del self.sorts[:]
        del self.reverses[:]

    def problems(self):
        """postconditions of the recorded calls (identity level)."""
        ctx = self.ctx
        out = []
        want = [U.norm_id(x) for x in self.expected]
        for seq, before, r in self.sorts:
            if before is None:
                ctx.count('monitor:sort_sequence result vs case elements (argument not a list/tuple)')
                try:
                    got = sorted(U.norm_id(x) for x in r)
                except TypeError:
                    got = None
                if got != sorted(want):
                    out.append(('permutation', 'sort_sequence result is not a permutation (by identity) of '
                                'the elements of the iterable: %d in, %s out'
                                % (len(want), len(r) if got is not None else '?')))
                continue
            ctx.count('monitor:sort_sequence postcondition evaluations')
            now = [x for x in seq]
            if len(now) != len(before) or any(a is not b for a, b in zip(now, before)):
                out.append(('mutation', 'sort_sequence changed its input sequence'))
            if sorted(map(id, r)) != sorted(map(id, before)):
                out.append(('permutation', 'sort_sequence result is not a permutation (by identity) '
                            'of its input: %d in, %d out' % (len(before), len(r))))
        for seq, before, r in self.reverses:
            if before is None:
                ctx.count('monitor:reverse_sequence result vs case elements (argument not a list/tuple)')
                try:
                    got = [U.norm_id(x) for x in r]
                except TypeError:
                    got = None
                if got != want[::-1]:
                    out.append(('reverse', 'reverse_sequence result is not the exact reverse of the '
                                'elements of the iterable'))
                continue
            ctx.count('monitor:reverse_sequence postcondition evaluations')
            now = [x for x in seq]
            if len(now) != len(before) or any(a is not b for a, b in zip(now, before)):
                out.append(('mutation', 'reverse_sequence changed its input sequence'))
            if len(r) != len(before) or any(a is not b for a, b in zip(r, reversed(before))):
                out.append(('reverse', 'reverse_sequence result is not the exact reverse of its input'))
        return out


# ---------------------------------------------------------------- classifier of known findings
def classify(case, symptom, exc=None):
    """Mechanism key from the case and the symptom; None = not a known mechanism."""
    if symptom in ('order', 'stability', 'none'):
        # single key, delivered as a plain (non-callable) attribute whose type the engine's
        # basic_type table does not list: the key is replaced by the _Smallest singleton
        if (not case['isort'] and case['spec'] is not None and len(case['fields']) == 1
                and case.get('delivery') == 'plain' and case['ktypes'][0] in U.NONBASIC):
            return MECH_NONBASIC
    if symptom == 'raise' and exc is not None:
        if (isinstance(exc, AttributeError) and "'lower'" in str(exc) and not case['isort']
                and case['spec'] is not None):
            for j, f in enumerate(case['fields']):
                if f[1] == 'nocase' and any(r[j] is None or r[j] == U.MISSING for r in case['rows']):
                    return MECH_NOCASE_NONE
    return None


# ---------------------------------------------------------------- one case
def fields_of(case):
    if case['isort']:
        return [(None, None)]
    return [(f[1], f[2]) for f in case['fields']]


def namespace(case, src, seq, revmode, batch):
    ns = {'seq': seq}
    if case.get('seqfrom') == 'call':
        ns = {'mk': lambda: seq}
    if 'sort_expr="sx"' in src:
        ns['sx'] = '' if case['isort'] else case['spec']
    if revmode == 'reverse_expr1':
        ns['rv'] = 1
    elif revmode == 'reverse_expr0':
        ns['rv'] = 0
    if batch:
        ns['st'], ns['sz'] = batch
    if case.get('shadow') and not case['isort'] and case['spec'] is not None:
        # variables of the same names as the keys in the namespace the template is called with:
        # the key is the attribute / mapping key of the ELEMENT
        for nm in U.key_names(case):
            ns.setdefault(nm, SHADOW)
    return ns


def decode(case, rows, log, out, problems, whole):
    """the shown Row objects of one output, or None; whole: every element must be there."""
    toks = out.split(';')
    if toks[-1] != '':
        problems.append(('output', 'unparseable output %r' % out[:80]))
    toks = toks[:-1]
    shown = None
    if case['kind'] == 'plain':
        by_tok = {}
        for r in rows:
            by_tok.setdefault(r.token, []).append(r)
        shown = []
        for tk in toks:
            lst = by_tok.get(tk)
            if not lst:
                problems.append(('permutation', 'shown value %r is not (or no longer) in the input' % tk))
                shown = None
                break
            shown.append(lst.pop(0))   # equal plain values are indistinguishable in text
    else:
        by_id = dict((id(r.ident), r) for r in rows)
        shown = []
        for o in log.shown:
            r = by_id.get(id(o))
            if r is None:
                problems.append(('permutation', 'shown object is not an input element'))
                shown = None
                break
            shown.append(r)
        if shown is not None and [r.token for r in shown] != toks:
            problems.append(('output', 'text %r does not match the logged elements %r'
                             % (toks[:8], [r.token for r in shown][:8])))
    if shown is not None:
        if len(set(r.idx for r in shown)) != len(shown):
            problems.append(('permutation', 'an element is shown twice'))
        if whole and len(shown) != len(rows):
            problems.append(('permutation', '%d elements shown, %d in the input' % (len(shown), len(rows))))
    return shown


def render(ctx, mon, templates, case, data, rows, log, revmode, batch, fp0, extra=None):
    """One rendering; returns the list of shown Row objects or None (violation recorded).
    data: U.Source -- the same object every time, a new iterator for the one-shot kinds."""
    src = source(case, revmode, batch)
    t = templates.get(src)
    seq = data.get()
    ns = namespace(case, src, seq, revmode, batch)
    mon.expected = data.items
    log.clear()
    mon.clear()
    vcase = dict(case, revmode=revmode, batch=batch, **(extra or {}))
    label = '%s|%s' % (revmode or 'plain', 'batch' if batch else 'all')
    try:
        out = t(**ns)
    except Exception as e:
        mech = classify(case, 'raise', e)
        ctx.violation('rendering %s raised %s: %s' % (src, type(e).__name__, str(e)[:160]),
                      vcase, mech=mech, key='raise_%s_%s' % (type(e).__name__, case['tag']),
                      detail={'source': src})
        ctx.count('outcome:raised')
        return None
    ctx.count('renders:' + label)
    problems = []
    # -- the caller's sequence and its elements
    if U.fingerprint(data, rows) != fp0:
        problems.append(('mutation', "the caller's sequence or one of its elements changed"))
    if isinstance(seq, U.WatchedList) and seq.mutations:
        problems.append(('mutation', "mutators called on the caller's list: %r" % seq.mutations[:4]))
    ctx.count('monitor:input fingerprint comparisons')
    # -- recorded calls of the real functions
    problems.extend(mon.problems())
    # -- identities of the shown elements
    shown = decode(case, rows, log, out, problems, not batch)
    if problems:
        report(ctx, vcase, problems, src, out)
        if any(p[0] in ('permutation', 'output') for p in problems):
            return None
    return shown


def shown_ids(case, shown):
    """what distinguishes shown elements: identity, or the value for plain values (equal plain
    values cannot be told apart in the output, so they are not told apart here either)."""
    if case['kind'] == 'plain':
        return [r.token for r in shown]
    return [r.idx for r in shown]


def report(ctx, vcase, problems, src, out, extra=None):
    symptoms = sorted(set(p[0] for p in problems))
    mech = None
    mechs = set(classify(vcase, s) for s in symptoms)
    if len(mechs) == 1:
        mech = mechs.pop()
    for s in symptoms:
        ctx.count('symptom:' + s)
    detail = {'source': src, 'output': out[:400] if isinstance(out, str) else repr(out)[:400]}
    if extra:
        detail.update(extra)
    ctx.violation('; '.join(p[1] for p in problems[:4]), vcase, mech=mech,
                  key='%s_%s' % ('+'.join(symptoms), vcase['tag']), detail=detail)


def spec_class(case):
    return '%d keys, %s' % (len(case['fields']),
                            'function or direction named' if '/' in case['spec'] else 'names only')


def run_case(ctx, mon, templates, case, counter):
    """Plain + reversed + batched rendering of one input."""
    log = U.Log()
    data, rows = U.build(case, log)
    n = len(rows)
    fields = fields_of(case)
    cont = data.name
    if case['isort']:
        sclass = 'isort/' + case['route']
    elif case['spec'] is None:
        sclass = 'nosort'
    else:
        sclass = 'key%d/%s' % (len(fields), case['route'])
    revmode = REVMODES[counter % 3]
    over_rev = (counter // 3) % 2 == 1
    if n:
        st = 1 + (counter // 5) % n
        sz = 1 + (counter // 11) % n
    else:
        st, sz = 1, 2
    ctx.case((case['tag'], case['route'], case['kind'], case.get('delivery'), case['container'],
              tuple(case['ktypes']), tuple(map(tuple, case['rows'])), revmode, over_rev, st, sz,
              case.get('seqfrom', 'name'), case.get('syntax', 'dtml'),
              case['spec'], case.get('decoy'), case.get('shadow')),
             nontrivial=n >= 2)
    for j, kt in enumerate(case['ktypes']):
        form = case['form'] if case['isort'] else U.field_text('k', *fields[j])
        if case['spec'] is None and not case['isort']:
            form = '(no sort)'
        ctx.table('keytype x field form', '%s | %s' % (kt, form))
        ctx.table('keytype x kind/delivery', '%s | %s/%s' % (kt, case['kind'], case.get('delivery') or '-'))
    ctx.table('route', case['route'])
    ctx.table('container', cont)
    if cont != case['container']:
        ctx.count('container:%s not possible for these elements, %s used' % (case['container'], cont))
    ctx.table('sequence given by', case.get('seqfrom', 'name'))
    ctx.table('tag syntax', case.get('syntax', 'dtml'))
    ctx.table('length', n)
    ctx.table('number of keys', 0 if case['isort'] or case['spec'] is None else len(fields))
    fp0 = U.fingerprint(data, rows)
    plain = render(ctx, mon, templates, case, data, rows, log, None, None, fp0)
    if plain is None:
        return
    if n >= 2:
        ctx.table('container x law', '%s | every element shown exactly once' % cont)
    src0 = source(case, None, None)
    # ---- order, stability, None placement
    if case['spec'] is not None or case['isort']:
        stats = {}
        try:
            probs, reading = U.check_order(plain, fields, stats)
        except U.Incomparable as e:
            ctx.inconclusive('generator produced incomparable keys %r' % (e,))
            return
        ctx.count('oracle:order evaluations')
        ctx.count('oracle:pairs compared', n * (n - 1) // 2)
        if stats.get('later'):
            ctx.count('oracle:pairs with a key None/missing on both sides decided by a later key', stats['later'])
            ctx.table('later key decides after a key missing on both sides',
                      '%d keys | %s' % (len(fields), 'function or direction named' if '/' in (case['spec'] or '')
                                        else 'names only'))
        if stats.get('unspecified'):
            ctx.count('oracle:pairs in unspecified mutual order (no key decides, one None/missing on both sides)',
                      stats['unspecified'])
        if n >= 2:
            ctx.table('container x sort', '%s | %s' % (cont, sclass))
            if not case['isort']:
                ctx.table('key names x spec', '%s | %s' % (case.get('names', 'k1,k2'), spec_class(case)))
                ctx.table('decoy attribute (case variant of the key name)', case.get('decoy') or 'none')
                if case.get('shadow'):
                    ctx.count('oracle:order decided with namespace variables called like the keys')
                if case.get('decoy') and any(U.decoy_name(nm, case['decoy'], U.key_names(case))
                                             for nm in U.key_names(case)):
                    ctx.count('oracle:order decided with a decoy attribute on every element')
        for i, (fn, d) in enumerate(fields):
            if d == 'desc':
                ks = [r.keys[i] for r in rows]
                if any(k is None for k in ks) and any(k is not None for k in ks) and not probs:
                    di = [j for j, f in enumerate(fields) if f[1] == 'desc'].index(i)
                    ctx.count('desc:None/missing shown %s' % ('last' if reading[di] else 'first'))
                    ctx.table('desc None placement', '%s | %s' % (
                        case['ktypes'][i], 'last' if reading[di] else 'first'))
        if any(r.keys[i] is None for r in rows for i in range(len(fields))):
            ctx.count('oracle:cases with None/missing keys')
        if len(set(tuple(map(repr, r.keys)) for r in rows)) < n:
            ctx.count('oracle:cases with tied keys')
        if probs:
            report(ctx, dict(case, revmode=None, batch=None), probs, src0,
                   ';'.join(r.token for r in plain),
                   extra={'keys_in_shown_order': [repr(r.keys) for r in plain],
                          'input_positions_in_shown_order': [r.idx for r in plain]})
    else:
        # no sort at all: only here so that `reverse` alone is covered
        if n >= 2:
            ctx.table('container x sort', '%s | %s' % (cont, sclass))
        if [r.idx for r in plain] != list(range(n)):
            report(ctx, dict(case, revmode=None, batch=None),
                   [('order', 'unsorted rendering does not show the input order')], src0, '')
    # ---- reverse
    rev = render(ctx, mon, templates, case, data, rows, log, revmode, None, fp0)
    want = plain if revmode == 'reverse_expr0' else plain[::-1]
    if rev is not None:
        ctx.count('oracle:reverse law evaluations')
        if n >= 2:
            ctx.table('container x law', '%s | %s' % (cont, 'reverse_expr' if revmode != 'reverse' else 'reverse'))
        if shown_ids(case, rev) != shown_ids(case, want):
            report(ctx, dict(case, revmode=revmode, batch=None),
                   [('reverse', '%s shows inputs %r, the plain rendering shows %r'
                     % (revmode, [r.idx for r in rev], [r.idx for r in plain]))],
                   source(case, revmode, None), '')
    # ---- batching (window over the plain or over the reversed order)
    if n:
        bmode = revmode if over_rev else None
        base = want if over_rev else plain
        win = render(ctx, mon, templates, case, data, rows, log, bmode, [st, sz], fp0)
        if win is not None:
            ctx.count('oracle:batch law evaluations')
            if n >= 2:
                ctx.table('container x law', '%s | batch%s' % (cont, ' of sorted' if sclass != 'nosort' else ''))
            exp = base[st - 1:min(n, st - 1 + sz)]
            if shown_ids(case, win) != shown_ids(case, exp):
                report(ctx, dict(case, revmode=bmode, batch=[st, sz]),
                       [('batch', 'start=%d size=%d %s shows inputs %r, expected the slice %r of %r'
                         % (st, sz, bmode or '', [r.idx for r in win], [r.idx for r in exp],
                            [r.idx for r in base]))],
                       source(case, bmode, [st, sz]), '')
    ctx.count('keyfn calls', log.keycalls)
    if ctx.shard == 0 and n >= 4 and counter % 97 == 0:
        ctx.sample({'source': src0, 'spec': case['spec'], 'kind': case['kind'],
                    'delivery': case.get('delivery'), 'key types': case['ktypes'],
                    'input keys': [repr(r.keys) for r in rows],
                    'shown (input positions)': [r.idx for r in plain],
                    'shown keys': [repr(r.keys) for r in plain],
                    revmode: [r.idx for r in rev] if rev is not None else None})


# ---------------------------------------------------------------- case construction
def mix(c):
    """spreads the case counter (deterministic): what is picked with it does not march in step with
    the enumeration of the lists."""
    c = (c + 0x9e37) * 2654435761 & 0xffffffff
    c ^= c >> 15
    c = c * 2246822519 & 0xffffffff
    return c ^ (c >> 13)


NAME_SALT = [0]     # the shard number: which entry of a name class (and from which position on) this shard uses


def name_keys(case, counter):
    """how the keys of the case are called (vlib/c13_util.py NAME_CLASSES): one case in three keeps
    k1,k2; the others take a name class and a decoy spelling with the (spread) case counter.  Which
    entry of the class, and from which of its three names on, is fixed per shard (every distinct spec
    text is one more template to compile: the shards share the spellings among them)."""
    m = mix(counter)
    if m % 3 == 0:
        case['names'], case['decoy'] = 'k1,k2', None
        return
    m //= 3
    classes = [c for c in U.NAME_CLASS_LIST[1:]
               if c not in U.MAPPING_ONLY_NAMES or case['kind'] in ('map', 'pairmap')]
    ci = m % len(classes)
    cls = classes[ci]
    m //= len(classes)
    entries = U.NAME_CLASSES[cls]
    salt = NAME_SALT[0] + ci
    entry = entries[salt % len(entries)]
    off = (salt // len(entries)) % 3
    for j, f in enumerate(case['fields']):
        f[0] = entry[(off + j) % 3]
    case['names'] = cls
    case['decoy'] = U.DECOYS[m % len(U.DECOYS)]
    case['shadow'] = bool((m // len(U.DECOYS)) % 2)
    case['spec'] = U.spec_text(case['fields'])


def rotate(case, counter):
    """choices that rotate with the case counter (deterministic, no rng)."""
    c = counter
    case['container'] = CONTAINERS[c % 3]
    c //= 3
    if case['isort']:
        case['route'] = 'sort_expr' if c % 4 == 3 else 'sort'
    elif case['spec'] is None:
        case['route'] = 'none'
    else:
        name_keys(case, counter)
        routes = ['sort', 'sort_expr', 'sort_unq'] if ',' not in case['spec'] else ['sort', 'sort_expr']
        case['route'] = routes[c % len(routes)]
        if case['route'] == 'sort_unq' and not U.unquotable(case['spec']):
            case['route'] = 'sort'
    return case


def none_repr(entry, counter, pos, delivery):
    """None of the abstract list -> None-valued or missing key."""
    if entry is not None:
        return entry
    return U.MISSING if (counter + pos) % 2 else None


def keyed_case(tag, ktypes, fields, kind, delivery, rows, counter, small=False):
    rows = [[none_repr(e, counter + j, i, delivery) for j, e in enumerate(row)]
            for i, row in enumerate(rows)]
    case = {'tag': tag, 'isort': False, 'ktypes': list(ktypes),
            'fields': [['k%d' % (j + 1), f[0], f[1]] for j, f in enumerate(fields)],
            'kind': kind, 'delivery': delivery, 'rows': rows, 'small': small}
    case['spec'] = U.spec_text(case['fields'])
    return rotate(case, counter)


def isort_case(tag, ktype, form, kind, rows, counter):
    case = {'tag': tag, 'isort': True, 'ktypes': [ktype], 'fields': [], 'form': form, 'spec': None,
            'kind': kind, 'rows': [[e] for e in rows], 'small': False}
    return rotate(case, counter)


def nosort_case(tag, ktype, kind, rows, counter):
    case = {'tag': tag, 'isort': False, 'ktypes': [ktype], 'fields': [['k1', None, None]], 'spec': None,
            'kind': kind, 'delivery': 'plain', 'rows': [[e] for e in rows], 'small': False}
    return rotate(case, counter)


def part_a(tier):
    """single-key and element-sort grids; yields (abstract description) lazily."""
    maxlen = MAXLEN_A[tier]
    for kt in U.KTYPES:
        nvals = len(U.KEYDOM[kt])
        vals = list(range(nvals)) + [None]
        for fn, d in U.forms_for(kt):
            for kind in KEYED_KINDS:
                for delivery in ('plain', 'callable'):
                    for n in range(maxlen + 1):
                        for row in itertools.product(vals, repeat=n):
                            yield ('key', kt, (fn, d), kind, delivery, row)
        for form in ISORT_FORMS:
            for kind in ISORT_KINDS:
                for n in range(maxlen + 1):
                    for row in itertools.product(range(nvals), repeat=n):
                        yield ('isort', kt, form, kind, None, row)
        for n in range(min(maxlen, 4) + 1):
            for row in itertools.product(range(nvals), repeat=n):
                yield ('nosort', kt, None, 'obj', None, row)


def type_pairs():
    ts = U.KTYPES
    out = []
    for i, t in enumerate(ts):
        out.append((t, t))
        out.append((t, ts[(i + 1) % len(ts)]))
    return out


def part_b(tier):
    maxlen = MAXLEN_B[tier]
    cells = [(a, b) for a in (0, 1, None) for b in (0, 1, None)]
    for t1, t2 in type_pairs():
        for f1 in U.forms_for(t1, reduced=True):
            for f2 in U.forms_for(t2, reduced=True):
                for n in range(maxlen + 1):
                    for rows in itertools.product(cells, repeat=n):
                        yield (t1, t2, f1, f2, rows)


def seeded_case(rng, counter):
    r = rng.random()
    n = rng.randint(0, 8)
    kt = rng.choice(U.KTYPES)
    nvals = len(U.KEYDOM[kt])
    if r < 0.12:
        rows = [rng.randrange(nvals) for _ in range(n)]
        return isort_case('C:isort', kt, rng.choice(ISORT_FORMS), rng.choice(ISORT_KINDS), rows, counter)
    kind = rng.choice(KEYED_KINDS + ['pairmap'])
    delivery = rng.choice(['plain', 'callable'])

    def entry(nv):
        x = rng.random()
        if x < 0.12:
            return None
        if x < 0.22:
            return U.MISSING
        return rng.randrange(nv)
    if r < 0.55:
        fields = [rng.choice(U.forms_for(kt))]
        rows = [[entry(nvals)] for _ in range(n)]
        kts = [kt]
    elif r < 0.88:
        kt2 = rng.choice(U.KTYPES)
        fields = [rng.choice(U.forms_for(kt)), rng.choice(U.forms_for(kt2))]
        # few distinct first keys so that the second key decides often
        rows = [[entry(min(nvals, 2)), entry(len(U.KEYDOM[kt2]))] for _ in range(n)]
        kts = [kt, kt2]
    else:
        # three keys: the same lexicographic rule once more (two values per key, so that the third
        # key decides often)
        kts = [kt, rng.choice(U.KTYPES), rng.choice(U.KTYPES)]
        fields = [rng.choice(U.forms_for(t)) for t in kts]
        if rng.random() < 0.25:
            fields = [(None, None)] * 3          # names only: the engine's other sorting route
        rows = [[entry(min(len(U.KEYDOM[t]), 2)) for t in kts] for _ in range(n)]
    case = {'tag': 'C:key%d' % len(kts), 'isort': False, 'ktypes': kts,
            'fields': [['k%d' % (j + 1), f[0], f[1]] for j, f in enumerate(fields)],
            'kind': kind, 'delivery': delivery, 'rows': rows, 'small': False}
    case['spec'] = U.spec_text(case['fields'])
    return rotate(case, counter)


def part_d1(tier):
    """every new container kind x key type x every single-key form / element sort / no sort x
    every list up to MAXLEN_D1 (element kind, delivery, route, ... are drawn per case)."""
    maxlen = MAXLEN_D1[tier]
    for cont in U.NEW_CONTAINERS:
        for kt in U.KTYPES:
            nvals = len(U.KEYDOM[kt])
            vals = list(range(nvals)) + [None]
            for form in U.forms_for(kt):
                for n in range(maxlen + 1):
                    for row in itertools.product(vals, repeat=n):
                        yield ('key', cont, kt, form, row)
            for form in ISORT_FORMS:
                for n in range(maxlen + 1):
                    for row in itertools.product(range(nvals), repeat=n):
                        yield ('isort', cont, kt, form, row)
            for n in range(maxlen + 1):
                for row in itertools.product(range(nvals), repeat=n):
                    yield ('nosort', cont, kt, None, row)


def part_d2(tier):
    maxlen = MAXLEN_D2[tier]
    cells = [(a, b) for a in (0, 1, None) for b in (0, 1, None)]
    for t1, t2 in type_pairs():
        for f1 in U.forms_for(t1, reduced=True):
            for f2 in U.forms_for(t2, reduced=True):
                for n in range(maxlen + 1):
                    for rows in itertools.product(cells, repeat=n):
                        yield (t1, t2, f1, f2, rows)


def vary(case, rng, cont):
    """part D: the container is given, the way the sequence and the tag are written is drawn."""
    case['container'] = cont
    case['seqfrom'] = rng.choice(SEQFROMS)
    case['syntax'] = rng.choice(SYNTAXES)
    if case['syntax'] == 'string' and case['seqfrom'] == 'call':
        case['seqfrom'] = 'expr'       # no ")" inside a %(...) tag
    return case


def fitting(cont, kinds, row=None):
    """the element kinds of `kinds` that the container can hold (set members and dict keys must
    be hashable and pairwise unequal, dict.items() yields 2-tuples); all of them if none fits
    (vlib/c13_util.py then builds a dict values view instead)."""
    distinct = row is not None and len(set(row)) == len(row)
    if cont in U.NEED_DISTINCT:
        ok = [k for k in kinds if k in ('obj', 'pair') or (distinct and k in ('plain', 'cmpobj'))]
    elif cont == 'dict_items':
        ok = [k for k in kinds if k == 'pairmap' or (k == 'pair' and (row is None or distinct))]
    else:
        ok = kinds
    return ok or kinds


def run_part_d(ctx, mon, templates):
    rng = ctx.rng
    counter = 0
    for kind_, cont, kt, form, row in part_d1(ctx.tier):
        counter += 1
        if counter % ctx.nshards != ctx.shard:
            continue
        c = rng.randrange(1 << 20)
        if kind_ == 'key':
            case = keyed_case('D:key1', [kt], [form], rng.choice(fitting(cont, KEYED_KINDS + ['pairmap'])),
                              rng.choice(['plain', 'callable']), [[e] for e in row], c)
        elif kind_ == 'isort':
            case = isort_case('D:isort', kt, form, rng.choice(fitting(cont, ISORT_KINDS, row)), list(row), c)
        else:
            case = nosort_case('D:nosort', kt, rng.choice(fitting(cont, ['obj', 'pair'])), list(row), c)
        ctx.count('part D cases (containers, single key / element sort / no sort)')
        run_case(ctx, mon, templates, vary(case, rng, cont), rng.randrange(1 << 20))
    for t1, t2, f1, f2, rows in part_d2(ctx.tier):
        counter += 1
        if counter % ctx.nshards != ctx.shard:
            continue
        cont = rng.choice(U.NEW_CONTAINERS)
        case = keyed_case('D:key2', [t1, t2], [f1, f2], rng.choice(fitting(cont, KEYED_KINDS + ['pairmap'])),
                          rng.choice(['plain', 'callable']), [list(r) for r in rows],
                          rng.randrange(1 << 20), small=True)
        ctx.count('part D cases (containers, two keys)')
        run_case(ctx, mon, templates, vary(case, rng, cont), rng.randrange(1 << 20))
    for _ in range(NSEEDED_D[ctx.tier] // ctx.nshards):
        case = seeded_case(rng, rng.randrange(1 << 20))
        case['tag'] = 'D' + case['tag'][1:]
        ctx.count('part D cases (containers, seeded)')
        run_case(ctx, mon, templates, vary(case, rng, rng.choice(U.NEW_CONTAINERS)), rng.randrange(1 << 20))


def reentrant_choices(case, inner_rows, counter):
    n, m = len(case['rows']), max(len(inner_rows), 1)
    revmode = ((None,) + tuple(REVMODES))[counter % 4]
    batched = (counter // 4) % 2 == 1
    batch_o = [1 + (counter // 8) % n, 1 + (counter // 64) % n] if batched else None
    batch_i = [1 + (counter // 512) % m, 1 + (counter // 4096) % m] if batched else None
    return revmode, batch_o, batch_i, counter % 7


def run_reentrant(ctx, mon, templates, case, inner_rows, revmode, batch_o, batch_i, at):
    """Part E: the same compiled dtml-in is entered again while it is still looping: showing
    one chosen element of the outer sequence renders the same template object over another
    sequence.  Each of the two activations must show what it shows when rendered alone."""
    icase = dict(case, rows=inner_rows)
    log_o, log_i = U.Log(), U.Log()
    data_o, rows_o = U.build(case, log_o)
    data_i, rows_i = U.build(icase, log_i)
    n = len(rows_o)
    batched = bool(batch_o)
    ctx.case(('E', case['route'], case['kind'], case.get('delivery'), case['container'], tuple(case['ktypes']),
              case['spec'], case.get('form'), tuple(map(tuple, case['rows'])), tuple(map(tuple, inner_rows)),
              revmode, tuple(batch_o or ()), tuple(batch_i or ()), at), nontrivial=n >= 2)
    fp_o, fp_i = U.fingerprint(data_o, rows_o), U.fingerprint(data_i, rows_i)
    alone_o = render(ctx, mon, templates, case, data_o, rows_o, log_o, revmode, batch_o, fp_o)
    alone_i = render(ctx, mon, templates, icase, data_i, rows_i, log_i, revmode, batch_i, fp_i)
    if alone_o is None or alone_i is None or not alone_o:
        return
    src = source(case, revmode, batch_o)
    t = templates.get(src)
    at = at % len(alone_o)
    state = {'calls': 0, 'out': None, 'exc': None, 'done': False}

    def hook(elem):
        state['calls'] += 1
        if state['calls'] - 1 != at or state['done']:
            return
        state['done'] = True
        log_i.clear()
        try:
            state['out'] = t(**namespace(icase, src, data_i.get(), revmode, batch_i))
        except Exception as e:
            state['exc'] = e
    log_o.hook = hook
    try:
        nested_o = render(ctx, mon, templates, case, data_o, rows_o, log_o, revmode, batch_o, fp_o,
                          extra={'inner_rows': inner_rows, 'inner_batch': batch_i, 'at': at})
    finally:
        log_o.hook = None
    vcase = dict(case, revmode=revmode, batch=batch_o, inner_rows=inner_rows, inner_batch=batch_i, at=at)
    what = 'the same compiled template rendered from inside its own loop (at shown element #%d)' % at
    if not state['done']:
        if nested_o is not None:
            ctx.inconclusive('part E: the inner rendering was never started')
        return
    problems = []
    if state['exc'] is not None:
        e = state['exc']
        problems.append(('reentry', 'inner rendering raised %s: %s' % (type(e).__name__, str(e)[:120])))
    else:
        got_i = decode(icase, rows_i, log_i, state['out'], problems, not batch_i)
        ctx.count('oracle:re-entered activation compared with the same rendering alone (inner)')
        if got_i is not None and shown_ids(icase, got_i) != shown_ids(icase, alone_i):
            problems.append(('reentry', 'inner activation shows inputs %r, alone it shows %r'
                             % ([r.idx for r in got_i], [r.idx for r in alone_i])))
        if U.fingerprint(data_i, rows_i) != fp_i:
            problems.append(('mutation', "the inner caller's sequence or one of its elements changed"))
    if nested_o is not None:
        ctx.count('oracle:re-entered activation compared with the same rendering alone (outer)')
        if n >= 2:
            ctx.table('re-entry', '%s | %s%s' % (
                'isort' if case['isort'] else 'key%d' % len(case['fields']), revmode or 'plain',
                ' batch' if batched else ''))
        if shown_ids(case, nested_o) != shown_ids(case, alone_o):
            problems.append(('reentry', 'outer activation shows inputs %r, alone it shows %r'
                             % ([r.idx for r in nested_o], [r.idx for r in alone_o])))
    if problems:
        for sy in sorted(set(p[0] for p in problems)):
            ctx.count('symptom:' + sy)
        ctx.violation(what + ': ' + '; '.join(p[1] for p in problems[:4]), vcase,
                      key='reentry_%s' % case['tag'], detail={'source': src})


def run_part_e(ctx, mon, templates):
    rng = ctx.rng
    for _ in range(NSEEDED_E[ctx.tier] // ctx.nshards):
        while True:
            case = seeded_case(rng, rng.randrange(1 << 20))
            if case['kind'] != 'plain' and case['rows']:
                break
        case['tag'] = 'E' + case['tag'][1:]
        inner_rows = [list(rng.choice(case['rows'])) for _ in range(rng.randint(0, 8))]
        ctx.count('part E cases (re-entered template, seeded)')
        run_reentrant(ctx, mon, templates, case, inner_rows,
                      *reentrant_choices(case, inner_rows, rng.randrange(1 << 20)))


# ---------------------------------------------------------------- shard
def make_reach():
    from DocumentTemplate import DT_In
    from vlib.reach import Reach
    from DocumentTemplate import DT_Util
    reach = Reach()

    def watch(label, owner, *path):
        # anchors are diagnosis: one that a refactoring has removed is simply not watched
        f = owner
        for name in path:
            f = getattr(f, name, None)
        if f is not None:
            try:
                reach.watch(label, f)
            except Exception:
                pass
    watch('InClass.sort_sequence', DT_In, 'InClass', 'sort_sequence')
    watch('InClass.reverse_sequence', DT_In, 'InClass', 'reverse_sequence')
    watch('make_sortfunctions', DT_In, 'make_sortfunctions')
    watch('SortBy.__call__', DT_In, 'SortBy', '__call__')
    watch('nocase', DT_In, 'nocase')
    watch('cmp', DT_In, 'cmp')
    watch('InClass.renderwb', DT_In, 'InClass', 'renderwb')
    watch('InClass.renderwob', DT_In, 'InClass', 'renderwob')
    watch('SequenceFromIter.__getitem__', DT_Util, 'SequenceFromIter', '__getitem__')
    return reach


def run(ctx, spec):
    NAME_SALT[0] = ctx.shard
    reach = make_reach()
    reach.start()
    mon = SortMonitor(ctx)
    mon.install()
    templates = Templates()
    counter = 0
    mine = 0
    for kind_, kt, form, kind, delivery, row in part_a(ctx.tier):
        counter += 1
        if counter % ctx.nshards != ctx.shard:
            continue
        mine += 1
        if kind_ == 'key':
            case = keyed_case('A:key1', [kt], [form], kind, delivery, [[e] for e in row], mine)
        elif kind_ == 'isort':
            case = isort_case('A:isort', kt, form, kind, list(row), mine)
        else:
            case = nosort_case('A:nosort', kt, kind, list(row), mine)
        ctx.count('part A cases')
        run_case(ctx, mon, templates, case, mine)
    for t1, t2, f1, f2, rows in part_b(ctx.tier):
        counter += 1
        if counter % ctx.nshards != ctx.shard:
            continue
        mine += 1
        kind = (KEYED_KINDS + ['pairmap'])[mine % 4]
        delivery = ('plain', 'callable')[(mine // 4) % 2]
        case = keyed_case('B:key2', [t1, t2], [f1, f2], kind, delivery, [list(r) for r in rows],
                          mine, small=True)
        ctx.count('part B cases')
        run_case(ctx, mon, templates, case, mine)
    rng = ctx.rng
    for _ in range(NSEEDED[ctx.tier] // ctx.nshards):
        mine += 1
        case = seeded_case(rng, rng.randrange(1 << 20))
        ctx.count('part C cases (seeded)')
        run_case(ctx, mon, templates, case, rng.randrange(1 << 20))
    run_part_d(ctx, mon, templates)
    run_part_e(ctx, mon, templates)
    ctx.count('templates compiled', len(templates.cache))
    reach.stop()
    reach.report(ctx)


# ---------------------------------------------------------------- driver side
def finish(agg):
    c = agg['counters']
    t = agg['tables']
    inc = []
    diag = []
    # deciding: comparisons made on what was shown and on the caller's objects
    for k in ('monitor:input fingerprint comparisons', 'oracle:order evaluations',
              'oracle:reverse law evaluations', 'oracle:batch law evaluations',
              'oracle:cases with None/missing keys', 'oracle:cases with tied keys',
              'oracle:re-entered activation compared with the same rendering alone (outer)',
              'oracle:re-entered activation compared with the same rendering alone (inner)',
              'oracle:pairs with a key None/missing on both sides decided by a later key',
              'oracle:order decided with a decoy attribute on every element',
              'oracle:order decided with namespace variables called like the keys'):
        if not c.get(k):
            inc.append('deciding monitor never evaluated: ' + k)
    # a later key deciding after a key that both elements miss: with and without a named function
    lk = t.get('later key decides after a key missing on both sides', {})
    for k in ('2 keys | names only', '2 keys | function or direction named',
              '3 keys | names only', '3 keys | function or direction named'):
        if not lk.get(k):
            inc.append('a later key never decided after a key missing on both sides: ' + k)
    # every way of calling the keys, in specs with and without a "/", with one and with two keys
    kn = t.get('key names x spec', {})
    gaps = ['%s | %s' % (cls, sc) for cls in U.NAME_CLASS_LIST
            for sc in ('1 keys, names only', '1 keys, function or direction named',
                       '2 keys, names only', '2 keys, function or direction named')
            if not kn.get('%s | %s' % (cls, sc))]
    if gaps:
        inc.append('key names never decided on lists of >= 2 elements: %s' % ', '.join(gaps[:8]))
    dc = t.get('decoy attribute (case variant of the key name)', {})
    for d in U.DECOYS:
        if not dc.get(d or 'none'):
            inc.append('decoy spelling never run: %s' % (d or 'none'))
    # diagnosis: wrappers and anchors on engine internals (a renamed private function must not
    # make the run inconclusive when the comparisons above were made)
    for k in ('monitor:sort_sequence postcondition evaluations',
              'monitor:reverse_sequence postcondition evaluations',
              'monitor:sort_sequence result vs case elements (argument not a list/tuple)',
              'monitor:reverse_sequence result vs case elements (argument not a list/tuple)'):
        if not c.get(k):
            diag.append('internal monitor never evaluated: ' + k)
    for r in ('InClass.sort_sequence', 'InClass.reverse_sequence', 'make_sortfunctions',
              'SortBy.__call__', 'nocase', 'cmp', 'InClass.renderwb', 'InClass.renderwob',
              'SequenceFromIter.__getitem__'):
        if not c.get('reach:' + r):
            diag.append('anchor never entered: ' + r)
    # every container kind: every way of sorting decided on lists of >= 2 elements, and every law
    cs = t.get('container x sort', {})
    cl = t.get('container x law', {})
    for cont in CONTAINERS + U.NEW_CONTAINERS:
        gaps = [k for k in SORT_CLASSES if not cs.get('%s | %s' % (cont, k))]
        gaps += [k for k in LAWS if not cl.get('%s | %s' % (cont, k))]
        if gaps:
            inc.append('container %s: never decided for %s' % (cont, ', '.join(gaps)))
    for name, keys in (('sequence given by', SEQFROMS), ('tag syntax', SYNTAXES)):
        for k in keys:
            if not t.get(name, {}).get(k):
                inc.append('%s %s never exercised' % (name, k))
    cells = t.get('keytype x field form', {})
    missing = []
    for kt in U.KTYPES:
        for fn, d in U.forms_for(kt):
            key = '%s | %s' % (kt, U.field_text('k', fn, d))
            if not cells.get(key):
                missing.append(key)
        for form in ISORT_FORMS:
            if not cells.get('%s | %s' % (kt, form)):
                missing.append('%s | %s' % (kt, form))
    if missing:
        inc.append('key type x spec cells never rendered: %s' % ', '.join(missing[:8]))
    kd = t.get('keytype x kind/delivery', {})
    for kt in U.KTYPES:
        for kind in KEYED_KINDS:
            for dl in ('plain', 'callable'):
                if not kd.get('%s | %s/%s' % (kt, kind, dl)):
                    inc.append('never rendered: %s as %s/%s' % (kt, kind, dl))
    for name, keys in (('route', ['sort', 'sort_unq', 'sort_expr']),
                       ('container', CONTAINERS + U.NEW_CONTAINERS),
                       ('number of keys', ['0', '1', '2', '3'])):
        for k in keys:
            if not t.get(name, {}).get(k):
                inc.append('%s %s never exercised' % (name, k))
    for m in REVMODES:
        if not c.get('renders:%s|all' % m):
            inc.append('reverse mode never rendered: ' + m)
    tier = agg['tier']
    return {'inconclusive': inc,
            'coverage': {'exhaustive': True,
                         'explanation': 'parts A and B are exhaustive over the lists of the stated '
                                        'lengths/domains for every (key type, spec form, kind, delivery) '
                                        'resp. (type pair, form pair); route, container, None '
                                        'representation, reverse mode, batch window and the names of the keys '
                                        '(with decoy attribute and namespace shadowing) rotate; part C is '
                                        'seeded and extra; part D is exhaustive over (container kind, '
                                        'key type, single-key form / element sort / no sort, list) resp. '
                                        '(type pair, form pair, list) for the stated lengths, the other '
                                        'dimensions of a part D case are drawn with the seeded generator',
                         'max_length_single_key': MAXLEN_A[tier], 'max_length_two_keys': MAXLEN_B[tier],
                         'seeded_lists': NSEEDED[tier],
                         'containers_max_length_single_key': MAXLEN_D1[tier],
                         'containers_max_length_two_keys': MAXLEN_D2[tier],
                         'containers_seeded_lists': NSEEDED_D[tier],
                         'reentered_template_seeded_cases': NSEEDED_E[tier],
                         'diagnosis_not_available': diag}}


def replay(ctx, rep):
    mon = SortMonitor(ctx)
    mon.install()
    templates = Templates()
    case = dict(rep['case'])
    revmode = case.pop('revmode', None)
    batch = case.pop('batch', None)
    if 'inner_rows' in case:
        inner_rows, batch_i, at = case.pop('inner_rows'), case.pop('inner_batch', None), case.pop('at', 0)
        run_reentrant(ctx, mon, templates, case, inner_rows, revmode, batch, batch_i, at)
        return
    log = U.Log()
    data, rows = U.build(case, log)
    fp0 = U.fingerprint(data, rows)
    fields = fields_of(case)
    plain = render(ctx, mon, templates, case, data, rows, log, None, None, fp0)
    if plain is None:
        return
    if case['spec'] is not None or case['isort']:
        probs, reading = U.check_order(plain, fields)
        if probs:
            report(ctx, dict(case, revmode=None, batch=None), probs, source(case, None, None),
                   ';'.join(r.token for r in plain),
                   extra={'keys_in_shown_order': [repr(r.keys) for r in plain]})
    if revmode or batch:
        want = plain
        if revmode in ('reverse', 'reverse_expr1'):
            want = plain[::-1]
        got = render(ctx, mon, templates, case, data, rows, log, revmode, batch, fp0)
        if got is None:
            return
        if batch:
            st, sz = batch
            want = want[st - 1:min(len(rows), st - 1 + sz)]
        if shown_ids(case, got) != shown_ids(case, want):
            report(ctx, dict(case, revmode=revmode, batch=batch),
                   [('reverse' if not batch else 'batch', 'shows inputs %r, expected %r'
                     % ([r.idx for r in got], [r.idx for r in want]))],
                   source(case, revmode, batch), '')
