"""C05 — security guards mediate every read of client data; '_' names stay private.

Monitor: every access channel of the DTML language is rendered against a graph of probe objects
whose attributes come in three kinds (public / guard-refused / underscore-private) under a
recording guard supplied through BOTH routes (template-class hooks and an AccessControl
SecurityPolicy; plus the package's own RestrictedDTML mix-in as a second guarded configuration).
Oracle (independent of the engine code, from the property statement):
  (i)   no refused value (unique marked tokens / large numbers) in output, exception text or in
        arguments handed to namespace callables;
  (ii)  non-interference: renders differing only in refused values (assignments a, b and an
        all-falsy c) give equal output / exception type / call log;
  (iii) '_' names are never resolved from client objects (with or without guards) and a
        restricted expression naming ``x._y`` does not run.
The raw-read log of the probes is evidence and classifies the channel (mechanism key); it is
never a verdict on its own.
Every channel of the hand-written matrix is also rendered in derived settings (same oracle): over
every kind of iterable a dtml-in accepts (incl. items of basic type and (key, item) pairs), with
tree children of other sequence types, and inside every namespace-changing construct (with
mapping/object/expr x only, nested, in, let, if, try) - see RULE.
"""
import re

from vlib import c05_util as U

ID = 'C05'
LEVEL = 'exploration'
RULE = ('channel matrix: every DTML access channel (name lookup in client/client tuple/with/with only/'
        'let/if/call/return/raise/try, expression attribute/item/iteration/getattr/hasattr/namespace, '
        'dtml-in items with and without skip_unauthorized and batching, sequence-var/first/last/'
        'statistics/sort/sort_expr, fmt=method (instance and class-defined), url, tree branches/'
        'branches_expr/sort/id/url/items, helper templates of a guarded / RestrictedDTML / unguarded class '
        'found by name or called as helper(ob, _), helper((a, ob), _), helper(None, _), helper(ob, _, kw=..), '
        'entity and %()s forms) x kind {public, guard-refused, _private, alt = decision alternating per '
        'object and flipped between two renders of the same compiled template} x configuration {class hooks '
        '+ policy, RestrictedDTML + policy, no guards (for the _ clause)} x position pattern of the refused '
        'items {single, first, last, two adjacent, all, alternating} for the item channels (dtml-in, tree '
        'root and nested level, sort/statistics) x seeded object graphs (sequence length, seeded position, '
        'container type, client tuple, tree width, numbers); every case is rendered under three assignments '
        'of the refused values (alt: under both refusal tables, interleaved); a case is non-trivial when the '
        'targeted datum was reached (guard decision, raw read or leak); distinct = (channel, kind, '
        'configuration, pattern, graph seed).  DERIVED channels: every channel of that matrix is repeated '
        '(a) for every kind of thing a dtml-in can run over, when its loop is over items the guard may refuse '
        '(objects, mappings, str/int items read as sequence-item) or over the all-public sequence: generator, '
        'list iterator, map object, dict, keys/values/items views, __iter__-only and __getitem__-only objects, '
        '(key, item) pairs in a sequence / generator; (b) for the children of a tree node handed out as tuple / '
        'as a sequence of unknown type; (c) inside every namespace-changing construct around it: with '
        '{mapping, object, expr, _.namespace} x {only, not only} in both option orders, two nested `only`s in '
        'both orders, in mapping / in object, `only` then in, let, if, try (`space` / `holder` = the whole '
        'namespace once more as a dict / as attributes of one object).  Oracle and classification are '
        'inherited.  Of the derived matrix each graph variant renders the cells of one residue class '
        '(1/SAMPLE, class moving by one per variant; small classes completely); finish() recomputes the plan '
        'and demands every planned cell, and per derivation a public control rendered as expected, guard-log '
        'entries and a refused datum reached')
ASSUMPTIONS = [
    'a helper template is only required to honour the CALLER\'s guard when it is given the namespace '
    '(found by name or called with `_`); helper(ob) without the namespace is a new top-level rendering '
    'under the helper class\'s own guards and is not asserted',
    'mapping-mode namespaces (with mapping / in mapping key lookup, sort and statistics over mapping '
    'items) are keyed lookups the statement does not list: rendered and tabulated, never asserted',
    'unrestricted (guard-less) expressions may name _attributes (the statement only restricts '
    'restricted expressions); the guard-less configuration asserts the _ clause for name lookup, '
    'per-item variables, sort keys, fmt= and tree attributes only',
    'sequence-start staying true after a skipped first item (DESIGN finding 12) does not depend on '
    'refused VALUES and is not asserted here (it belongs to C10)',
    'the recording guard refuses a (key, item) pair when it refuses the item; for items of basic type '
    '(str, int) and for pairs the RestrictedDTML configuration is only asserted while the loop runs over the '
    'given container or the package\'s own wrapper of an iterable: after reverse / sort the engine loops '
    'over a plain list, and AccessControl\'s guarded_getitem hands str / int / tuple items of a plain list out '
    'without asking the policy (class-hook configuration asserted there)',
    'statistics do not unpack (key, item) pairs (nothing is read), so the statistics channels are not '
    'repeated for the pair kinds of iterables',
    'the guard refuses _names itself (as AccessControl does); _.getattr(o, "_x") is therefore only '
    'required to end in a refusal, not to be rejected at compile time',
]
SHARD_TIMEOUT = {'quick': 600, 'thorough': 3000}
NSHARDS = {'quick': 16, 'thorough': 16}
VARIANTS = {'quick': 4, 'thorough': 100}
SAMPLE = {'quick': 8, 'thorough': 24}      # share of the derived matrix taken per graph variant: 1/SAMPLE
UNSAMPLED = ('children',)                  # small classes of derived channels: complete in every variant
GUARDED = ('hook', 'zope')

STATS = ('total', 'count', 'min', 'max', 'median', 'mean', 'variance', 'variance-n',
         'standard-deviation', 'standard-deviation-n')


# ---------------------------------------------------------------- channel matrix
class Ch:
    def __init__(self, id, fam, src, client=False, kinds=('pub', 'den', 'prv'), expect=(),
                 flavour='HTML', extra=None, us=False, info=False, cfgs=GUARDED + ('none',),
                 needs=None, entity=False, raises=False, helper=None):
        self.id = id
        self.fam = fam
        self.src = src
        self.client = client
        self.kinds = kinds
        self.expect = tuple(expect)
        self.flavour = flavour
        self.extra = extra or {}
        self.us = us                  # restricted expression that names ._x syntactically
        self.info = info              # informational (statement silent): never a violation
        self.cfgs = cfgs
        self.needs = needs
        self.entity = entity
        self.raises = raises          # the public variant is expected to raise (dtml-raise)
        self.helper = helper          # (helper class cfg, flavour, helper source): ns['helper']
        self.deriv = None             # derived channels: (class of derivation, its name)
        self.base = None              # ... and the id of the channel of the hand-written matrix
        # 'alt' kind: the decision for one name alternates per object and flips between two renders
        # of the same compiled template (guarded configurations only)
        if ('den' in kinds and 'pub' in kinds and not info and not self.positional()
                and any(('@%s@' % f) in src + (helper[2] if helper else '') for f in U.FAMS)):
            self.kinds = tuple(kinds) + ('alt',)

    def positional(self):
        """Channels about refused ITEMS: rendered for every position pattern of the refused ones."""
        src = self.src + (self.helper[2] if self.helper else '')
        return any(t in src for t in ('@Q@', '@PQ@', '@MQ@', '@B@', '@W@'))

    def derive(self, cls, name, src=None, helper=None):
        """The same channel in another setting (iterable kind / enclosing namespace construct):
        everything but the source text is inherited, so are oracle and classification."""
        ch = Ch('%s@%s' % (self.id, name), self.fam, self.src if src is None else src, client=self.client,
                kinds=tuple(k for k in self.kinds if k != 'alt'), expect=self.expect, flavour=self.flavour,
                extra=self.extra, us=self.us, info=self.info, cfgs=self.cfgs, needs=self.needs,
                raises=self.raises, helper=self.helper if helper is None else helper)
        ch.deriv = (cls, name)
        ch.base = self.id
        return ch


def P(tag, name):
    return '%s-%s-%s' % (U.PUBLIC, tag, name)


def channels():
    c = []
    add = c.append
    X = GUARDED                       # expression channels: guarded configurations only
    # ---- name lookup in the client (InstanceDict)
    add(Ch('name.client', 'name', '[<dtml-var @s@>]', client=True, expect=[P('c', 's_pub')], entity=True))
    add(Ch('name.client.upper', 'name', '[<dtml-var @s@ upper>]', client=True, expect=['PUBV-C-S_PUB']))
    add(Ch('name.client.html_quote', 'name', '[<dtml-var @s@ html_quote>]', client=True,
           expect=[P('c', 's_pub')]))
    add(Ch('name.client.missing', 'name', '[<dtml-var @s@ missing=MISSING>]', client=True,
           expect=[P('c', 's_pub')]))
    add(Ch('name.client.null', 'name', '[<dtml-var @s@ null=NULLV>]', client=True, expect=[P('c', 's_pub')]))
    add(Ch('name.client.size', 'name', '[<dtml-var @s@ size=60 etc=..>]', client=True,
           expect=[P('c', 's_pub')]))
    add(Ch('name.client.fmt-c', 'name', '[<dtml-var @n@ fmt="%09d">]', client=True, expect=['000000003']))
    add(Ch('name.client.url_quote', 'name', '[<dtml-var @s@ url_quote>]', client=True,
           expect=[P('c', 's_pub')]))
    add(Ch('name.client.entity-mod', 'name', '[&dtml.url_quote-@s@;]', client=True, expect=[P('c', 's_pub')]))
    add(Ch('name.client.commas', 'name', '[<dtml-var @n@ thousands_commas>]', client=True, expect=['[3]']))
    add(Ch('name.client.method', 'name', '[<dtml-var @m@>]', client=True, expect=[P('c', 'm_pub()')],
           entity=True))
    add(Ch('name.client.call', 'name', '<dtml-call @m@>done', client=True, expect=['done']))
    add(Ch('name.client.if', 'name', '<dtml-if @s@>T<dtml-else>F</dtml-if>', client=True, expect=['T']))
    add(Ch('name.client.unless', 'name', '[<dtml-unless @s@>U</dtml-unless>]', client=True, expect=['[]']))
    add(Ch('name.client.elif', 'name', '<dtml-if zero>Z<dtml-elif @s@>E<dtml-else>F</dtml-if>',
           client=True, expect=['E']))
    add(Ch('name.client.let', 'name', '<dtml-let v=@s@>[<dtml-var v>]</dtml-let>', client=True,
           expect=[P('c', 's_pub')]))
    add(Ch('name.client.return', 'name', 'x<dtml-return @s@>y', client=True, expect=[P('c', 's_pub')]))
    add(Ch('name.client.raise', 'name', '<dtml-raise ValueError>[<dtml-var @s@>]</dtml-raise>', client=True,
           raises=True, expect=['ValueError', P('c', 's_pub')]))
    add(Ch('name.client.try', 'name',
           '<dtml-try>[<dtml-var @s@>]<dtml-except>E:<dtml-var error_type>:<dtml-var error_value></dtml-try>',
           client=True, expect=[P('c', 's_pub')]))
    add(Ch('name.client.try-finally', 'name',
           '<dtml-try>[<dtml-var @s@>]<dtml-finally>fin</dtml-try>', client=True, expect=[P('c', 's_pub')]))
    add(Ch('name.client.in-attr', 'name', '<dtml-in @l@>[<dtml-var tag>]</dtml-in>', client=True,
           expect=['[c.l_pub0][c.l_pub1]']))
    add(Ch('name.client.with-attr', 'name', '<dtml-with @k@>[<dtml-var tag>]</dtml-with>', client=True,
           expect=['[c.k_pub]']))
    add(Ch('name.client.tuple-first', 'name', '[<dtml-var @z@>]', client='tuple', expect=[P('c0', 'z_pub')]))
    add(Ch('name.client.tuple-last', 'name', '[<dtml-var @s@>]', client='tuple', expect=[P('c', 's_pub')]))
    add(Ch('name.client.epfs', 'name', '[%(@s@)s]', client=True, flavour='String', expect=[P('c', 's_pub')]))
    add(Ch('name.client.epfs-mod', 'name', '[%(@s@ lower)s]', client=True, flavour='String',
           expect=[P('c', 's_pub')]))
    add(Ch('name.client.ssi', 'name', '[<!--#var @s@-->]', client=True, expect=[P('c', 's_pub')]))
    # ---- with
    add(Ch('name.with', 'name', '<dtml-with o>[<dtml-var @s@>]</dtml-with>', expect=[P('o', 's_pub')],
           entity=True))
    add(Ch('name.with.only', 'name', '<dtml-with o only>[<dtml-var @s@>]</dtml-with>',
           expect=[P('o', 's_pub')]))
    add(Ch('name.with.only.nested-with', 'name',
           '<dtml-with o only><dtml-with k_pub>[<dtml-var @s@>]</dtml-with></dtml-with>',
           expect=[P('o.k_pub', 's_pub')]))
    add(Ch('name.with.only.nested-in', 'name',
           '<dtml-with o only><dtml-in l_pub>[<dtml-var @s@>]</dtml-in></dtml-with>',
           expect=[P('o.l_pub0', 's_pub'), P('o.l_pub1', 's_pub')]))
    add(Ch('name.with.tuple1', 'name', '<dtml-with "(o,)">[<dtml-var @s@>]</dtml-with>',
           expect=[P('o', 's_pub')]))
    add(Ch('name.with.expr', 'name', '<dtml-with "o.k_pub">[<dtml-var @s@>]</dtml-with>',
           expect=[P('o.k_pub', 's_pub')]))
    add(Ch('name.with.mapping', 'mapping', '<dtml-with md_map mapping>[<dtml-var @s@>]</dtml-with>',
           expect=[P('md_map', 's_pub')], info=True))
    add(Ch('expr.with.only', 'expr', '<dtml-with o only>[<dtml-var "k_pub.@s@">]</dtml-with>',
           expect=[P('o.k_pub', 's_pub')], us=True, cfgs=X))
    add(Ch('expr.with.only.getattr', 'expr',
           '<dtml-with o only>[<dtml-var "_.getattr(k_pub, \'@s@\')">]</dtml-with>',
           expect=[P('o.k_pub', 's_pub')], cfgs=X))
    add(Ch('expr.with.only.item-attr', 'expr', '<dtml-with o only>[<dtml-var "l_pub[0].@s@">]</dtml-with>',
           expect=[P('o.l_pub0', 's_pub')], us=True, cfgs=X))
    # ---- expressions
    add(Ch('expr.attr', 'expr', '[<dtml-var "o.@s@">]', expect=[P('o', 's_pub')], us=True, cfgs=X))
    add(Ch('expr.attr.chain', 'expr', '[<dtml-var "o.k_pub.@s@">]', expect=[P('o.k_pub', 's_pub')],
           us=True, cfgs=X))
    add(Ch('expr.attr.via-kid', 'expr', '[<dtml-var "o.@k@.s_pub">]', expect=[P('o.k_pub', 's_pub')],
           us=True, cfgs=X))
    add(Ch('expr.method', 'expr', '[<dtml-var "o.@m@()">]', expect=[P('o', 'm_pub()')], us=True, cfgs=X))
    add(Ch('expr.attr.quoted', 'expr', '[<dtml-var expr="o.@s@" html_quote>]', expect=[P('o', 's_pub')],
           us=True, cfgs=X))
    add(Ch('expr.if', 'expr', '<dtml-if "o.@s@">T<dtml-else>F</dtml-if>', expect=['T'], us=True, cfgs=X))
    add(Ch('expr.unless', 'expr', '[<dtml-unless "o.@n@">U</dtml-unless>]', expect=['[]'], us=True, cfgs=X))
    add(Ch('expr.let', 'expr', '<dtml-let v="o.@s@">[<dtml-var v>]</dtml-let>', expect=[P('o', 's_pub')],
           us=True, cfgs=X))
    add(Ch('expr.call-spy', 'expr', '<dtml-call "spy(o.@s@)">ok', expect=['ok'], us=True, cfgs=X))
    add(Ch('expr.return', 'expr', '<dtml-return "o.@s@">', expect=[P('o', 's_pub')], us=True, cfgs=X))
    add(Ch('expr.in', 'expr', '<dtml-in "o.@l@">[<dtml-var tag>]</dtml-in>',
           expect=['[o.l_pub0][o.l_pub1]'], us=True, cfgs=X))
    add(Ch('expr.with', 'expr', '<dtml-with "o.@k@">[<dtml-var tag>]</dtml-with>', expect=['[o.k_pub]'],
           us=True, cfgs=X))
    add(Ch('expr.namespace', 'expr', '<dtml-with "_.namespace(v=o.@s@)">[<dtml-var v>]</dtml-with>',
           expect=[P('o', 's_pub')], us=True, cfgs=X))
    add(Ch('expr.render', 'expr', '[<dtml-var "_.render(o.@m@)">]', expect=[P('o', 'm_pub()')],
           us=True, cfgs=X))
    add(Ch('expr._getattr', 'expr', '[<dtml-var "_.getattr(o, \'@s@\')">]', expect=[P('o', 's_pub')],
           cfgs=X))
    add(Ch('expr._getattr-default', 'expr', '[<dtml-var "_.getattr(o, \'@s@\', \'DFLT\')">]',
           expect=[P('o', 's_pub')], cfgs=X))
    add(Ch('expr._hasattr', 'expr', '[<dtml-var "_.hasattr(o, \'@s@\')">]', expect=['[1]'], cfgs=X))
    add(Ch('expr.getattr', 'expr', '[<dtml-var "getattr(o, \'@s@\')">]', expect=[P('o', 's_pub')], cfgs=X))
    add(Ch('expr.hasattr', 'expr', '[<dtml-var "hasattr(o, \'@s@\')">]', expect=['[1]'], cfgs=X))
    add(Ch('expr.ns-item', 'name', '[<dtml-var "_[\'@s@\']">]', client=True, expect=[P('c', 's_pub')]))
    add(Ch('expr.ns-has_key', 'name', '[<dtml-var "_.has_key(\'@s@\')">]', client=True, expect=['[True]']))
    add(Ch('expr.ns-getitem', 'name', '[<dtml-var "_.getitem(\'@s@\', 0)">]', client=True,
           expect=[P('c', 's_pub')]))
    add(Ch('expr.ns-name', 'name', '[<dtml-var "@s@ + \'!\'">]', client=True, expect=[P('c', 's_pub') + '!'],
           cfgs=X))
    add(Ch('expr.this', 'expr', '[<dtml-var "_.this.@s@">]', client=True, expect=[P('c', 's_pub')],
           us=True, cfgs=X))
    add(Ch('expr.format', 'expr', '[<dtml-var "\'{0.@s@}\'.format(o)">]', expect=[P('o', 's_pub')],
           cfgs=('zope',)))
    add(Ch('expr.lambda-default', 'expr', '[<dtml-var expr="(lambda x, _read=(lambda ob:ob): x.s_pub)(o)">]',
           kinds=('prv',), us=True, cfgs=X))
    add(Ch('expr.item.map', 'expr', '[<dtml-var "mp[\'@K@\']">]', kinds=('pub', 'den'),
           expect=[P('mp', 'key_pub')], cfgs=X))
    add(Ch('expr.item.seq', 'expr', '[<dtml-var "@Q@[@ix@].tag">]', kinds=('pub', 'den'), expect=['[i0]'],
           cfgs=X))
    add(Ch('expr.item.seq-str', 'expr', '[<dtml-var "@Q@[@ix@]">]', kinds=('pub', 'den'),
           expect=['[obj(i0)]'], cfgs=X))
    add(Ch('expr.item.seq.attr', 'expr', '[<dtml-var "seq[0].@s@">]', expect=[P('i0', 's_pub')],
           us=True, cfgs=X))
    add(Ch('expr.iter', 'expr', '[<dtml-var "[x.tag for x in @Q@]">]', kinds=('pub', 'den'),
           expect=["'i0'"], cfgs=X))
    add(Ch('expr.iter.attr', 'expr', '[<dtml-var "[x.@s@ for x in seq]">]', expect=[P('i1', 's_pub')],
           us=True, cfgs=X))
    add(Ch('expr.iter.sum', 'expr', '[<dtml-var "_.sum([x.@n@ for x in seq])">]', us=True, cfgs=X))
    add(Ch('expr.iter.spy', 'expr', '<dtml-call "[spy(x) for x in @Q@]">ok', kinds=('pub', 'den'),
           expect=['ok'], cfgs=X))
    # ---- dtml-in: the items
    add(Ch('in.item', 'in-item', '<dtml-in @Q@>[<dtml-var tag>]</dtml-in>', kinds=('pub', 'den'),
           expect=['[i0][i1][i2]'], cfgs=X))
    add(Ch('in.item.skip', 'in-item',
           '<dtml-in @Q@ skip_unauthorized>[<dtml-var tag>:<dtml-var sequence-item>]</dtml-in>',
           kinds=('pub', 'den'), expect=['[i0:obj(i0)]'], cfgs=X))
    add(Ch('in.item.batch', 'in-item', '<dtml-in @Q@ size=3 start=1 orphan=0>[<dtml-var tag>]</dtml-in>',
           kinds=('pub', 'den'), expect=['[i0][i1][i2]'], cfgs=X))
    add(Ch('in.item.batch.skip', 'in-item',
           '<dtml-in @Q@ size=@n1@ start=1 skip_unauthorized>[<dtml-var tag>:<dtml-var sequence-item>]</dtml-in>',
           kinds=('pub', 'den'), expect=['[i0:obj(i0)]'], cfgs=X))
    add(Ch('in.item.reverse.skip', 'in-item',
           '<dtml-in @Q@ reverse skip_unauthorized>[<dtml-var tag>]</dtml-in>', kinds=('pub', 'den'),
           expect=['[i0]'], cfgs=X))
    add(Ch('in.item.mapping.skip', 'in-item',
           '<dtml-in @MQ@ mapping skip_unauthorized>[<dtml-var tag>]</dtml-in>', kinds=('pub', 'den'),
           expect=['[m0][m1]'], cfgs=X))
    add(Ch('in.item.mapping', 'in-item', '<dtml-in @MQ@ mapping>[<dtml-var tag>]</dtml-in>',
           kinds=('pub', 'den'), expect=['[m0][m1]'], cfgs=X))
    add(Ch('in.item.no_push', 'in-item',
           '<dtml-in @Q@ no_push_item skip_unauthorized>[<dtml-var sequence-item>]</dtml-in>',
           kinds=('pub', 'den'), expect=['[obj(i0)]'], cfgs=X))
    add(Ch('in.item.prefix', 'in-item',
           '<dtml-in @Q@ prefix=row skip_unauthorized>[<dtml-var row_item>:<dtml-var row_index>]</dtml-in>',
           kinds=('pub', 'den'), expect=['[obj(i0):0]'], cfgs=X))
    # the same inside <dtml-with ... only>: the body renders into a NEW namespace, which must carry the guards
    add(Ch('in.item.with-only', 'in-item',
           '<dtml-with expr="{\'q\': @Q@}" mapping only><dtml-in q>[<dtml-var tag>]</dtml-in></dtml-with>',
           kinds=('pub', 'den'), expect=['[i0][i1][i2]'], cfgs=X))
    add(Ch('in.item.with-only.skip', 'in-item',
           '<dtml-with expr="{\'q\': @Q@}" mapping only><dtml-in q skip_unauthorized>'
           '[<dtml-var tag>:<dtml-var sequence-item>]</dtml-in></dtml-with>',
           kinds=('pub', 'den'), expect=['[i0:obj(i0)]'], cfgs=X))
    add(Ch('in.item.with-only.batch.skip', 'in-item',
           '<dtml-with expr="{\'q\': @Q@}" mapping only><dtml-in q size=@n1@ start=1 skip_unauthorized>'
           '[<dtml-var tag>:<dtml-var sequence-item>]</dtml-in></dtml-with>',
           kinds=('pub', 'den'), expect=['[i0:obj(i0)]'], cfgs=X))
    add(Ch('in.item.index-item.prev', 'seqvar-item',
           '<dtml-in @PQ@ size=1 start=@pa@ overlap=0>[<dtml-var previous-sequence-start-item>]</dtml-in>',
           kinds=('pub', 'den'), cfgs=X, needs=lambda p: p['hi'] + 2 <= p['n']))
    add(Ch('in.item.index-item.next', 'seqvar-item',
           '<dtml-in @PQ@ size=1 start=@pb@ overlap=0>[<dtml-var next-sequence-start-item>]</dtml-in>',
           kinds=('pub', 'den'), cfgs=X, needs=lambda p: p['lo'] >= 1))
    add(Ch('in.item.index-item.step', 'seqvar-item',
           '<dtml-in @PQ@ size=2 start=@pn@ skip_unauthorized>[<dtml-var sequence-step-start-item>]</dtml-in>',
           kinds=('pub', 'den'), cfgs=X, needs=lambda p: p['lo'] + 2 <= p['n']))
    # ---- items of basic type (strings, numbers): not wrapped, the body reads sequence-item
    W0 = '[' + P('w0', 'item') + ']'
    add(Ch('in.word', 'in-item', '<dtml-in @W@>[<dtml-var sequence-item>]</dtml-in>', kinds=('pub', 'den'),
           expect=[W0 + '[4]'], cfgs=X))
    add(Ch('in.word.skip', 'in-item', '<dtml-in @W@ skip_unauthorized>[&dtml-sequence-item;]</dtml-in>',
           kinds=('pub', 'den'), expect=[W0 + '[4]'], cfgs=X))
    add(Ch('in.word.batch.skip', 'in-item',
           '<dtml-in @W@ size=@n1@ start=1 skip_unauthorized>[<dtml-var sequence-item>:<dtml-var sequence-index>]'
           '</dtml-in>', kinds=('pub', 'den'), expect=['[' + P('w0', 'item') + ':0][4:1]'], cfgs=X))
    add(Ch('in.word.batch', 'in-item',
           '<dtml-in @W@ size=3 start=1 orphan=0>[<dtml-var sequence-item>]</dtml-in>', kinds=('pub', 'den'),
           expect=[W0 + '[4]'], cfgs=X))
    # (reverse / sort hand a plain list of the items to the loop, and AccessControl's guarded_getitem
    # passes str / int / tuple items of a plain list without asking the policy: class hooks only)
    add(Ch('in.word.reverse.skip', 'in-item',
           '<dtml-in @W@ reverse skip_unauthorized>[<dtml-var sequence-item>]</dtml-in>', kinds=('pub', 'den'),
           expect=['[4]' + W0], cfgs=('hook',)))
    add(Ch('in.word.spy', 'in-item',
           '<dtml-in @W@ skip_unauthorized><dtml-call "spy(_[\'sequence-item\'])"></dtml-in>ok',
           kinds=('pub', 'den'), expect=['ok'], cfgs=X))
    add(Ch('in.word.prefix', 'in-item',
           '<dtml-in @W@ prefix=row skip_unauthorized>[<dtml-var row_item>:<dtml-var row_index>]</dtml-in>',
           kinds=('pub', 'den'), expect=['[' + P('w0', 'item') + ':0][4:1]'], cfgs=X))
    add(Ch('in.word.expr', 'in-item',
           '<dtml-in expr="@W@" skip_unauthorized>[<dtml-var sequence-item>]</dtml-in>', kinds=('pub', 'den'),
           expect=[W0 + '[4]'], cfgs=X))
    # ---- item body name lookup
    add(Ch('in.body.name', 'name', '<dtml-in seq>[<dtml-var @s@>]</dtml-in>', expect=[P('i0', 's_pub')],
           entity=True))
    add(Ch('in.body.name.batch', 'name', '<dtml-in seq size=2 start=2>[<dtml-var @s@>]</dtml-in>',
           expect=[P('i1', 's_pub')]))
    add(Ch('in.body.name.tuples', 'name',
           '<dtml-in tseq>[<dtml-var sequence-key>:<dtml-var @s@>]</dtml-in>', expect=['[key0:' + P('i0', 's_pub')]))
    add(Ch('in.body.expr', 'expr', '<dtml-in seq>[<dtml-var "_[\'sequence-item\'].@s@">]</dtml-in>',
           expect=[P('i0', 's_pub')], us=True, cfgs=X))
    add(Ch('in.body.mapping', 'mapping', '<dtml-in mseq mapping>[<dtml-var @s@>]</dtml-in>',
           expect=[P('m0', 's_pub')], info=True))
    # ---- per-item variables
    add(Ch('in.seqvar', 'seqvar', '<dtml-in seq>[<dtml-var sequence-var-@s@>]</dtml-in>',
           expect=[P('i0', 's_pub')], entity=True))
    add(Ch('in.seqvar.if', 'seqvar', '<dtml-in seq><dtml-if sequence-var-@s@>T<dtml-else>F</dtml-if></dtml-in>',
           expect=['TTT']))
    add(Ch('in.seqvar.expr', 'seqvar', '<dtml-in seq>[<dtml-var "_[\'sequence-var-@s@\']">]</dtml-in>',
           expect=[P('i0', 's_pub')]))
    add(Ch('in.seqvar.spy', 'seqvar', '<dtml-in seq><dtml-call "spy(_[\'sequence-var-@s@\'])"></dtml-in>ok',
           expect=['ok']))
    add(Ch('in.seqvar.batch', 'seqvar', '<dtml-in seq size=2 start=1>[<dtml-var sequence-var-@s@>]</dtml-in>',
           expect=[P('i0', 's_pub')]))
    add(Ch('in.seqvar.prev-start', 'seqvar',
           '<dtml-in seq size=1 start=3 overlap=0>[<dtml-var previous-sequence-start-var-@s@>|'
           '<dtml-var previous-sequence-end-var-@s@>]</dtml-in>', expect=[P('i1', 's_pub')]))
    add(Ch('in.seqvar.next-start', 'seqvar',
           '<dtml-in seq size=1 start=1 overlap=0>[<dtml-var next-sequence-start-var-@s@>|'
           '<dtml-var next-sequence-end-var-@s@>]</dtml-in>', expect=[P('i1', 's_pub')]))
    add(Ch('in.seqvar.next-batches', 'seqvar',
           '<dtml-in seq size=1 start=1 overlap=0><dtml-in next-batches mapping>'
           '[<dtml-var batch-start-var-@s@>]</dtml-in></dtml-in>', expect=[P('i1', 's_pub'), P('i2', 's_pub')]))
    add(Ch('in.seqvar.prev-batches', 'seqvar',
           '<dtml-in seq size=1 start=3 overlap=0><dtml-in previous-batches mapping>'
           '[<dtml-var batch-end-var-@s@>]</dtml-in></dtml-in>', expect=[P('i0', 's_pub'), P('i1', 's_pub')]))
    add(Ch('in.seqvar.mapping', 'mapping', '<dtml-in mseq mapping>[<dtml-var sequence-var-@s@>]</dtml-in>',
           expect=[P('m0', 's_pub')], info=True))
    add(Ch('in.seqvar.refused-item', 'seqvar',
           '<dtml-in @Q@ size=1 start=@pa@ overlap=0>[<dtml-var previous-sequence-start-var-s_pub>]</dtml-in>',
           kinds=('pub', 'den'), cfgs=X, needs=lambda p: p['hi'] + 2 <= p['n']))
    for w_ in ('first', 'last'):
        add(Ch('in.%s' % w_, 'first-last', '<dtml-in seq>[<dtml-var %s-@r@>]</dtml-in>' % w_))
        add(Ch('in.%s.if' % w_, 'first-last',
               '<dtml-in seq><dtml-if %s-@r@>T<dtml-else>F</dtml-if></dtml-in>' % w_, entity=False))
        add(Ch('in.%s.batch' % w_, 'first-last',
               '<dtml-in seq size=@n1@ start=1>[&dtml-%s-@r@;]</dtml-in>' % w_))
        add(Ch('in.%s.refused-item' % w_, 'first-last',
               '<dtml-in @Q@ size=@n1@ start=1 skip_unauthorized>[<dtml-var tag>:<dtml-var %s-r_pub>]</dtml-in>' % w_,
               kinds=('pub', 'den'), cfgs=X))
        add(Ch('in.%s.refused-item.unbatched' % w_, 'first-last',
               '<dtml-in @Q@ skip_unauthorized>[<dtml-var tag>:<dtml-var %s-r_pub>]</dtml-in>' % w_,
               kinds=('pub', 'den'), cfgs=X))
    add(Ch('in.first.mapping', 'mapping', '<dtml-in mseq mapping>[<dtml-var first-@r@>]</dtml-in>', info=True))
    for st in STATS:
        add(Ch('in.stats.%s' % st, 'stats', '<dtml-in seq>[<dtml-var %s-@n@>]</dtml-in>' % st))
    for st in ('count', 'min', 'max', 'median'):
        add(Ch('in.stats.%s.str' % st, 'stats', '<dtml-in seq>[<dtml-var %s-@s@>]</dtml-in>' % st))
    add(Ch('in.stats.entity', 'stats', '<dtml-in seq size=2 start=1>[&dtml-total-@n@;|&dtml-max-@s@;]</dtml-in>'))
    add(Ch('in.stats.if', 'stats', '<dtml-in seq><dtml-if "_[\'total-@n@\'] > 500000">T<dtml-else>F</dtml-if></dtml-in>'))
    add(Ch('in.stats.refused-item', 'stats',
           '<dtml-in @Q@ skip_unauthorized>[<dtml-var total-n_pub>|<dtml-var max-s_pub>|<dtml-var count-n_pub>]</dtml-in>',
           kinds=('pub', 'den'), cfgs=X))
    add(Ch('in.stats.refused-item.batch', 'stats',
           '<dtml-in @Q@ size=@n1@ start=1 skip_unauthorized>[<dtml-var mean-n_pub>|<dtml-var min-s_pub>]</dtml-in>',
           kinds=('pub', 'den'), cfgs=X))
    add(Ch('in.stats.mapping', 'mapping', '<dtml-in mseq mapping>[<dtml-var total-@n@>]</dtml-in>', info=True))
    # ---- sort
    add(Ch('in.sort', 'sort', '<dtml-in seq sort=@r@>[<dtml-var tag>]</dtml-in>'))
    add(Ch('in.sort.num', 'sort', '<dtml-in seq sort=@n@>[<dtml-var tag>]</dtml-in>', expect=['[i0][i1][i2]']))
    add(Ch('in.sort.multi', 'sort', '<dtml-in seq sort=@r@,@n@>[<dtml-var tag>]</dtml-in>'))
    add(Ch('in.sort.multi2', 'sort', '<dtml-in seq sort=zero,@n@>[<dtml-var tag>]</dtml-in>',
           expect=['[i0][i1][i2]']))
    add(Ch('in.sort.nocase', 'sort', '<dtml-in seq sort=@r@/nocase>[<dtml-var tag>]</dtml-in>'))
    add(Ch('in.sort.desc', 'sort', '<dtml-in seq sort=@n@/cmp/desc>[<dtml-var tag>]</dtml-in>'))
    add(Ch('in.sort.reverse', 'sort', '<dtml-in seq sort=@n@ reverse>[<dtml-var tag>]</dtml-in>'))
    add(Ch('in.sort.batch', 'sort', '<dtml-in seq sort=@n@ size=2 start=1>[<dtml-var tag>]</dtml-in>',
           expect=['[i0][i1]']))
    add(Ch('in.sort.custom-cmp', 'sort', '<dtml-in seq sort=@n@/cmpspy>[<dtml-var tag>]</dtml-in>'))
    add(Ch('in.sort_expr', 'sort', '<dtml-in seq sort_expr="\'@n@\'">[<dtml-var tag>]</dtml-in>'))
    add(Ch('in.sort.refused-item', 'sort', '<dtml-in @Q@ sort=n_pub skip_unauthorized>[<dtml-var tag>]</dtml-in>',
           kinds=('pub', 'den'), expect=['[i0][i1][i2]'], cfgs=X))
    add(Ch('in.sort.refused-item.custom-cmp', 'sort',
           '<dtml-in @Q@ sort=n_pub/cmpspy skip_unauthorized>[<dtml-var tag>]</dtml-in>',
           kinds=('pub', 'den'), expect=['[i0][i1][i2]'], cfgs=X))
    add(Ch('in.sort.mapping', 'mapping', '<dtml-in mseq mapping sort=@n@>[<dtml-var tag>]</dtml-in>', info=True))
    # ---- fmt=method, url
    add(Ch('var.fmt', 'fmt', '[<dtml-var o fmt=@m@>]', expect=[P('o', 'm_pub()')]))
    add(Ch('var.fmt.null', 'fmt', '[<dtml-var o fmt=@m@ null=NULLV>]', expect=[P('o', 'm_pub()')]))
    add(Ch('var.fmt.item', 'fmt', '<dtml-in seq>[<dtml-var sequence-item fmt=@m@>]</dtml-in>',
           expect=[P('i0', 'm_pub()')]))
    add(Ch('var.fmt.expr', 'fmt', '[<dtml-var "o.k_pub" fmt=@m@>]', expect=[P('o.k_pub', 'm_pub()')], cfgs=X))
    add(Ch('var.url', 'var-url', '[<dtml-var @U@ url>]', kinds=('pub', 'den'),
           expect=[P('ou_pub', 'absolute_url()')], cfgs=X))
    add(Ch('var.url.expr', 'var-url', '[<dtml-var "@U@" url>]', kinds=('pub', 'den'),
           expect=[P('ou_pub', 'absolute_url()')], cfgs=X))
    # ---- tree
    T1 = {'expand_all': 1}
    add(Ch('tree.branches', 'tree-branches', '<dtml-tree root branches=@b@ single>[<dtml-var tag>]</dtml-tree>',
           extra=T1, expect=['[t0]', '[t00]']))
    add(Ch('tree.branches.collapsed', 'tree-branches',
           '<dtml-tree root branches=@b@ single>[<dtml-var tag>]</dtml-tree>', expect=['[t0]']))
    add(Ch('tree.branches.cookie', 'tree-branches', '<dtml-tree root branches=@b@>[<dtml-var tag>]</dtml-tree>',
           extra=T1, expect=['[t0]', '[t00]']))
    add(Ch('tree.branches_expr', 'tree-branches',
           '<dtml-tree root branches_expr="@b@()" single>[<dtml-var tag>]</dtml-tree>', extra=T1,
           expect=['[t0]', '[t00]'], cfgs=X))
    add(Ch('tree.branches_expr.collapsed', 'tree-branches',
           '<dtml-tree root branches_expr="@b@()" single>[<dtml-var tag>]</dtml-tree>', expect=['[t0]'], cfgs=X))
    add(Ch('tree.sort', 'tree-sort', '<dtml-tree root branches=b_pub sort=@n@ single>[<dtml-var tag>]</dtml-tree>',
           extra=T1, expect=['[t0]']))
    add(Ch('tree.sort.reverse', 'tree-sort',
           '<dtml-tree root branches=b_pub sort=@n@ reverse single>[<dtml-var tag>]</dtml-tree>', expect=['[t0]']))
    add(Ch('tree.id', 'tree-id', '<dtml-tree root branches=b_pub id=@s@ single>[<dtml-var tag>]</dtml-tree>',
           extra=T1, expect=[P('t0', 's_pub')]))
    add(Ch('tree.id.cookie', 'tree-id', '<dtml-tree root branches=b_pub id=@s@>[<dtml-var tag>]</dtml-tree>',
           extra=T1, expect=[P('t0', 's_pub')]))
    add(Ch('tree.url', 'tree-url',
           '<dtml-tree root branches=b_pub url=@s@ single>[<dtml-var tag>@<dtml-var tree-item-url>]</dtml-tree>',
           extra=T1, expect=['@' + P('t0', 's_pub')]))
    add(Ch('tree.body.name', 'name', '<dtml-tree root branches=b_pub single>[<dtml-var @s@>]</dtml-tree>',
           extra=T1, expect=[P('t0', 's_pub')]))
    add(Ch('tree.item', 'tree-item', '<dtml-tree root branches=@B@ single>[<dtml-var tag>]</dtml-tree>',
           kinds=('pub', 'den'), extra=T1, expect=['[t0]'], cfgs=X))
    add(Ch('tree.item.skip', 'tree-item',
           '<dtml-tree root branches=@B@ skip_unauthorized single>[<dtml-var tag>]</dtml-tree>',
           kinds=('pub', 'den'), extra=T1, expect=['[t0]'], cfgs=X))
    add(Ch('tree.item.skip.sort', 'tree-item',
           '<dtml-tree root branches=@B@ skip_unauthorized sort=n_pub single>[<dtml-var tag>]</dtml-tree>',
           kinds=('pub', 'den'), expect=['[t0]'], cfgs=X))
    add(Ch('tree.item.skip.cookie', 'tree-item',
           '<dtml-tree root branches=@B@ skip_unauthorized>[<dtml-var tag>]</dtml-tree>',
           kinds=('pub', 'den'), extra=T1, expect=['[t0]'], cfgs=X))
    # ---- methods defined by the class (per-object decisions on one class)
    add(Ch('var.fmt.class-method', 'fmt', '[<dtml-var o fmt=@cm@>]', expect=[P('o', 'cm_pub()')]))
    add(Ch('var.fmt.class-method.items', 'fmt', '<dtml-in seq>[<dtml-var sequence-item fmt=@cm@>]</dtml-in>',
           expect=[P('i0', 'cm_pub()'), P('i1', 'cm_pub()')]))
    add(Ch('var.fmt.class-method.null', 'fmt', '<dtml-in seq>[<dtml-var sequence-item fmt=@cm@ null=N>]</dtml-in>',
           expect=[P('i1', 'cm_pub()')]))
    add(Ch('name.class-method.items', 'name', '<dtml-in seq>[<dtml-var @cm@>]</dtml-in>',
           expect=[P('i0', 'cm_pub()'), P('i1', 'cm_pub()')]))
    add(Ch('expr.class-method.items', 'expr', '<dtml-in seq>[<dtml-var "_[\'sequence-item\'].@cm@()">]</dtml-in>',
           expect=[P('i1', 'cm_pub()')], us=True, cfgs=X))
    add(Ch('expr.two-objects', 'expr', '[<dtml-var "seq[0].@s@">][<dtml-var "seq[1].@s@">][<dtml-var "seq[2].@s@">]',
           expect=[P('i0', 's_pub'), P('i1', 's_pub')], us=True, cfgs=X))
    add(Ch('expr.getattr.two-objects', 'expr',
           '[<dtml-var "_.getattr(seq[0], \'@s@\')">][<dtml-var "_.getattr(seq[1], \'@s@\')">]',
           expect=[P('i0', 's_pub'), P('i1', 's_pub')], cfgs=X))
    add(Ch('name.with.two-objects', 'name',
           '<dtml-with "seq[0]">[<dtml-var @s@>]</dtml-with><dtml-with "seq[1]">[<dtml-var @s@>]</dtml-with>',
           expect=[P('i0', 's_pub'), P('i1', 's_pub')]))
    # ---- sub-template / helper template invoked while rendering (the namespace carries the guard)
    for hcfg, flav in (('hook', 'HTML'), ('zope', 'HTML'), ('none', 'HTML'), ('none', 'String')):
        hid = '%s-%s' % (hcfg, flav.lower())
        body = '{<dtml-var @s@>}' if flav == 'HTML' else '{%(@s@)s}'
        bodyz = '{<dtml-var @z@>}' if flav == 'HTML' else '{%(@z@)s}'
        H = (hcfg, flav, body)
        add(Ch('helper.%s.by-name.with' % hid, 'helper', '<dtml-with o>[<dtml-var helper>]</dtml-with>',
               helper=H, expect=['{' + P('o', 's_pub')]))
        add(Ch('helper.%s.by-name.client' % hid, 'helper', '[<dtml-var helper>]', client=True,
               helper=H, expect=['{' + P('c', 's_pub')]))
        add(Ch('helper.%s.call' % hid, 'helper', '[<dtml-var expr="helper(o, _)">]',
               helper=H, expect=['{' + P('o', 's_pub')]))
        add(Ch('helper.%s.call.tuple-last' % hid, 'helper', '[<dtml-var expr="helper((oz, o), _)">]',
               helper=H, expect=['{' + P('o', 's_pub')]))
        add(Ch('helper.%s.call.tuple-first' % hid, 'helper', '[<dtml-var expr="helper((oz, o), _)">]',
               helper=(hcfg, flav, bodyz), expect=['{' + P('oz', 'z_pub')]))
        add(Ch('helper.%s.call.none-in-with' % hid, 'helper',
               '<dtml-with o>[<dtml-var expr="helper(None, _)">]</dtml-with>',
               helper=H, expect=['{' + P('o', 's_pub')]))
        add(Ch('helper.%s.call.kw' % hid, 'helper', '[<dtml-var expr="helper(o, _, extra=1)">]',
               helper=H, expect=['{' + P('o', 's_pub')]))
        add(Ch('helper.%s.call.loop' % hid, 'helper',
               '<dtml-in seq>[<dtml-var expr="helper(_[\'sequence-item\'], _)">]</dtml-in>',
               helper=H, expect=['{' + P('i0', 's_pub'), '{' + P('i1', 's_pub')]))
        add(Ch('helper.%s.call.let' % hid, 'helper', '<dtml-let v="helper(o, _)">[<dtml-var v>]</dtml-let>',
               helper=H, expect=['{' + P('o', 's_pub')]))
        if flav == 'HTML':
            add(Ch('helper.%s.call.with-body' % hid, 'helper', '[<dtml-var expr="helper(o, _)">]',
                   helper=(hcfg, flav, '<dtml-with k_pub>{<dtml-var @s@>}</dtml-with>'),
                   expect=['{' + P('o.k_pub', 's_pub')]))
            add(Ch('helper.%s.call.in-body' % hid, 'helper', '[<dtml-var expr="helper(o, _)">]',
                   helper=(hcfg, flav, '<dtml-in l_pub>{<dtml-var @s@>}</dtml-in>'),
                   expect=['{' + P('o.l_pub0', 's_pub')]))
            add(Ch('helper.%s.call.expr-body' % hid, 'helper', '[<dtml-var expr="helper(None, _)">]',
                   helper=(hcfg, flav, '{<dtml-var "o.@s@">}'), expect=['{' + P('o', 's_pub')],
                   us=True, cfgs=X))
            add(Ch('helper.%s.call.fmt-body' % hid, 'fmt', '[<dtml-var expr="helper(None, _)">]',
                   helper=(hcfg, flav, '{<dtml-var o fmt=@cm@>}'), expect=['{' + P('o', 'cm_pub()')]))
            add(Ch('helper.%s.call.items' % hid, 'helper-item', '[<dtml-var expr="helper(None, _)">]',
                   helper=(hcfg, flav, '<dtml-in @Q@ skip_unauthorized>{<dtml-var tag>}</dtml-in>'),
                   kinds=('pub', 'den'), expect=['{i0}'], cfgs=X))
    # entity twins of the var channels
    out = []
    for ch in c:
        out.append(ch)
        if ch.entity:
            src = re.sub(r'<dtml-var ([^ >"]+)>', r'&dtml-\1;', ch.src)
            out.append(Ch(ch.id + '/entity', ch.fam, src, client=ch.client, kinds=ch.kinds,
                          expect=ch.expect, flavour=ch.flavour, extra=ch.extra, us=ch.us, info=ch.info,
                          cfgs=ch.cfgs, needs=ch.needs, helper=ch.helper))
    ids = [ch.id for ch in out]
    assert len(ids) == len(set(ids)), 'duplicate channel id'
    return out


# ---------------------------------------------------------------- derived channels
# (1) what a dtml-in runs over: every channel whose loop is over @Q@ / @MQ@ / @W@ (items the guard may
#     refuse) or over the all-public `seq` (attributes of the items) is repeated for every kind of
#     iterable of U.SRC_KINDS (generator, iterator, map object, dict, dict views, __iter__-only and
#     __getitem__-only objects, (key, item) pairs in a sequence / generator / items view)
IN_TAG = re.compile(r'(<dtml-in (?:expr=")?)(@Q@|@MQ@|@W@|seq)(?![A-Za-z0-9_@])')
REBUILT = re.compile(r'<dtml-in [^>]*\b(reverse|sort|sort_expr)\b')
# (2) the shape of the children list of a tree node
TREE_TAG = re.compile(r'(branches=)(@B@)')
# (3) the construct around the channel: with / in / let / if in every combination of the options that
#     change the namespace (`space` = the whole namespace as a dict, `holder` = the same as attributes
#     of an object).  `only` starts a NEW namespace, which has to carry the guards.
WRAPPERS = (
    ('with-mapping-only', '<dtml-with space mapping only>', '</dtml-with>'),
    ('with-only-mapping', '<dtml-with space only mapping>', '</dtml-with>'),
    ('with-expr-mapping-only', '<dtml-with expr="space" mapping only>', '</dtml-with>'),
    ('with-object-only', '<dtml-with holder only>', '</dtml-with>'),
    ('with-namespace-only', '<dtml-with "_.namespace(**space)" only>', '</dtml-with>'),
    ('with-mapping', '<dtml-with space mapping>', '</dtml-with>'),
    ('with-object', '<dtml-with holder>', '</dtml-with>'),
    ('with-object-only/with-mapping-only', '<dtml-with holder only><dtml-with space mapping only>',
     '</dtml-with></dtml-with>'),
    ('with-mapping-only/with-object-only', '<dtml-with space mapping only><dtml-with holder only>',
     '</dtml-with></dtml-with>'),
    ('with-mapping-only/in-object', '<dtml-with space mapping only><dtml-in holders>',
     '</dtml-in></dtml-with>'),
    ('in-mapping', '<dtml-in spaces mapping>', '</dtml-in>'),
    ('in-object', '<dtml-in holders>', '</dtml-in>'),
    ('let', '<dtml-let unused="1">', '</dtml-let>'),
    ('if', '<dtml-if "1">', '</dtml-if>'),
    ('try', '<dtml-try>', '<dtml-finally></dtml-try>'),
)


def derived(ch):
    """Derived channels of one channel of the hand-written matrix."""
    out = []
    if ch.info or ch.flavour != 'HTML':
        return out
    hsrc = ch.helper[2] if ch.helper else ''
    if IN_TAG.search(ch.src) or IN_TAG.search(hsrc):
        for kind in U.SRC_KINDS:
            if kind in U.PAIR_KINDS and ch.fam == 'stats':
                continue        # statistics do not unpack (key, item) pairs: nothing to read
            rep = r'\1\2_%s' % kind
            d = ch.derive('source', kind, src=IN_TAG.sub(rep, ch.src),
                          helper=(ch.helper[0], ch.helper[1], IN_TAG.sub(rep, hsrc)) if ch.helper else None)
            if kind in U.PAIR_KINDS and REBUILT.search(ch.src + hsrc) and ch.positional():
                # pairs in the plain list that reverse / sort build: see in.word.reverse.skip
                d.cfgs = tuple(c_ for c_ in d.cfgs if c_ != 'zope')
            out.append(d)
    if TREE_TAG.search(ch.src):
        for kind in U.TREE_KINDS:
            out.append(ch.derive('children', kind, src=TREE_TAG.sub(r'\1\2_%s' % kind, ch.src)))
    if not ch.client:
        for name, pre, post in WRAPPERS:
            out.append(ch.derive('around', name, src=pre + ch.src + post))
    return out


DERIVATIONS = ([('source', k) for k in U.SRC_KINDS] + [('children', k) for k in U.TREE_KINDS]
               + [('around', w_[0]) for w_ in WRAPPERS])
CHANNELS = None
MATRIX = None


def all_channels():
    """The hand-written matrix."""
    global CHANNELS
    if CHANNELS is None:
        CHANNELS = channels()
    return CHANNELS


def full_matrix():
    """Hand-written matrix followed by every derived channel."""
    global MATRIX
    if MATRIX is None:
        MATRIX = list(all_channels())
        for ch in all_channels():
            MATRIX.extend(derived(ch))
        ids = [ch.id for ch in MATRIX]
        assert len(ids) == len(set(ids)), 'duplicate channel id'
    return MATRIX


def find_channel(cid):
    for ch in full_matrix():
        if ch.id == cid:
            return ch
    return None


def combos(ch):
    """(kind, cfg) pairs of a channel: guarded configurations get every kind, the guard-less one
    only the underscore kind (and never the pure expression channels)."""
    for cfg in ch.cfgs:
        for kind in ch.kinds:
            if cfg == 'none' and kind != 'prv':
                continue
            if kind == 'den' and ch.positional():
                for pat in U.PATTERNS:
                    yield kind, cfg, pat
            else:
                yield kind, cfg, None


def plan(tier, seed):
    return [{} for _ in range(NSHARDS[tier])]


# ---------------------------------------------------------------- one case
def subst(src, kind, p):
    out = src
    for fam in U.FAMS:
        out = out.replace('@%s@' % fam, U.aname(fam, kind))
    den = kind == 'den'
    rep = {'@Q@': 'dseq' if den else 'seq', '@PQ@': 'dpseq' if den else 'pseq',
           '@MQ@': 'dmseq' if den else 'mseq', '@W@': 'dwseq' if den else 'wseq',
           '@U@': 'ou_den' if den else 'ou_pub',
           '@K@': 'key_den' if den else 'key_pub', '@B@': 'b_mix' if den else 'b_pub',
           '@ix@': str(p['lo'] if den else 0), '@pa@': str(p['hi'] + 2), '@pb@': str(p['lo']),
           '@pn@': str(p['lo'] + 1), '@n1@': str(p['n'])}
    for k, v in rep.items():
        out = out.replace(k, v)
    return out


TEMPLATES = {}
NAME_RE = re.compile(r'\b(o|oz|seq|pseq|tseq|dseq|dpseq|mseq|dmseq|wseq|dwseq|mp|md_map|ou_pub|ou_den|root|%s)\b'
                     % '|'.join('%s_%s' % (b, k) for b in U.SEQ_BASES for k in U.SRC_KINDS))
AROUND_RE = re.compile(r'\b(space|spaces|holder|holders)\b')


def get_template(cfg, flavour, src):
    key = (cfg, flavour, src)
    t = TEMPLATES.get(key)
    if t is None:
        if len(TEMPLATES) > 4000:
            TEMPLATES.clear()
        t = TEMPLATES[key] = U.template_class(cfg, flavour)(src)
    return t


def render(ch, kind, cfg, p, src, assign, flip=0):
    w = U.World(cfg)
    hsrc = subst(ch.helper[2], kind, p) if ch.helper else ''
    need = set(NAME_RE.findall(src + ' ' + hsrc))
    if ch.client:
        need.add('client')
    g = U.Graph(cfg, assign, p, w, need, flip=flip)
    ns = dict(g.ns)
    ns.update(ch.extra)
    if ch.client == 'tuple' or (ch.client and p.get('client') == 'tuple'):
        client = (g.c0, g.c)
    elif ch.client:
        client = g.c
    else:
        client = None
    if ch.helper:
        helper = ns['helper'] = get_template(ch.helper[0], ch.helper[1], hsrc)
        if ch.helper[0] == 'none':
            # the same compiled helper is first rendered on its own (top level, no guards: plain
            # access is legitimate there) and only then called by the guarded template
            # (on data of its own: one-shot iterables would be used up)
            w0 = U.CURRENT[0] = U.World('none')
            try:
                g0 = U.Graph(cfg, assign, p, w0, need | {'client'}, flip=flip)
                ns0 = dict(g0.ns)
                ns0.update(ch.extra)
                ns0['helper'] = helper
                helper(ns0.get('o') or g0.c, None, **ns0)
            except Exception:
                pass
            finally:
                U.CURRENT[0] = None
    around = set(AROUND_RE.findall(src))
    if around:
        # the whole namespace once more, as one mapping and as the attributes of one object
        # (both know each other: the constructs nest)
        space = dict(ns)
        holder = U.PObj('holder', ns)
        w.keep.append(holder)
        both = {'space': space, 'spaces': [space], 'holder': holder, 'holders': [holder]}
        space.update(both)
        U.pdict(holder).update(both)
        ns.update(both)
    out = exc = None
    U.CURRENT[0] = w
    try:
        try:
            t = get_template(cfg, ch.flavour, src)
            out = t(client, None, **ns)
        except Exception as e:
            exc = e
    finally:
        U.CURRENT[0] = None
    norm = Normaliser(w)
    if exc is not None:
        try:
            msg = str(exc)
        except Exception:      # zExceptions.Unauthorized.__str__ fails for a list argument (tree)
            msg = repr(getattr(exc, 'args', ''))
        text = norm('%s: %s' % (type(exc).__name__, msg))
        obs = ('exc', type(exc).__name__)
    else:
        text = norm(out if isinstance(out, str) else str(out))
        obs = ('out', text)
    return {'w': w, 'g': g, 'text': text, 'obs': obs, 'exc': exc, 'spy': [norm(x) for x in w.spy_log]}


class Normaliser:
    """Observation clean-up, not an oracle: memory addresses of probe objects (the tree falls back to
    id(node) when a node has no usable id attribute) are replaced by a constant, and the
    base64/zlib/json tree-state blobs in tree links are decoded so that the same applies inside."""
    BLOB = re.compile(r'(tree-[ec]=)([A-Za-z0-9_/+\-]{8,})')
    NUM = re.compile(r'(?<![0-9])[0-9]{9,}(?![0-9])')

    def __init__(self, w):
        self.ids = set(str(id(o)) for o in w.keep)

    def _num(self, m):
        return '<pyid>' if m.group(0) in self.ids else m.group(0)

    def _blob(self, m):
        import base64
        import zlib
        raw = m.group(2).replace('-', '+')
        try:
            data = zlib.decompress(base64.b64decode(raw + '=' * (-len(raw) % 4))).decode('utf-8')
        except Exception:
            return m.group(0)
        return m.group(1) + '<' + self.NUM.sub(self._num, data) + '>'

    def __call__(self, text):
        if 'tree-' in text:
            text = self.BLOB.sub(self._blob, text)
        return self.NUM.sub(self._num, text)


BIGNUM = re.compile(r'(?<![0-9])[12]00[0-9]{4}(?![0-9])')


def tokens_in(text):
    hits = []
    if U.SECRET in text:
        i = text.index(U.SECRET)
        hits.append(text[i:i + 40])
    m = BIGNUM.search(text)
    if m:
        hits.append(m.group(0))
    return hits


def norm_reader(chain):
    """Name of the engine function that performed a raw read (None: the guard itself read it)."""
    if not chain:
        return None
    f0 = chain[0]
    if f0[0] == '<guard>':
        return None
    mod = f0[0][:-3] if f0[0].endswith('.py') else f0[0]
    fn = f0[1]
    if mod == 'DT_InSV' and fn == 'value' and len(chain) > 1 and chain[1][1] in ('first', 'last'):
        return 'DT_InSV.first-last'
    if mod == 'TreeTag' and fn == 'try_call_attr' and len(chain) > 1:
        return 'TreeTag.try_call_attr<' + chain[1][1]
    return '%s.%s' % (mod, fn)


# (family, what was read, reader) -> mechanism key.  'attr' = a refused/_private attribute of an
# admitted object read without the guard; 'item' = any attribute of (or the element itself for
# seqvar-item) an item the guard refused.  Entries marked 'none' only apply without guards.
MECH = {
    ('seqvar', 'attr', 'DT_InSV.value'): 'plain-getattr:sequence-var',
    ('seqvar', 'item', 'DT_InSV.value'): 'raw-item:sequence-var',
    ('first-last', 'attr', 'DT_InSV.first-last'): 'plain-getattr:first-last',
    ('first-last', 'item', 'DT_InSV.first-last'): 'raw-item:first-last',
    ('stats', 'attr', 'DT_InSV.statistics'): 'plain-getattr:statistics',
    ('stats', 'item', 'DT_InSV.statistics'): 'raw-item:statistics',
    ('sort', 'attr', 'DT_In.sort_sequence'): 'plain-getattr:sort',
    ('sort', 'item', 'DT_In.sort_sequence'): 'raw-item:sort',
    ('seqvar-item', 'element', 'DT_InSV.item'): 'raw-item:sequence-variables-item',
    ('tree-sort', 'attr', 'TreeTag.tpRenderTABLE'): 'plain-getattr:tree-sort',
    ('tree-id', 'attr', 'TreeTag.try_call_attr<extract_id'): 'plain-getattr:tree-id',
    ('tree-id', 'attr', 'TreeTag.extract_id'): 'plain-getattr:tree-id',
    ('tree-url', 'attr', 'TreeTag.try_call_attr<tpRenderTABLE'): 'plain-getattr:tree-url',
    ('tree-url', 'attr', 'TreeTag.tpRenderTABLE'): 'plain-getattr:tree-url',
    ('var-url', 'attr', 'DT_Var.render'): 'plain-getattr:var-url',
    # expand_all: tpValuesIds walks the children without guarded_getitem; the id of a refused
    # child ends up in the tree state (cookie / tree-state)
    ('tree-item', 'item', 'TreeTag.extract_id'): 'raw-item:tree-expand-all',
    ('tree-item', 'item', 'TreeTag.try_call_attr<extract_id'): 'raw-item:tree-expand-all',
    ('tree-item', 'item', 'TreeTag.get_items'): 'raw-item:tree-expand-all',
}
MECH_NOGUARD = {
    ('fmt', 'attr', 'DT_Var.render'): 'underscore:fmt',
    ('tree-branches', 'attr', 'TreeTag.tpRenderTABLE'): 'underscore:tree-branches',
    ('tree-branches', 'attr', 'TreeTag.get_items'): 'underscore:tree-branches',
}


def secret_reads(r, cfg):
    """Raw reads of refused data that were not mediated by the guard: set of (what, reader)."""
    w = r['w']
    found = set()
    for objid, tag, name, chain in w.raw_log:
        reader = norm_reader(chain)
        if reader is None:
            continue
        if objid in w.denied_items:
            found.add(('item', reader))
            continue
        secret_name = (name[:1] == '_' and name.endswith('_prv')) or (objid, name) in w.denied_attrs
        if secret_name and (objid, name) not in w.decided:
            found.add(('attr', reader))
    for index, refused, chain in w.seq_log:
        reader = norm_reader(chain)
        if reader is None or not refused:
            continue
        if reader == 'DT_InSV.item':       # the element itself handed out (…-item variables)
            found.add(('element', reader))
    return found


def classify(ch, kind, cfg, results):
    keys = set()
    unknown = set()
    for r in results.values():
        for what, reader in secret_reads(r, cfg):
            k = MECH.get((ch.fam, what, reader))
            if k is None and cfg == 'none':
                k = MECH_NOGUARD.get((ch.fam, what, reader))
            if k is None:
                unknown.add((what, reader))
            else:
                keys.add(k)
    if len(keys) == 1 and not unknown:
        # exactly one known mechanism explains every unmediated read of refused data
        return keys.pop(), []
    return None, sorted(unknown | set(('known', k) for k in keys))


def case_params(gseed, pat):
    p = dict(U.seeded_params(gseed))
    p['pat'] = pat or 'single'
    deny = U.deny_indices(p['pat'], p['n'], p['p'])
    p['lo'], p['hi'] = min(deny), max(deny)
    return p


def run_case(ctx, ch, kind, cfg, gseed, pat=None, record=True):
    p = case_params(gseed, pat)
    if ch.needs is not None and not ch.needs(p):
        ctx.count('cases:not-applicable-for-graph')
        if ch.deriv is not None:
            ctx.count('derived cases not applicable for the graph')
        return
    src = subst(ch.src, kind, p)
    case = {'ch': ch.id, 'kind': kind, 'cfg': cfg, 'gseed': gseed, 'pat': pat, 'src': src, 'params': p}
    if ch.helper:
        case['helper'] = [ch.helper[0], ch.helper[1], subst(ch.helper[2], kind, p)]
    # 'alt': the SAME compiled template is rendered alternately under two refusal tables (flip 0/1:
    # which half of the objects refuses the name); within each table the assignments a/b/c
    flips = (0, 1) if kind == 'alt' else (0,)
    res = {}
    for assign in ('a', 'b', 'c'):
        for flip in flips:
            res[(flip, assign)] = render(ch, kind, cfg, p, src, assign, flip)
    ctx.count('renders', len(res))
    ctx.count('guard decisions', sum(len(r['w'].guard_log) for r in res.values()))
    ctx.count('guard refusals', sum(r['w'].refused for r in res.values()))
    ctx.count('raw reads logged', sum(len(r['w'].raw_log) for r in res.values()))
    for r in res.values():
        for route, tn, nm, ok in r['w'].guard_log:
            ctx.table('guard routes', '%s %s' % (route, 'allowed' if ok else 'refused'))
    problems = []
    for flip in flips:
        tagf = '' if len(flips) == 1 else ' [refusal table %d]' % flip
        # (i) token leak
        for a in ('a', 'b'):
            r = res[(flip, a)]
            hits = tokens_in(r['text'])
            if hits:
                problems.append('refused value in %s of assignment %s%s: %r'
                                % ('exception text' if r['exc'] is not None else 'output', a, tagf, hits[0]))
                break
        for a in ('a', 'b'):
            hits = tokens_in(' '.join(res[(flip, a)]['spy']))
            if hits:
                problems.append('refused value handed to a namespace callable%s: %r' % (tagf, hits[0]))
                break
        # (ii) non-interference
        for x, y in (('a', 'b'), ('a', 'c')):
            if res[(flip, x)]['obs'] != res[(flip, y)]['obs']:
                problems.append('renders differing only in refused values differ (%s vs %s)%s: %s | %s'
                                % (x, y, tagf, U_short(res[(flip, x)]['obs']), U_short(res[(flip, y)]['obs'])))
                break
        for x, y in (('a', 'b'), ('a', 'c')):
            if res[(flip, x)]['spy'] != res[(flip, y)]['spy']:
                problems.append('call log depends on refused values (%s vs %s)%s' % (x, y, tagf))
                break
    # (iii) restricted expression naming ._x must not run
    ra = res[(0, 'a')]
    if ch.us and kind == 'prv' and cfg != 'none' and ra['exc'] is None:
        problems.append('restricted expression naming an underscore attribute ran: %r'
                        % ra['text'][:80])
    w = ra['w']
    allsrc = ch.src + (ch.helper[2] if ch.helper else '')
    names = set(U.aname(f, kind) for f in U.FAMS if ('@%s@' % f) in allsrc)
    if '@U@' in ch.src:
        names.add('absolute_url')
    # what happened to the targeted datum (over both refusal tables for 'alt')
    glog = [e for f in flips for e in res[(f, 'a')]['w'].guard_log]
    rlog = [e for f in flips for e in res[(f, 'a')]['w'].raw_log]
    denied_items = set().union(*[res[(f, 'a')]['w'].denied_items for f in flips])
    refused_target = any((not ok) for route, tn, nm, ok in glog
                         if nm in names or nm is None or isinstance(nm, int) or route.endswith('item'))
    raw_target = any(nm in names for _, _, nm, _ in rlog) or \
        any(oid in denied_items for oid, _, _, _ in rlog)
    if kind == 'pub':
        live = (not names) or raw_target
        outcome = 'live' if live else 'untouched'
        ok_expect = all(e in ra['text'] for e in ch.expect) and (ra['exc'] is None) != ch.raises
        if ch.expect and not ok_expect:
            ctx.inconclusive('control failed: public variant of channel %s (%s) gave %r'
                             % (ch.id, cfg, ra['text'][:160]))
        if not ch.expect and ra['exc'] is not None:
            ctx.inconclusive('control failed: public variant of channel %s (%s) raised %r'
                             % (ch.id, cfg, ra['text'][:160]))
    elif problems:
        outcome = 'leak'
    elif refused_target:
        outcome = 'refused-by-guard'
    elif raw_target:
        outcome = 'raw-read-without-manifestation'
    elif kind == 'prv':
        outcome = 'rejected-before-guard' if ra['exc'] is not None else 'not-resolved'
    elif ra['exc'] is not None:
        outcome = 'raised-' + type(ra['exc']).__name__
    else:
        outcome = 'untouched'
    nontrivial = outcome not in ('untouched',)
    ctx.case((ch.id, kind, cfg, gseed, pat), nontrivial)
    if pat:
        ctx.table('refused-item position patterns', '%s | %s' % (ch.fam, pat))
    ctx.table('cases per configuration', cfg)
    ctx.table('cases per family', ch.fam)
    if ch.deriv is None:
        ctx.table('outcome %s' % kind, '%s | %s' % (ch.id, outcome))
        ctx.table('channel cases', ch.id)
        if cfg != 'none':
            ctx.table('channel guard-log entries', ch.id, len(glog))
    else:
        # derived channels are accounted for per derivation and per channel of the hand-written matrix
        dname = '%s: %s' % ch.deriv
        ctx.count('derived cases evaluated')
        ctx.table('derived cases', dname)
        ctx.table('derived cases per channel', ch.base)
        if cfg != 'none':
            ctx.table('derived guard-log entries', dname, len(glog))
        if kind == 'pub':
            if ch.expect and ok_expect:
                ctx.table('derived cases: public control rendered as expected', dname)
        elif nontrivial:
            ctx.table('derived cases: refused / private datum reached', dname)
        ctx.table('derived outcome %s' % kind, '%s | %s' % (dname, outcome))
    if problems:
        if ch.info:
            ctx.table('informational (statement silent)', '%s %s %s: differs' % (ch.id, kind, cfg))
        else:
            mech, evidence = classify(ch, kind, cfg, res)
            if ch.deriv is None:
                ctx.table('channel leaks', ch.id)
            else:
                ctx.table('derived leaks', '%s: %s' % ch.deriv)
            detail = {'observed': {'%d%s' % a: res[a]['text'][:400] for a in res},
                      'spy': {'%d%s' % a: res[a]['spy'][:6] for a in res},
                      'unmediated raw reads': [list(e) for e in evidence][:8],
                      'guard log (a)': [list(e) for e in w.guard_log[:12]]}
            ctx.violation('%s [%s/%s%s]: %s' % (ch.id, kind, cfg, '/' + pat if pat else '',
                                                '; '.join(problems[:3])), case, mech=mech,
                          key=re.sub(r'[^A-Za-z0-9_.-]', '_', '%s_%s_%s_%s' % (ch.id, kind, cfg, pat or '')),
                          detail=detail)
    elif ch.info:
        ctx.table('informational (statement silent)', '%s %s %s: equal' % (ch.id, kind, cfg))
    if record and gseed == 0 and kind != 'pub' and ch.id in ('name.client', 'in.sort', 'expr.item.map',
                                                             'in.item.skip', 'tree.branches', 'expr.attr'):
        ctx.sample({'channel': ch.id, 'kind': kind, 'cfg': cfg, 'source': src,
                    'observed': {'%d%s' % a: res[a]['text'][:160] for a in res},
                    'guard log (assignment a)': [list(e) for e in w.guard_log[:6]],
                    'outcome': outcome})
    return res


def U_short(obs):
    s = '%s:%s' % obs
    return s if len(s) < 140 else s[:140] + '...'


def case_list(tier, seed):
    """Deterministic list of (variant gseed, channel index, kind, cfg, pattern).  The hand-written matrix
    is enumerated completely for every graph variant; of the derived channels every variant takes the
    cells of one residue class (of SAMPLE[tier]) of a hash of the cell, the class moving on by one per
    variant - SAMPLE consecutive variants enumerate the derived matrix completely."""
    import random
    import zlib
    out = []
    chs = full_matrix()
    k = SAMPLE[tier]
    start = random.Random('c05/sample/%d' % seed).randrange(k)
    cells = []
    for ci, ch in enumerate(chs):
        for kind, cfg, pat in combos(ch):
            h = None
            if ch.deriv is not None and ch.deriv[0] not in UNSAMPLED:
                h = zlib.crc32(('%s|%s|%s|%s' % (ch.id, kind, cfg, pat)).encode('utf-8'))
            cells.append((ci, kind, cfg, pat, h))
    for v in range(VARIANTS[tier]):
        gseed = 0 if v == 0 else random.Random('c05/%d/%d' % (seed, v)).getrandbits(30) + 1
        for ci, kind, cfg, pat, h in cells:
            if h is not None and (h + start + v) % k:
                continue
            out.append((gseed, ci, kind, cfg, pat))
    return out


def run(ctx, spec):
    import TreeDisplay.TreeTag as TreeTag
    from DocumentTemplate import DT_In, DT_InSV, DT_Util, DT_Var, DT_With
    from DocumentTemplate import _DocumentTemplate as DTc
    from vlib.reach import Reach
    U.install_policy()
    reach = Reach()
    # diagnosis only: an anchor a refactoring has renamed is noted, not fatal
    for label, mod, path in (('InstanceDict.__getitem__', DTc, 'InstanceDict.__getitem__'),
                             ('Eval.eval', DT_Util, 'Eval.eval'),
                             ('InClass.renderwb', DT_In, 'InClass.renderwb'),
                             ('InClass.renderwob', DT_In, 'InClass.renderwob'),
                             ('InClass.sort_sequence', DT_In, 'InClass.sort_sequence'),
                             ('With.render', DT_With, 'With.render'),
                             ('Var.render', DT_Var, 'Var.render'),
                             ('sequence_variables.value', DT_InSV, 'sequence_variables.value'),
                             ('sequence_variables.statistics', DT_InSV, 'sequence_variables.statistics'),
                             ('tpRenderTABLE', TreeTag, 'tpRenderTABLE')):
        fn = mod
        for part in path.split('.'):
            fn = getattr(fn, part, None)
        if fn is None or not hasattr(fn, '__code__'):
            ctx.count('reach anchor missing: ' + label)
            continue
        reach.watch(label, fn)
    reach.start()
    chs = full_matrix()
    for i, (gseed, ci, kind, cfg, pat) in enumerate(case_list(ctx.tier, ctx.seed)):
        if i % ctx.nshards != ctx.shard:
            continue
        run_case(ctx, chs[ci], kind, cfg, gseed, pat)
    reach.stop()
    reach.report(ctx)


def finish(agg):
    c = agg['counters']
    t = agg['tables']
    inc = []
    # anchors inside the engine are diagnosis (a harmless refactoring may rename them): the verdict on
    # reach is taken from the output-level counters below (channel rendered, public control as expected,
    # guard consulted, refused datum reached)
    unreached = [r for r in ('InstanceDict.__getitem__', 'Eval.eval', 'InClass.renderwb', 'InClass.renderwob',
                             'InClass.sort_sequence', 'With.render', 'Var.render', 'sequence_variables.value',
                             'sequence_variables.statistics', 'tpRenderTABLE') if not c.get('reach:' + r)]
    if not c.get('guard refusals'):
        inc.append('the recording guard never refused anything')
    routes = t.get('guard routes', {})
    for route in ('hook-attr', 'hook-item', 'policy-attr', 'policy-item'):
        if not routes.get(route + ' refused') or not routes.get(route + ' allowed'):
            inc.append('guard route %s never both allowed and refused' % route)
    chs = all_channels()
    rendered = t.get('channel cases', {})
    glog = t.get('channel guard-log entries', {})
    leaks = t.get('channel leaks', {})
    for ch in chs:
        if not rendered.get(ch.id):
            inc.append('channel of the matrix not rendered: ' + ch.id)
        elif not ch.info and ch.kinds != ('prv',) and not glog.get(ch.id) and not leaks.get(ch.id):
            # (a channel that bypasses the guard altogether shows up as a leak instead)
            inc.append('guard log empty for guarded channel ' + ch.id)
    # every guard-refused variant must have touched its datum somewhere (the _private variants
    # are covered by the public control of the same channel: a refusal before any read leaves
    # no event to count)
    for kind in ('den', 'alt'):
        seen = {}
        for k, n in t.get('outcome ' + kind, {}).items():
            cid, outcome = k.split(' | ')
            seen.setdefault(cid, set()).add(outcome)
        for ch in chs:
            if kind in ch.kinds and not ch.info:
                o = seen.get(ch.id, set())
                if o and o <= {'untouched'}:
                    inc.append('%s variant of channel %s never reached the refused datum' % (kind, ch.id))
    live = {}
    for k, n in t.get('outcome pub', {}).items():
        cid, outcome = k.split(' | ')
        live.setdefault(cid, set()).add(outcome)
    info = set(ch.id for ch in chs if ch.info)
    for cid, o in live.items():
        if o <= {'untouched'} and cid not in info:
            inc.append('public control of channel %s never read its attribute' % cid)
    # derived channels: everything planned was evaluated, and every derivation has rendered its public
    # controls as expected, consulted the guard and reached refused data
    full = full_matrix()
    planned = sum(1 for gseed, ci, kind, cfg, pat in case_list(agg['tier'], agg['seed'])
                  if full[ci].deriv is not None)
    done = c.get('derived cases evaluated', 0) + c.get('derived cases not applicable for the graph', 0)
    if done != planned:
        inc.append('derived channels: %d cases planned, %d evaluated' % (planned, done))
    dleaks = t.get('derived leaks', {})
    for cls, name in DERIVATIONS:
        dname = '%s: %s' % (cls, name)
        if not t.get('derived cases', {}).get(dname):
            inc.append('derivation never rendered: ' + dname)
            continue
        if not t.get('derived cases: public control rendered as expected', {}).get(dname):
            inc.append('derivation without a public control rendered as expected: ' + dname)
        if not t.get('derived guard-log entries', {}).get(dname) and not dleaks.get(dname):
            inc.append('guard log empty for derivation ' + dname)
        if not t.get('derived cases: refused / private datum reached', {}).get(dname):
            inc.append('derivation never reached a refused datum: ' + dname)
    per_base = t.get('derived cases per channel', {})
    for ch in chs:
        if derived(ch) and not per_base.get(ch.id):
            inc.append('no derived case rendered for channel ' + ch.id)
    ncombo = sum(len(list(combos(ch))) for ch in chs)
    return {'inconclusive': inc,
            'coverage': {'channels': len(chs), 'channel_kind_configuration_cells': ncombo,
                         'engine_anchors_never_entered (diagnosis only)': unreached,
                         'derived_channels': len(full) - len(chs),
                         'derived_cells': sum(len(list(combos(ch))) for ch in full if ch.deriv is not None),
                         'derived_cells_share_per_variant': '1/%d' % SAMPLE[agg['tier']],
                         'derivations': ['%s: %s' % d for d in DERIVATIONS],
                         'graph_variants': VARIANTS[agg['tier']],
                         'exhaustive': 'the hand-written channel x kind x configuration matrix is enumerated '
                                       'completely for every graph variant; the derived matrix (channel x '
                                       'iterable kind / children shape / enclosing construct) is enumerated '
                                       'once per SAMPLE consecutive variants; graphs beyond the canonical one '
                                       'are seeded',
                         'families': sorted(set(ch.fam for ch in chs))}}


def replay(ctx, rep):
    U.install_policy()
    c = rep['case']
    ch = find_channel(c['ch'])
    if ch is not None:
        run_case(ctx, ch, c['kind'], c['cfg'], c['gseed'], c.get('pat'), record=False)
        return
    ctx.inconclusive('unknown channel in replay: %r' % (c.get('ch'),))
