"""C02 — names resolve by documented source precedence; block bindings are scoped;
call-on-lookup by name but not in expressions; sub-templates see the caller's namespace
with their own defaults on top.

Monitor: every source supplies its own token for the probed name, callables log each call
and return a call-numbered token, sub-templates print what they see; probes by name, by
entity, with missing=, by expression (`seen(n)` reports the identity of what it was given)
are rendered before / inside / after every block.
Oracle: vlib.c02_util.Model, an interpreter over an ordered list of scopes written from the
documented priority list and the tag docstrings; output and call trace must both agree.
"""
import itertools

from vlib.common import Recorder, short
from vlib import c02_util as U

ID = 'C02'
LEVEL = 'exploration'
RULE = ('part A: exhaustive over the 127 non-empty subsets of the seven concrete sources '
        '(call kw, template vars, last client, first client, call mapping, ctor kw, ctor mapping) '
        'x every assignment of {plain, callable, template} to the defining sources (16383), plus '
        'falsy winners (0, empty string, None, falsy callable) and seeded mixed assignments, each probed by '
        'name, entity, missing=, if, let and expression in HTML (and by name in plain HTML / EPFS '
        'String); part B: every nesting of {in, in mapping, with, with only, with mapping, let name, '
        'let expr, if, try-except} to depth 2 (quick) / 3 (thorough) x bound value kind x the source '
        'delivering the base namespace, with a probe group before / inside / after every block and '
        'sub-template calls at every probe point. distinct = distinct (subset, kinds, variant) or '
        '(nest, value kind, base source) tuples; a part-A case is non-trivial when at least two '
        'sources define the name or the winner is callable / template / falsy')
ASSUMPTIONS = [
    'one lookup by name calls the resolved callable exactly once (call trace compared exactly)',
    '`with ... only`: that names of the enclosing namespace are hidden is not asserted '
    '(the statement only says block bindings shadow); such probes are wildcards',
    'the sequence-name cache of dtml-in and variables set on a sub-template are not asserted',
    'ctor-mapping keys starting with "_" and client attributes starting with "_" are not used',
]
SHARD_TIMEOUT = {'quick': 600, 'thorough': 3000}
NSHARDS = {'quick': 16, 'thorough': 32}

# priority order, highest first (String.__call__ docstring + property statement)
SOURCES = ['kw', 'vars', 'client_last', 'client_first', 'mapping', 'ctor_kw', 'ctor_map']
KINDS3 = ['plain', 'call', 'tmpl']
FALSY = ['zero', 'empty', 'none', 'fcall']
NEST_KINDS = ['in', 'inmap', 'with', 'only', 'withmap', 'let', 'letx', 'if', 'try']
DESIGN_KINDS = ['in', 'with', 'only', 'withmap', 'let', 'if', 'try']
BASE_SOURCES = ['kw', 'vars', 'client', 'mapping', 'ctor_kw', 'ctor_map']


def plan(tier, seed):
    return [{} for _ in range(NSHARDS[tier])]


# ================================================================== part A
def value_spec(src, kind):
    if kind == 'plain':
        return U.Plain('P:' + src)
    if kind == 'call':
        return U.Call('C:' + src)
    if kind == 'fcall':
        return U.Call('C:' + src, falsy=True)
    if kind == 'tmpl':
        return U.Tmpl('T:' + src,
                      [U.Text('{T:%s|' % src), U.Probe('name', 'q', True),
                       U.Probe('name', 'd', True), U.Text('}')],
                      {'d': U.Plain('D:sub:' + src)})
    if kind == 'zero':
        return U.Plain(0)
    if kind == 'empty':
        return U.Plain('')
    if kind == 'none':
        return U.Plain(None)
    raise ValueError(kind)


def ast_a(cls):
    P, T = U.Probe, U.Text
    if cls == 'String':
        return [T('V'), P('name', 'n'), T('M'), P('miss', 'n'), T('Q'), P('name', 'q'),
                T('Z'), P('miss', 'zz')]
    ast = [T('V'), P('name', 'n'), T('E'), P('entity', 'n'), T('M'), P('miss', 'n'),
           T('I'), U.If('n', [T('T'), P('name', 'n')], [T('F'), P('name', 'n')])]
    if cls == 'H':
        ast += [T('L'), U.Let([('x', 'name', 'n'), ('y', 'expr', 'n')],
                              [P('name', 'x'), P('name', 'y'), P('expr', 'y')]),
                T('X'), P('expr', 'n')]
    else:
        ast += [T('L'), U.Let([('x', 'name', 'n'), ('y', 'expr', 'n')],
                              [P('name', 'x'), P('name', 'y')])]
    ast += [T('Q'), P('name', 'q'), T('Z'), P('miss', 'zz')]
    return ast


_CLASSES = {}


def classes():
    if not _CLASSES:
        from DocumentTemplate.DT_HTML import HTML
        from DocumentTemplate.DT_String import String

        class H(HTML):
            shared_globals = {}
        _CLASSES.update(H=H, HTML=HTML, String=String)
    return _CLASSES


def run_a(ctx, mask, kinds, pad, variant, cls, tag='grid'):
    """One precedence configuration.  kinds: one kind per defining source (priority order)."""
    members = [s for i, s in enumerate(SOURCES) if mask >> i & 1]
    case = {'part': 'A', 'mask': mask, 'kinds': list(kinds), 'pad': pad, 'variant': variant,
            'cls': cls}
    winner_kind = kinds[0]
    ctx.case(('A', mask, tuple(kinds), pad, variant, cls),
             len(members) > 1 or winner_kind != 'plain')
    C = classes()
    rec = Recorder()
    rz = U.Realizer(rec, C['HTML'])
    scopes = {}
    for s, k in zip(members, kinds):
        scopes[s] = {'n': value_spec(s, k), 'q': U.Plain('Q:' + s), 'd': U.Plain('D:' + s)}
    if pad:
        for s in SOURCES:
            if s not in scopes:
                scopes[s] = {'zz': U.Plain('zz:' + s)}
    ast = ast_a(cls)
    # ---- model: the documented priority list, lowest first
    model = U.Model()
    stack = []
    if cls == 'H':
        stack.append({'seen': U.Helper('seen')})
    for s in reversed(SOURCES):
        if s in scopes:
            stack.append(scopes[s])
    exp = model.render(ast, stack)
    # ---- engine
    src = U.to_dtml(ast, 'epfs' if cls == 'String' else 'html')
    real = dict((s, rz.real_scope(sc)) for s, sc in scopes.items())
    if cls == 'H':
        C['H'].shared_globals.clear()
        C['H'].shared_globals['seen'] = rz.seen
    cmap = real.get('ctor_map')
    if cmap is not None and variant & 1:
        cmap = U.CustomMapping(cmap)
    try:
        t = C[cls](src, cmap, **real.get('ctor_kw', {}))
        if 'vars' in real:
            if variant & 8:
                t._vars.update(real['vars'])      # the attribute itself
            else:
                t.var(**real['vars'])             # the documented setter
        first = last = None
        if 'client_first' in scopes:
            first = rz.real(U.Obj('client_first', scopes['client_first']))
        if 'client_last' in scopes:
            last = rz.real(U.Obj('client_last', scopes['client_last']))
        if first is not None and last is not None:
            client = (first, last)
            shape = 'tuple(first,last)'
        elif last is not None:
            client, shape = (last, 'bare') if variant & 2 else ((last,), 'tuple(last)')
        elif first is not None:
            if variant & 2:
                client, shape = (first, U.RObj('empty')), 'tuple(first,empty)'
            else:
                client, shape = (first,), 'tuple(first)'
        else:
            client, shape = None, 'none'
        mapping = real.get('mapping')
        if mapping is None:
            mapping = {} if variant & 4 else None
        elif variant & 1:
            mapping = U.CustomMapping(mapping)
        out = t(client, mapping, **real.get('kw', {}))
    except Exception as e:
        ctx.violation('render raised %s: %s (expected %s)'
                      % (type(e).__name__, short(str(e), 120), short(U.segments_text(exp), 200)),
                      case, key='A_raise_%d_%s' % (mask, '-'.join(kinds)))
        return
    finally:
        if cls == 'H':
            C['H'].shared_globals.clear()
    ctx.count('A:renders')
    ctx.count('A:renders class ' + cls)
    ctx.table('A subsets rendered', '%03d' % mask)
    ctx.table('A winner source x kind', '%s/%s' % (members[0], winner_kind))
    ctx.table('A client shape', shape)
    ctx.table('A defining sources', len(members))
    for f, n in model.probes.items():
        ctx.count('A:probes ' + f, n)
    ctx.count('A:sub-template invocations', model.subcalls)
    ctx.count('A:lookups shadowing a lower source', model.shadowed)
    problems = compare(exp, model.trace, out, rec)
    if problems:
        ctx.violation('; '.join(problems), case,
                      key='A_%d_%s_%s' % (mask, '-'.join(kinds), cls),
                      detail={'source': src, 'expected': U.segments_text(exp),
                              'observed': short(out, 1500), 'expected_calls': model.trace,
                              'observed_calls': rec.calls(), 'sources': members})
    if (ctx.shard % 2 == 0 and not ctx.samples and cls == 'H' and len(members) >= 3
            and kinds[0] in ('call', 'tmpl') and len(set(kinds)) > 1):
        ctx.sample({'part': 'A', 'sources': members, 'kinds': list(kinds), 'template': src,
                    'output': out, 'calls': rec.calls()})


def compare(exp, exp_trace, out, rec):
    problems = []
    if not isinstance(out, str):
        problems.append('render returned %s, not str' % type(out).__name__)
        out = str(out)
    if not U.segments_regex(exp).fullmatch(out):
        problems.append('output differs from the model: %s' % first_difference(exp, out))
    calls = rec.calls()
    if calls != exp_trace:
        i = 0
        while i < len(calls) and i < len(exp_trace) and calls[i] == exp_trace[i]:
            i += 1
        problems.append('call trace differs at #%d: engine called %r, model %r (lengths %d/%d)'
                        % (i, calls[i:i + 3], exp_trace[i:i + 3], len(calls), len(exp_trace)))
    return problems


def first_difference(exp, out):
    """Human-readable first point of disagreement (wildcards skipped greedily)."""
    pos = 0
    for i, s in enumerate(exp):
        if s is U.WILD:
            while pos < len(out) and out[pos] not in '[]()':
                pos += 1
            continue
        if out.startswith(s, pos):
            pos += len(s)
            continue
        before = U.segments_text(exp[max(0, i - 6):i])
        return ('after %r expected %r, engine rendered %r'
                % (before[-60:], s[:60], out[pos:pos + 60]))
    return 'engine rendered extra text %r' % out[pos:pos + 60]


def configs_a(tier):
    """Deterministic list of part-A configurations: (mask, kinds, pad, variant, cls, tag)."""
    out = []
    i = 0
    for mask in range(1, 128):
        k = bin(mask).count('1')
        for kinds in itertools.product(KINDS3, repeat=k):
            i += 1
            pads = (0, 1) if tier == 'thorough' else ((i + k) & 1,)
            for pad in pads:
                out.append((mask, kinds, pad, i % 16, 'H', 'grid'))
            if len(set(kinds)) == 1:
                for pad in (0, 1):
                    out.append((mask, kinds, pad, (i + pad) % 16, 'HTML', 'grid'))
                    out.append((mask, kinds, pad, (i + pad + 3) % 16, 'String', 'grid'))
        # falsy winner over every uniform assignment of the lower sources
        for fk in FALSY:
            for other in KINDS3:
                i += 1
                kinds = (fk,) + (other,) * (k - 1)
                out.append((mask, kinds, i & 1, i % 16, 'H', 'falsy'))
                if tier == 'thorough':
                    out.append((mask, kinds, 1 - (i & 1), (i + 5) % 16, 'HTML', 'falsy'))
    return out


# ================================================================== part B
def nest_value(level, label, vk, depth):
    name = 'n@L%d%s' % (level, label)
    if vk == 'plain':
        return U.Plain(name)
    if vk == 'call':
        return U.Call(name)
    ast = [U.Text('{%s|' % name)]
    for lv in range(1, depth + 1):
        ast.append(U.Probe('miss', 'b%d' % lv, True))
    ast += [U.Probe('miss', 'sequence-item', True), U.Probe('miss', 'error_value', True),
            U.Text('}')]
    return U.Tmpl(name, ast)


def build_nest(kinds, vk):
    """-> (ast, base scope dict of specs).  Level L (1-based) uses kinds[L-1]."""
    D = len(kinds)
    P, T = U.Probe, U.Text
    base = {'n': nest_value(0, 'base', vk, D), 'seen': U.Helper('seen')}
    sub_ast = [T('{sub|'), P('name', 'n', True)]
    for lv in range(1, D + 1):
        sub_ast.append(P('miss', 'b%d' % lv, True))
    sub_ast += [P('miss', 'sequence-item', True), P('miss', 'error_value', True),
                P('name', 'own', True), P('name', 'subn', True), T('}')]
    base['sub'] = U.Tmpl('sub', sub_ast, {'own': U.Plain('sub-own')})
    base['subn'] = U.Tmpl('subn', [T('{subn|'), P('name', 'n', True), P('miss', 'own', True), T('}')],
                          {'n': U.Plain('subn-n')})

    def point(tag, cur):
        """Probe group at a point enclosed by levels 1..cur."""
        ps = [T(tag), P('name', 'n'), P('entity', 'n'), P('expr', 'n')]
        for lv in range(1, D + 1):
            ps.append(P('miss', 'b%d' % lv))
        ps += [P('miss', 'sequence-item'), P('miss', 'sequence-index'),
               P('miss', 'error_type'), P('miss', 'error_value')]
        if 'only' not in kinds:
            # error_tb is free text: only its presence is probed (not under `with only`,
            # where hiding of outer names is not asserted)
            ps.append(U.If('error_tb', [T('+tb')], [T('-tb')]))
        for lv in range(1, D + 1):
            if kinds[lv - 1] == 'if':
                # inside a `with only` nested in this if-block the cached condition is an
                # outer name: whether it is hidden there is not asserted -> no probe
                hidden = lv <= cur and any(kinds[m - 1] == 'only' for m in range(lv + 1, cur + 1))
                if not hidden:
                    ps.append(P('name', 'c%d' % lv))
        ps += [P('name', 'sub'), P('name', 'subn'), P('miss', 'own')]
        return ps

    subjects = {}
    only_objs = []
    for lv in range(1, D + 1):
        k = kinds[lv - 1]
        b = 'b%d' % lv
        if k in ('in', 'inmap'):
            items = []
            for i in range(2):
                attrs = {'n': nest_value(lv, '%s.%d' % (k, i), vk, D), b: U.Plain('%s@%s.%d' % (b, k, i))}
                nm = 'item%d.%d' % (lv, i)
                items.append(U.Map(nm, attrs) if k == 'inmap' else U.Obj(nm, attrs))
            subjects['seq%d' % lv] = U.Seq('seq%d' % lv, items)
        elif k in ('with', 'only'):
            o = U.Obj('obj%d' % lv, {'n': nest_value(lv, k, vk, D), b: U.Plain('%s@%s' % (b, k))})
            subjects['obj%d' % lv] = o
            if k == 'only':
                only_objs.append(o)
        elif k == 'withmap':
            subjects['map%d' % lv] = U.Map('map%d' % lv, {'n': nest_value(lv, k, vk, D),
                                                         b: U.Plain('%s@%s' % (b, k))})
        elif k in ('let', 'letx'):
            subjects['src%d' % lv] = nest_value(lv, k, vk, D)
        elif k == 'if':
            subjects['c%d' % lv] = U.Call('c%d' % lv)
        elif k == 'try':
            subjects['boom%d' % lv] = U.Raiser('boom%d' % lv, 'L%dError' % lv, 'boom-%d' % lv)
        else:
            raise ValueError(k)
    base.update(subjects)
    # the object of a `with only` is the whole namespace inside: it carries the helpers and
    # the subjects of the other levels (same objects as in the base namespace)
    for o in only_objs:
        for name, spec in base.items():
            if name != 'n' and spec is not o and name not in o.attrs:
                o.attrs[name] = spec

    def level(lv):
        k = kinds[lv - 1]
        body = point('<%d:' % lv, lv)
        if lv < D:
            body += level(lv + 1)
        body += point('|%d>' % lv, lv)
        b = 'b%d' % lv
        if k in ('in', 'inmap'):
            return [U.In('seq%d' % lv, k == 'inmap', body)]
        if k == 'with':
            return [U.With('obj%d' % lv, 'inst', body)]
        if k == 'only':
            return [U.With('obj%d' % lv, 'only', body)]
        if k == 'withmap':
            return [U.With('map%d' % lv, 'mapping', body)]
        if k == 'let':
            return [U.Let([('n', 'name', 'src%d' % lv), (b, 'name', 'n')], body)]
        if k == 'letx':
            return [U.Let([('n', 'expr', 'src%d' % lv), (b, 'name', 'n')], body)]
        if k == 'if':
            return [U.If('c%d' % lv, body, [T('ELSE')])]
        if k == 'try':
            return [U.Try([T('discarded'), P('call', 'boom%d' % lv), T('unreached')], body)]
        raise ValueError(k)

    ast = point('^:', 0) + level(1) + point('$:', 0)
    return ast, base


def run_b(ctx, kinds, vk, bs):
    case = {'part': 'B', 'kinds': list(kinds), 'vk': vk, 'bs': bs}
    ctx.case(('B', tuple(kinds), vk, bs), True)
    C = classes()
    ast, base = build_nest(kinds, vk)
    loser = {'n': U.Plain('n@loser')} if bs != 'ctor_map' else None
    model = U.Model()
    stack = [loser, base] if loser else [base]
    exp = model.render(ast, stack)
    rec = Recorder()
    rz = U.Realizer(rec, C['HTML'])
    src = U.to_dtml(ast)
    try:
        rb = rz.real_scope(base)
        rl = rz.real_scope(loser) if loser else None
        if bs == 'ctor_kw':
            t = C['HTML'](src, rl, **rb)
        elif bs == 'ctor_map':
            t = C['HTML'](src, rb)
        else:
            t = C['HTML'](src, rl)
        if bs == 'kw':
            out = t(**rb)
        elif bs == 'vars':
            t.var(**rb)
            out = t()
        elif bs == 'client':
            out = t(rz.real(U.Obj('client', base)))
        elif bs == 'mapping':
            out = t(None, rb)
        else:
            out = t()
    except Exception as e:
        ctx.violation('render raised %s: %s' % (type(e).__name__, short(str(e), 160)), case,
                      key='B_raise_%s_%s_%s' % ('-'.join(kinds), vk, bs),
                      detail={'source': src, 'expected': U.segments_text(exp)})
        return
    ctx.count('B:renders')
    ctx.table('B nest depth', len(kinds))
    for lv, k in enumerate(kinds):
        ctx.table('B block kind at depth', '%s@%d' % (k, lv + 1))
    for a, b in zip(kinds, kinds[1:]):
        ctx.table('B kind directly inside kind', '%s>%s' % (a, b))
    ctx.table('B bound value kind', vk)
    ctx.table('B base namespace source', bs)
    for f, n in model.probes.items():
        ctx.count('B:probes ' + f, n)
    ctx.count('B:sub-template invocations', model.subcalls)
    ctx.count('B:lookups shadowing an outer binding', model.shadowed)
    ctx.count('B:probes not asserted (absent name under with-only)', model.wild)
    ctx.count('B:calls expected', len(model.trace))
    problems = compare(exp, model.trace, out, rec)
    if problems:
        ctx.violation('; '.join(problems), case,
                      key='B_%s_%s_%s' % ('-'.join(kinds), vk, bs),
                      detail={'source': src, 'expected': U.segments_text(exp),
                              'observed': short(out, 3000), 'expected_calls': model.trace[:60],
                              'observed_calls': rec.calls()[:60]})
    if ctx.shard % 2 == 1 and not ctx.samples and len(kinds) == 2 and len(set(kinds)) == 2:
        ctx.sample({'part': 'B', 'nest': list(kinds), 'value_kind': vk, 'base_source': bs,
                    'template': short(src, 1200), 'output': short(out, 1500),
                    'expected': short(U.segments_text(exp), 1500), 'calls': rec.calls()[:40]})


def configs_b(tier):
    out = []
    maxd = 2 if tier == 'quick' else 3
    i = 0
    for d in range(1, maxd + 1):
        for kinds in itertools.product(NEST_KINDS, repeat=d):
            for vk in KINDS3:
                i += 1
                if tier == 'thorough':
                    sources = BASE_SOURCES
                else:
                    sources = [BASE_SOURCES[i % 6]] if d == 2 else BASE_SOURCES
                for bs in sources:
                    out.append((kinds, vk, bs))
    return out


# ================================================================== driver hooks
def anchors():
    from DocumentTemplate import DT_String, DT_With, DT_Let, DT_In, DT_Try, DT_Util
    from DocumentTemplate import _DocumentTemplate as DT
    return [('String.__call__', DT_String.String.__call__),
            ('TemplateDict.getitem', DT.TemplateDict.getitem),
            ('TemplateDict.__getitem__', DT.TemplateDict.__getitem__),
            ('InstanceDict.__getitem__', DT.InstanceDict.__getitem__),
            ('render_blocks_', DT.render_blocks_),
            ('With.render', DT_With.With.render),
            ('Let.render', DT_Let.Let.render),
            ('InClass.renderwob', DT_In.InClass.renderwob),
            ('Try.render_try_except', DT_Try.Try.render_try_except),
            ('Eval.eval', DT_Util.Eval.eval)]


def run(ctx, spec):
    from vlib.reach import Reach
    reach = Reach()
    for label, f in anchors():
        reach.watch(label, f)
    reach.start()
    try:
        for i, cfg in enumerate(configs_a(ctx.tier)):
            if i % ctx.nshards == ctx.shard:
                run_a(ctx, *cfg)
        # seeded mixed assignments over all seven kinds (falsy values anywhere)
        nrand = (4000 if ctx.tier == 'quick' else 120000) // ctx.nshards
        rng = ctx.rng
        allk = KINDS3 + FALSY
        for _ in range(nrand):
            mask = rng.randint(1, 127)
            k = bin(mask).count('1')
            kinds = tuple(rng.choice(allk) for _ in range(k))
            ctx.count('A:seeded mixed assignments')
            run_a(ctx, mask, kinds, rng.randint(0, 1), rng.randint(0, 15),
                  rng.choice(['H', 'H', 'HTML']), 'seeded')
        for i, cfg in enumerate(configs_b(ctx.tier)):
            if i % ctx.nshards == ctx.shard:
                run_b(ctx, *cfg)
    finally:
        reach.stop()
        reach.report(ctx)


def finish(agg):
    c = agg['counters']
    t = agg['tables']
    inc = []
    subsets = t.get('A subsets rendered', {})
    missing = [m for m in range(1, 128) if not subsets.get('%03d' % m)]
    if missing:
        inc.append('%d of the 127 source subsets were never rendered (first: %s)'
                   % (len(missing), missing[:5]))
    for label, _f in ANCHOR_LABELS:
        if not c.get('reach:' + label):
            inc.append('anchor never entered: ' + label)
    for k in ('A:probes name', 'A:probes entity', 'A:probes expr', 'A:probes miss',
              'B:probes name', 'B:probes entity', 'B:probes expr', 'B:probes miss',
              'A:sub-template invocations', 'B:sub-template invocations',
              'A:lookups shadowing a lower source', 'B:lookups shadowing an outer binding',
              'B:calls expected'):
        if not c.get(k):
            inc.append('monitor never evaluated: ' + k)
    maxd = 2 if agg['tier'] == 'quick' else 3
    kd = t.get('B block kind at depth', {})
    for d in range(1, maxd + 1):
        for k in NEST_KINDS:
            if not kd.get('%s@%d' % (k, d)):
                inc.append('block kind %s never rendered at depth %d' % (k, d))
    wk = t.get('A winner source x kind', {})
    for s in SOURCES:
        for k in KINDS3 + FALSY:
            if not wk.get('%s/%s' % (s, k)):
                inc.append('winner %s of kind %s never rendered' % (s, k))
    return {'inconclusive': inc,
            'coverage': {'exhaustive': True,
                         'explanation': 'exhaustive: 127 subsets x 3^|S| kind assignments (16383), '
                                        'falsy winners, all nests of 9 block kinds to depth %d x 3 '
                                        'value kinds; seeded: mixed 7-kind assignments' % maxd,
                         'subsets_rendered': len(subsets),
                         'nest_kinds': NEST_KINDS, 'design_kinds': DESIGN_KINDS}}


ANCHOR_LABELS = [('String.__call__', None), ('TemplateDict.getitem', None),
                 ('TemplateDict.__getitem__', None), ('InstanceDict.__getitem__', None),
                 ('render_blocks_', None), ('With.render', None), ('Let.render', None),
                 ('InClass.renderwob', None), ('Try.render_try_except', None), ('Eval.eval', None)]


def replay(ctx, rep):
    c = rep['case']
    if c['part'] == 'A':
        run_a(ctx, c['mask'], tuple(c['kinds']), c['pad'], c['variant'], c['cls'], 'replay')
    else:
        run_b(ctx, tuple(c['kinds']), c['vk'], c['bs'])
